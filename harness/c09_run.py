"""C09 runner: one generated case against the REAL Context + Site + generated resources on the
real UDP stack over the fake socket (netsim) and the virtual clock (vloop).

A case (JSON-able):
  {"site": None | [{"path": [seg…], "handlers": {"<method code>": H}}…],
   "requests": [{"t": tick, "remote": n, "mtype": "CON"|"NON", "code": c, "path": [seg…],
                 "token": hex, "nr": None|int, "mid": m, "mc": bool}…],          # by ascending t
   "peers": {"<remote>": "ack"|"ack2"|"rst"}}        # reaction to separate CON responses
  H = {"o": kind, "d": delay ticks, "stubborn": bool, …kind specific…}
      kinds: ret(code|None, payload hex | fill n, nr|None, etag hex?, shared?)  rend(cls, msg|None | fill n)
             exc(exc, k)  nonmsg(val, k)  rfail(how, k)  cancel  hang
      ret.shared: every call of the handler returns the SAME Message object (a pre-built response)

Observation (no hooks in aiocoap; wrappers sit on instances created by the harness):
  * `incoming_requests` of the TokenManager is a recording dict: insertion order numbers the
    requests (0,1,…, like the message-layer model's `nextSrv`), removal gives `U<id>`;
  * `token_interface.send_message` of the TokenManager instance is wrapped: `S<id>:…`;
  * generated handlers note the CancelledError they receive: `K<id>`;
  * a logging handler collects records of level WARNING and above: `L:<kind>`;
  * the fake socket records every datagram: the wire.
"""
import asyncio
import contextvars
import logging

import netsim
import vloop
import wire as W

METHOD_NAMES = {1: "get", 2: "post", 3: "put", 4: "delete", 5: "fetch", 6: "patch", 7: "ipatch"}
SECRET = b"SECRET"


def secret(k):
    return "SECRET-%d-hunter2" % k


class OutcomeException(BaseException):
    """not derived from Exception, like the outcome exceptions of test frameworks (pytest.fail/skip) or the
    cancellation types of other async libraries"""


class WeirdError(Exception):
    def __init__(self, text):
        self.text = text

    def __str__(self):
        return self.text

    def __repr__(self):
        return "WeirdError(%r)" % self.text


def _raise_exc(kind, k, aiocoap):
    text = secret(k)
    if kind == "ValueError":
        raise ValueError(text)
    if kind == "KeyError":
        raise KeyError(text)
    if kind == "RuntimeError":
        raise RuntimeError(text)
    if kind == "OSError":
        raise OSError(5, text)
    if kind == "TimeoutError":
        raise asyncio.TimeoutError(text)
    if kind == "ZeroDivisionError":
        return 1 // 0
    if kind == "AttributeError":
        return getattr(None, text)
    if kind == "TypeError":
        return len(5)
    if kind == "StopIteration":
        raise StopIteration(text)
    if kind == "StopAsyncIteration":
        raise StopAsyncIteration(text)
    if kind == "AssertionError":
        assert False, text
    if kind == "Weird":
        raise WeirdError(text)
    if kind == "UnicodeDecodeError":
        return b"\xff".decode("utf-8")
    if kind == "ResponseWrappingError":      # has to_message() but is NOT a RenderableError
        raise aiocoap.error.ResponseWrappingError(
            aiocoap.Message(code=aiocoap.Code(132), payload=text.encode()))
    if kind == "LibraryShutdown":
        raise aiocoap.error.LibraryShutdown(text)
    if kind == "NetworkError":
        raise aiocoap.error.NetworkError(text)
    if kind == "UnparsableMessage":
        raise aiocoap.error.UnparsableMessage(text)
    if kind == "NotObservable":
        raise aiocoap.error.NotObservable(text)
    if kind == "BaseException":
        raise OutcomeException(text)
    if kind == "BaseExceptionGroup":
        raise BaseExceptionGroup(text, [OutcomeException(text), ValueError(text)])
    raise AssertionError("unknown exception kind " + kind)


EXC_KINDS = ["ValueError", "KeyError", "RuntimeError", "OSError", "TimeoutError", "ZeroDivisionError",
             "AttributeError", "TypeError", "StopIteration", "StopAsyncIteration", "AssertionError",
             "Weird", "UnicodeDecodeError", "ResponseWrappingError", "LibraryShutdown", "NetworkError",
             "UnparsableMessage", "NotObservable", "BaseException", "BaseExceptionGroup"]
NONMSG_KINDS = ["None", "str", "int", "bytes", "dict", "list", "tuple", "float", "object", "type"]
RFAIL_KINDS = ["raises", "none", "badmsg", "raises_direct", "str", "tuple", "nocode", "reqcode", "badrepr", "unenc"]


def _nonmsg(kind, k, aiocoap):
    text = secret(k)
    return {"None": None, "str": text, "int": 12345, "bytes": text.encode(), "dict": {"payload": text},
            "list": [text], "tuple": (aiocoap.Message(payload=text.encode()),), "float": 2.05,
            "object": object(), "type": aiocoap.Message}[kind]


def _rfail(kind, k, aiocoap):
    E = aiocoap.error
    text = secret(k)

    class RaisingRenderer(E.ConstructionRenderableError):
        code = aiocoap.Code(128)

        def to_message(self):
            raise ValueError(text)

    class NoneRenderer(E.RenderableError):
        def to_message(self):
            return None

    class DirectRaising(E.RenderableError):
        def to_message(self):
            raise KeyError(text)

    if kind == "raises":
        raise RaisingRenderer(text)
    if kind == "none":
        raise NoneRenderer(text)
    if kind == "raises_direct":
        raise DirectRaising(text)
    if kind in ("str", "tuple"):
        # an error renderer that hands back something that is not a message
        class WrongTypeRenderer(E.RenderableError):
            def to_message(self):
                return text if kind == "str" else (aiocoap.Message(code=aiocoap.Code(128), payload=text.encode()),)

        raise WrongTypeRenderer(text)
    if kind in ("nocode", "reqcode"):
        # an error renderer that hands back a message which is no response: no code / a request code
        class CodelessRenderer(E.RenderableError):
            def to_message(self):
                if kind == "nocode":
                    return aiocoap.Message(payload=text.encode())
                return aiocoap.Message(code=aiocoap.GET, payload=text.encode())

        raise CodelessRenderer(text)
    if kind == "unenc":
        # the rendering is a response message all right, but one that cannot be serialised
        class UnencodableRenderer(E.RenderableError):
            def to_message(self):
                return aiocoap.Message(code=aiocoap.Code(128), payload=text)        # str, not bytes

        raise UnencodableRenderer(text)
    if kind == "badrepr":
        # the conversion of the error (which starts with logging its repr) fails before to_message
        class BadRepr(E.BadRequest):
            def __repr__(self):
                raise RuntimeError(text)

        raise BadRepr(text)
    if kind == "badmsg":
        # a diagnostic that is not a str: `self.message.encode` fails inside to_message
        raise E.BadRequest(12345)
    raise AssertionError(kind)


def ret_payload(h):
    """payload of a `ret` outcome: "fill": n stands for n bytes 'x' (large payloads stay small in the case)"""
    return b"x" * h["fill"] if "fill" in h else bytes.fromhex(h["payload"])


def rend_text(h):
    return "e" * h["fill"] if "fill" in h else h["msg"]


def _rend(h, aiocoap):
    E = aiocoap.error
    name = h["cls"]
    if name == "Direct":
        code, diag = h["code"], h["msg"].encode()

        class Direct(E.RenderableError):
            def to_message(self):
                return aiocoap.Message(code=aiocoap.Code(code), payload=diag)

        raise Direct()
    if name == "Custom":
        code = h["code"]

        class Custom(E.ConstructionRenderableError):
            pass

        Custom.code = aiocoap.Code(code)
        Custom.message = h["default"]
        raise Custom(h["msg"]) if h["msg"] is not None else Custom()
    cls = getattr(E, name)
    if name in ("NoResource", "NoRequestInterface") or h["msg"] is None:
        raise cls()
    raise cls(h["msg"])


class RecordingDict(dict):
    """the TokenManager's `incoming_requests`: numbers the requests and notes removals"""

    def __init__(self, run):
        super().__init__()
        self.run = run

    def __setitem__(self, key, value):
        rid = self.run.next_id
        self.run.next_id += 1
        self.run.id_of_key[key] = rid
        self.run.key_of_id[rid] = key
        self.run.delivered.append((self.run.loop.now_ticks(), rid, key))
        super().__setitem__(key, value)

    def _gone(self, key):
        self.run.note(f"U{self.run.id_of_key[key]}")

    def __delitem__(self, key):
        self._gone(key)
        super().__delitem__(key)

    def pop(self, key, *a):
        if key in self:
            self._gone(key)
        return super().pop(key, *a)


class LogCatcher(logging.Handler):
    PREFIXES = [("An exception occurred while rendering a resource", "unhandled"),
                ("Rendering the renderable exception failed", "rendererFailed"),
                ("Requests shouldn't receive errors", "tmGotError"),
                ("Discarded exception in", "discarded"),
                ("Response ", "lateResponse")]

    def __init__(self, run):
        super().__init__(level=logging.WARNING)
        self.run = run

    def emit(self, record):
        try:
            msg = record.getMessage()
        except Exception as e:               # a repr() that raises is the resource's business:
            # the record is classified by its message template (what the library meant to say)
            msg = str(record.msg) if any(str(record.msg).startswith(p) for p, _ in self.PREFIXES) \
                else "unformattable:" + type(e).__name__
        kind = None
        for p, k in self.PREFIXES:
            if msg.startswith(p):
                kind = k
                break
        if kind == "lateResponse" and "added after" not in msg:
            kind = None
        if kind is None and record.module in ("messagemanager", "udp6"):
            return                          # message-layer chatter is not this property's subject
        if kind is None:
            kind = "other:" + record.levelname + ":" + msg[:40].replace(" ", "_").replace("|", "_").replace(";", "_")
        self.run.note("L:" + kind)
        self.run.log_records.append((self.run.loop.now_ticks(), record.levelname, msg[:300]))


class Run:
    def __init__(self, case):
        self.case = case
        self.notes = []          # (tick, item)
        self.next_id = 0
        self.id_of_key = {}
        self.key_of_id = {}
        self.delivered = []
        self.sends = []          # (tick, id, code, payload, nr, mid-assigned-later msg)
        self.log_records = []
        self.errors = []
        self.tasks = []
        self.stops = []          # (tick, id) RST-triggered stop() calls
        self.mid_owner = {}      # (remote, mid) -> id of the response sent with it
        self.shared_objs = {}    # group name -> [the Message object its handlers hand out]

    def note(self, item):
        self.notes.append((self.loop.now_ticks(), item))

    # ---- generated resources ------------------------------------------------------------------
    def make_handler(self, h):
        aiocoap = self.aiocoap
        run = self
        # "shared": "<name>": all handlers of the case naming the same group return ONE Message object
        shared = self.shared_objs.setdefault(h["shared"], []) if h.get("shared") else []

        async def handler(res, request):
            rid = run.id_of_key.get((request.token, request.remote))
            try:
                if h["o"] == "hang":
                    await asyncio.get_running_loop().create_future()
                elif h.get("d", 0) > 0:
                    await asyncio.sleep(h["d"] * vloop.TICK)
            except asyncio.CancelledError:
                run.note(f"K{rid}")
                if not h.get("stubborn") or h["o"] == "hang":
                    raise
            o = h["o"]
            if o == "ret":
                if h.get("shared") and shared:
                    return shared[0]            # the very object that was returned before
                kw = {}
                if h["code"] is not None:
                    kw["code"] = aiocoap.Code(h["code"])
                if h["nr"] is not None:
                    kw["no_response"] = h["nr"]
                if h.get("etag") is not None:
                    kw["etag"] = bytes.fromhex(h["etag"])
                m = aiocoap.Message(payload=ret_payload(h), **kw)
                shared.append(m)
                return m
            if o == "rend":
                if "fill" in h:
                    return _rend(dict(h, msg="e" * h["fill"]), aiocoap)
                return _rend(h, aiocoap)
            if o == "exc":
                return _raise_exc(h["exc"], h["k"], aiocoap)
            if o == "nonmsg":
                return _nonmsg(h["val"], h["k"], aiocoap)
            if o == "rfail":
                return _rfail(h["how"], h["k"], aiocoap)
            if o == "unenc":
                # a message that only fails when it is serialised: str payload, or an option value out of range
                if h["how"] == "payload":
                    return aiocoap.Message(code=aiocoap.Code(69), payload=secret(h["k"]))
                if h["how"] == "uncopyable":
                    # serialises, but cannot be deep-copied (the message layer keeps a copy for duplicates)
                    m = aiocoap.Message(code=aiocoap.Code(69), payload=b"ok")
                    m.opt.etag = memoryview(b"abcd")
                    return m
                return aiocoap.Message(code=aiocoap.Code(69), payload=b"x", max_age=-5)
            if o == "cancel":
                raise asyncio.CancelledError()
            raise AssertionError("unknown outcome " + o)

        return handler

    def make_site(self):
        if self.case["site"] is None:
            return None
        R = self.aiocoap.resource
        site = R.Site()
        subsites = {}
        for r in self.case["site"]:
            attrs = {}
            for code, h in r["handlers"].items():
                attrs["render_" + METHOD_NAMES[int(code)]] = self.make_handler(h)
            if r.get("direct"):
                # a resource with a render() of its own that does no blockwise assembly: what a handler
                # returns that is not a message reaches the pipe as it is (interfaces.Resource._render_to_pipe)
                raw = {"render_" + METHOD_NAMES[int(code)] for code, h in r["handlers"].items()
                       if h["o"] == "nonmsg"}

                async def needs_blockwise_assembly(self, request):
                    return False

                async def render(self, request, raw=raw, base=R.Resource.render):
                    name = "render_%s" % str(request.code).lower()
                    if name in raw:
                        return await getattr(self, name)(request)
                    return await base(self, request)

                attrs["needs_blockwise_assembly"] = needs_blockwise_assembly
                attrs["render"] = render
            cls = type("GeneratedResource", (R.Resource,), attrs)
            # "under": positions at which the full path is cut into nested sites ([1] = a sub-site registered at
            # path[:1] holds the resource at path[1:]; [1, 2] = two levels).  `path` stays the full path: that is what
            # the model and the oracle look requests up by.
            holder, start = site, 0
            for cut in r.get("under", ()):
                key = tuple(r["path"][:cut])
                if key not in subsites:
                    subsites[key] = R.Site()
                    holder.add_resource(list(r["path"][start:cut]), subsites[key])
                holder, start = subsites[key], cut
            if r.get("site_only"):
                continue                    # only the (empty) nested site is wanted
            holder.add_resource(list(r["path"][start:]), cls())
        return site

    # ---- scripted peers -----------------------------------------------------------------------
    def on_send(self, tick, dest, data):
        p = W.parse(data)
        remote = None
        for i in range(8):
            if netsim.peer(i)[:2] == tuple(dest)[:2]:
                remote = i
        if remote is None:
            self.errors.append(f"datagram to unknown destination {dest}")
            return
        if p["mtype"] == "CON" and 64 <= p["code"] < 192:
            key = (remote, p["mid"])
            n = self.con_seen.get(key, 0) + 1
            self.con_seen[key] = n
            policy = self.case.get("peers", {}).get(str(remote), "ack")
            if policy == "ack2" and n == 1:
                return                          # let it be retransmitted once
            if (policy == "ack2" and n == 2) or (policy != "ack2" and n == 1):
                mt = "RST" if policy == "rst" else "ACK"
                data = W.build(mt, 0, p["mid"], b"", [], b"")
                self.loop.call_at(1000.0 + (tick + 3) * vloop.TICK, self.inject, data, remote, False,
                                  ("RST", remote, p["mid"]) if mt == "RST" else None,
                                  context=contextvars.Context())

    def inject(self, data, remote, mc, rst_of=None):
        try:
            if rst_of is not None:
                rid = self.mid_owner.get((rst_of[1], rst_of[2]))
                if rid is not None:
                    self.stops.append((self.loop.now_ticks(), rid))
            self.net.inject(data, netsim.peer(remote),
                            local=netsim.LOCAL_MULTICAST if mc else netsim.LOCAL_UNICAST)
        except Exception as e:
            self.errors.append(f"exception escaped into the transport: {type(e).__name__}: {e}")

    # ---- main ---------------------------------------------------------------------------------
    async def main(self, loop):
        import aiocoap
        import aiocoap.resource
        import aiocoap.error
        self.aiocoap = aiocoap
        self.loop = loop
        self.con_seen = {}

        def factory(lp, coro, **kw):
            t = asyncio.Task(coro, loop=lp, **kw)
            self.tasks.append(t)
            return t

        loop.set_task_factory(factory)
        logger = logging.getLogger("coap-server")
        catcher = LogCatcher(self)
        saved = (logger.level, logger.propagate, list(logger.handlers))
        logger.handlers[:] = [catcher]
        logger.setLevel(logging.WARNING)
        logger.propagate = False
        try:
            with netsim.Pins(mid=self.case.get("mid0", 0x4000), token=0x20):
                site = self.make_site()
                self.ctx, self.net = await netsim.make_context(loop, site=site, server=True)
                tman = self.ctx.request_interfaces[0]
                mman = tman.token_interface
                tman.incoming_requests = RecordingDict(self)
                orig_send = mman.send_message

                def send_message(message, monitor):
                    rid = None
                    if message.code.is_response():
                        req = getattr(message, "request", None)
                        rid = self.id_of_key.get((message.token, req.remote)) if req is not None else None
                        nr = message.opt.no_response
                        pl = message.payload          # may be anything an application put there
                        self.note("S%s:%s:%d:%s:%s:1" % (
                            rid, message.token.hex() or "-", int(message.code),
                            (pl.hex() or "-") if isinstance(pl, (bytes, bytearray)) else "unserialisable",
                            "-" if nr is None else nr))
                    r = orig_send(message, monitor)
                    if rid is not None and message.mid is not None:
                        for i in range(8):
                            if netsim.peer(i)[:2] == tuple(message.remote.sockaddr)[:2]:
                                self.mid_owner[(i, message.mid)] = rid
                    return r

                mman.send_message = send_message
                self.net.on_send = self.on_send
                last = 0
                for rq in self.case["requests"]:
                    opts = [(W.URI_PATH, seg.encode()) for seg in rq["path"]]
                    if rq["nr"] is not None:
                        opts.append((W.NO_RESPONSE, W.uint_bytes(rq["nr"])))
                    data = W.build(rq["mtype"], rq["code"], rq["mid"], bytes.fromhex(rq["token"]), opts, b"")
                    loop.call_at(1000.0 + rq["t"] * vloop.TICK, self.inject, data, rq["remote"],
                                 bool(rq.get("mc")), context=contextvars.Context())
                    last = max(last, rq["t"])
                horizon = last + self.case.get("settle", 70 * vloop.TICKS_PER_S)
                await asyncio.sleep(horizon * vloop.TICK)
                for _ in range(5):
                    await asyncio.sleep(0)
                self.net.on_send = None
                self.frozen_notes = list(self.notes)
                self.frozen_wire = list(self.net.sent)
                self.frozen_tasks = list(self.tasks)
                self.task_errors = []
                for t in self.frozen_tasks:
                    if t.done() and not t.cancelled() and t.exception() is not None:
                        e = t.exception()
                        self.task_errors.append(f"{type(e).__name__}: {e}"[:200])
                await self.ctx.shutdown()
        finally:
            logger.handlers[:] = saved[2]
            logger.setLevel(saved[0])
            logger.propagate = saved[1]


def run_case(case):
    r = Run(case)
    _, loop = vloop.run(r.main, max_time=1e7)
    wire = []
    seen = set()
    for (tick, dest, data) in r.frozen_wire:
        p = W.parse(data)
        remote = None
        for i in range(8):
            if netsim.peer(i)[:2] == tuple(dest)[:2]:
                remote = i
        k = (remote, p["mid"], data)
        retrans = k in seen
        seen.add(k)
        wire.append({"tick": tick, "remote": remote, "mtype": p["mtype"], "code": p["code"], "mid": p["mid"],
                     "token": p["token"].hex(), "payload": p["payload"].hex(), "retransmission": retrans,
                     "options": [(n, v.hex()) for n, v in p["options"]]})
    loop_exc = [str(c.get("exception") or c.get("message"))[:200] for c in loop.exceptions]
    return {"notes": r.frozen_notes, "wire": wire, "delivered": [(t, i) for (t, i, _) in r.delivered],
            "stops": r.stops, "errors": r.errors, "task_errors": r.task_errors, "loop_exceptions": loop_exc,
            "log": r.log_records}
