"""Shared machinery of the checks: environment, Lean driver, result collection.

A property module `harness/props/Cxx.py` exposes

    run(env, rep)            -- correspondence + oracle over corpus/boundary/random cases
    replay(env, case)        -- re-run one recorded case on the implementation only;
                                returns an oracle verdict string ("" = holds)

`rep` (Report) collects everything the evidence file reports; nothing in the
evidence is a constant.
"""
import hashlib
import json
import os
import random
import subprocess
import sys
import time

VERIF = os.path.dirname(os.path.dirname(os.path.abspath(__file__)))
LEAN_DIR = os.path.join(VERIF, "lean")
DRIVER = os.path.join(LEAN_DIR, ".lake", "build", "bin", "driver")


class HarnessError(Exception):
    """The check itself could not run (exit 2, never a VIOLATION)."""


class Env:
    def __init__(self, prop, tier, seed, repo):
        self.prop = prop
        self.tier = tier
        self.seed = seed
        self.repo = repo
        self.rng = random.Random(f"{prop}:{seed}")
        self.thorough = tier == "thorough"
        self.lean_lines = 0

    def scale(self, quick, thorough):
        return thorough if self.thorough else quick

    def lean(self, lines):
        """Run the model driver on a batch of lines; one output line per input line."""
        if not lines:
            return []
        for l in lines:
            if "\n" in l:
                raise HarnessError("newline inside a driver line")
        data = ("\n".join(lines) + "\n").encode()
        p = subprocess.run([DRIVER], input=data, capture_output=True, timeout=1800)
        if p.returncode != 0:
            raise HarnessError(f"model driver failed: {p.stderr.decode()[:400]}")
        out = p.stdout.decode().split("\n")
        if out and out[-1] == "":
            out.pop()
        if len(out) != len(lines):
            raise HarnessError(f"driver returned {len(out)} lines for {len(lines)} inputs")
        self.lean_lines += len(lines)
        return out

    def import_repo(self, shims=False):
        """Make `import aiocoap` resolve to the working tree under test."""
        if shims:
            sp = os.path.join(VERIF, "harness", "shims")
            if sp not in sys.path:
                sys.path.insert(0, sp)
        if sys.path[0] != self.repo:
            sys.path.insert(0, self.repo)
        if os.environ.get("VERIF_COV") and not getattr(Env, "_linecov", False):
            Env._linecov = True
            import linecov
            linecov.install(self.repo)      # harness authors' aid (tools/anchor_coverage.py), never part of a verdict
        import aiocoap
        here = os.path.realpath(os.path.dirname(aiocoap.__file__))
        if not here.startswith(os.path.realpath(self.repo) + os.sep):
            raise HarnessError(f"aiocoap imported from {here}, not from {self.repo}")
        return aiocoap


class Report:
    def __init__(self, prop):
        self.prop = prop
        self.evaluations = 0
        self.nontrivial = set()
        self.samples = []
        self.hist = {}
        self.disagreements = []   # model and implementation differ
        self.oracle_failures = [] # the property itself fails on the implementation
        self.out_of_model = 0
        self.traces = 0
        self.notes = []
        self.exhaustive_parts = []

    def count(self, key, n=1):
        self.hist[key] = self.hist.get(key, 0) + n

    def case(self, case, nontrivial=True, sample_every=0):
        """Register one explored case (any JSON-able value)."""
        self.evaluations += 1
        if nontrivial:
            h = hashlib.blake2b(json.dumps(case, sort_keys=True, default=str).encode(),
                                digest_size=8).digest()
            self.nontrivial.add(h)
        if len(self.samples) < 5 or (sample_every and self.evaluations % sample_every == 0
                                     and len(self.samples) < 12):
            self.samples.append(case)

    def disagree(self, case, model, impl, what=""):
        # capped per kind (`what` may name a known finding), see oracle_fail
        per = self._per_what = getattr(self, "_per_what", {})
        per[what] = per.get(what, 0) + 1
        if (per[what] <= 5 or len(self.disagreements) < 50) and len(self.disagreements) < 400:
            self.disagreements.append({"case": case, "model": model, "impl": impl, "what": what})
        self.count("disagreement")

    def oracle_fail(self, case, verdict, key=None):
        """`key` identifies the finding (input / call site) for known_findings matching."""
        # the list is capped per key, not in total: failures under a key that is listed as a known finding (dozens
        # per run for some properties) must never crowd out a failure under a key seen for the first time
        k = key or verdict
        per_key = self._per_key = getattr(self, "_per_key", {})
        per_key[k] = per_key.get(k, 0) + 1
        if per_key[k] <= 5 or len(self.oracle_failures) < 50:
            if len(self.oracle_failures) < 400:
                self.oracle_failures.append({"case": case, "verdict": verdict, "key": k})
        self.count("oracle_failure")


def compare(env, rep, cases, lines, impl_outs, what="", on_differ=None):
    """Feed `lines` to the model and diff with `impl_outs` (same length as cases)."""
    outs = env.lean(lines)
    for case, line, m, i in zip(cases, lines, outs, impl_outs):
        if m == "out-of-model":
            rep.out_of_model += 1
            continue
        if m == "bad-op":
            raise HarnessError(f"driver rejected line: {line[:200]}")
        rep.traces += 1
        if m != i:
            rep.disagree({"case": case, "line": line[:2000]}, m[:2000], i[:2000], what)
            if on_differ:
                on_differ(case, m, i)
    return outs


def load_corpus(prop):
    d = os.path.join(VERIF, "corpus", prop)
    out = []
    if os.path.isdir(d):
        for fn in sorted(os.listdir(d)):
            if fn.endswith(".json"):
                with open(os.path.join(d, fn)) as f:
                    out.append((fn, json.load(f)))
    return out


def quiet(logger):
    """Silence a logger WITHOUT raising its level: every logging call of the implementation is still
    executed down to Logger._log (so a call with bad keyword arguments still raises, as it would in
    a default deployment), the records just go nowhere."""
    import logging
    if isinstance(logger, str):
        logger = logging.getLogger(logger)
    logger.setLevel(logging.DEBUG)
    logger.propagate = False
    if not any(isinstance(h, logging.NullHandler) for h in logger.handlers):
        logger.addHandler(logging.NullHandler())
    return logger
