"""C07 level (i): the real `ClientObservation._Iterator`, driven operation by operation.

A case is {"pre": [delivery...], "ops": [op...]} with tokens as on the `C07 I` / `C07 A` driver
lines:
    pre   `cb:<n>` = observation.callback(item n), `eb:<N|C|Tk>` = observation.error(...), all before
          `__aiter__` is called (empty: the usual case, the iterator is there from the start)
    ops   `P<n>` = item n arrives, `E<N|C|Tk>` = the observation is told an error,
          `N` = a consumer task calls `__anext__`, `W` = the event loop runs (a consumer whose future
          was completed is resumed), `X` = the consumer task is cancelled.
The iterator is obtained through `ClientObservation.__aiter__` and fed through
`ClientObservation.callback` / `.error`, i.e. through the callbacks `__aiter__` registered; once the
observation has ended (it refuses further calls then) the very same bound methods
(`it.push` / `it.push_err`) are called directly, so that sequences a misbehaving feeder could
produce are compared as well.  Nothing yields to the event loop except `N` / `W` / `X`, which is
how "the consumer is busy / not scheduled yet" is produced deterministically.

Per op the canonical string is `<outputs>/<slot><deferred><consumer>` (see Driver/C07.lean); the
state part is read off the iterator object (`_future`, `_deferred_error`) and the consumer task
(`_fut_waiter`), read-only.
"""
import asyncio

ERR = {"N": "NotObservable", "C": "ObservationCancelled", "T0": "MessageError",
       "T1": "ConRetransmitsExceeded", "T2": "NetworkError", "T3": "LibraryShutdown"}
YIELDS = 2


class IterBench:
    def __init__(self, aiocoap):
        import aiocoap.protocol as P
        from aiocoap import error
        self.aiocoap, self.P, self.error = aiocoap, P, error
        self.items = {}

    def item(self, n):
        m = self.items.get(n)
        if m is None:
            m = self.aiocoap.Message(code=self.aiocoap.CONTENT, payload=str(n).encode())
            m.c07_n = n
            self.items[n] = m
        return m

    def exc(self, k):
        e = self.error
        return {"N": e.NotObservable(), "C": e.ObservationCancelled(), "T0": e.MessageError,
                "T1": e.ConRetransmitsExceeded(), "T2": e.NetworkError("harness"),
                "T3": e.LibraryShutdown()}[k]

    @staticmethod
    def err_short(e):
        n = e.__name__ if isinstance(e, type) else type(e).__name__
        for k, v in ERR.items():
            if v == n:
                return k
        return "?" + n

    def state(self, it, task):
        f = it._future
        if not f.done():
            slot = "p"
        elif f.cancelled():
            slot = "c"
        elif f.exception() is not None:
            slot = "e" + self.err_short(f.exception())
        else:
            slot = "r%d" % f.result().c07_n
        d = getattr(it, "_deferred_error", None)
        deferred = "-" if d is None else self.err_short(d)
        if task is None or task.done():
            cons = "i"
        else:
            cons = "s" if task._fut_waiter is it._future else "o"
        return slot + deferred + cons

    def feed(self, obs, it, op):
        if op[0] == "P":
            m = self.item(int(op[1:]))
            if not obs.cancelled:
                obs.callback(m)
            else:
                # a feeder ClientObservation rules out; the future `push` replaces may hold an
                # exception nobody fetched, which asyncio would report on stderr when it is
                # collected: look at it first (changes nothing for the iterator)
                f = it._future
                if f.done() and not f.cancelled():
                    f.exception()
                it.push(m)
        else:
            e = self.exc(op[1:])
            if not obs.cancelled:
                obs.error(e)
            else:
                it.push_err(e)

    async def run_case(self, case, drain=3):
        """-> (canonical line | "out-of-model", drained outputs, raw outputs [(kind, object)])
        After the case's ops a consumer that keeps iterating is simulated (`drain` further
        `__anext__` calls with the loop running in between); what it gets is returned separately
        and judged by the oracle only."""
        loop = asyncio.get_running_loop()
        obs = self.P.ClientObservation()
        for d in case.get("pre", ()):
            if d.startswith("cb:"):
                obs.callback(self.item(int(d[3:])))
            else:
                obs.error(self.exc(d[3:]))
        cur, raw = [], []
        task = None
        try:
            it = obs.__aiter__()
        except Exception as e:
            return "escaped:aiter:" + type(e).__name__, [], raw

        async def one_next():
            try:
                m = await it.__anext__()
                cur.append("i%d" % m.c07_n)
                raw.append(("item", m))
            except StopAsyncIteration:
                cur.append("stop")
                raw.append(("stop", None))
            except asyncio.CancelledError:
                cur.append("cancelled")
                raw.append(("cancelled", None))
            except Exception as e:
                cur.append("raise:" + self.err_short(e)[1:])
                raw.append(("raise", e))

        async def turn():
            for _ in range(YIELDS):
                await asyncio.sleep(0)

        groups, drained = [], []
        try:
            for op in case["ops"]:
                if op[0] in "PE":
                    try:
                        self.feed(obs, it, op)
                    except Exception as e:      # raised into whoever feeds the observation
                        cur.append("escaped:" + type(e).__name__)
                elif op == "N":
                    if task is not None and not task.done():
                        return "out-of-model", [], raw
                    task = loop.create_task(one_next())
                    await turn()
                elif op == "W":
                    await turn()
                elif op == "X":
                    if task is not None and not task.done():
                        task.cancel()
                        await turn()
                else:
                    raise AssertionError(op)
                groups.append((",".join(cur) or ".") + "/" + self.state(it, task))
                cur.clear()
            await turn()
            for _ in range(drain):
                if task is None or task.done():
                    task = loop.create_task(one_next())
                await turn()
            drained = list(cur)
        finally:
            if task is not None and not task.done():
                task.cancel()
                await asyncio.gather(task, return_exceptions=True)
        return (" ".join(groups) or "-"), drained, raw


def driver_line(case):
    if case.get("pre"):
        return "C07 A " + " ".join(case["pre"]) + " | " + " ".join(case["ops"])
    return "C07 I " + " ".join(case["ops"])


# ---------------------------------------------------------------------------------------------
# Oracle: what the property says about async iteration, read over the observed outputs only.
# Shares nothing with the model: it looks at the sequence of things fed in and of things that came
# out of __anext__.
# ---------------------------------------------------------------------------------------------

def well_formed(case):
    """the observation feeds items, then at most one error, then nothing (ClientObservation
    guarantees that: error() can be called once and cancels)"""
    seen_err = any(d.startswith("eb:") for d in case.get("pre", ()))
    for op in case["ops"]:
        if op[0] in "PE" and seen_err:
            return False
        if op[0] == "E":
            seen_err = True
    return True


def oracle_iter(case, line, drained):
    """`line`: canonical output of the case; `drained`: outputs of the extra `__anext__` calls made
    after the case by a consumer that keeps iterating (list of out tokens).
    -> (verdict, key)"""
    if line == "out-of-model":
        return "", None
    if line.startswith("escaped:aiter:"):
        return f"__aiter__ raised {line[14:]}", "iter-escaped"
    fed, err = [], None
    pre = case.get("pre", ())
    pre_items = [int(d[3:]) for d in pre if d.startswith("cb:")]
    if pre_items:
        fed.append(pre_items[-1])           # only the latest response is replayed to a new iterator
    for d in pre:
        if d.startswith("eb:") and err is None:
            err = d[3:]
    for op in case["ops"]:
        if op[0] == "P":
            fed.append(int(op[1:]))
        elif op[0] == "E" and err is None:
            err = op[1:]
    outs = [o for g in line.split() if "/" in g for o in g.split("/")[0].split(",") if o != "."]
    esc = [o for o in outs if o.startswith("escaped:")]
    if esc and well_formed(case):
        return f"{esc[0][8:]} raised into the feeder of the observation (callback()/error())", "iter-escaped"
    outs = [o for o in outs if not o.startswith("escaped:")]
    # 0. CancelledError comes out of __anext__ only when the consumer was cancelled (an `X` of the case)
    n_cancelled = sum(1 for o in outs + list(drained) if o == "cancelled")
    n_x = sum(1 for op in case["ops"] if op == "X")
    if n_cancelled > n_x:
        return (f"CancelledError came out of __anext__ {n_cancelled} times although the consumer was cancelled "
                f"{n_x} times: an earlier cancelled wait is no statement about the observation"), "iter-spurious-cancel"
    outs = [o for o in outs + list(drained) if o != "cancelled"]
    items = [int(o[1:]) for o in outs if o[0] == "i"]
    # 1. a subsequence of what was fed, in order, nothing twice
    j = 0
    for n in items:
        while j < len(fed) and fed[j] != n:
            j += 1
        if j == len(fed):
            return f"iterator handed out {items}, not a subsequence of what was fed {fed}", "iter-order"
        j += 1
    if not well_formed(case):
        return "", None
    # 2. nothing after the end
    ends = [i for i, o in enumerate(outs) if o[0] != "i"]
    if ends and any(o[0] == "i" for o in outs[ends[0]:]):
        return f"iterator handed out an item after the end: {outs}", "iter-after-end"
    # 3. the consumer kept iterating: the latest item fed was obtained, and the end came as the
    #    property says
    if fed and (not items or items[-1] != fed[-1]):
        return (f"the latest item fed ({fed[-1]}) was never handed out although the consumer kept "
                f"iterating: {outs}"), "iter-latest-lost"
    if err is None:
        if ends:
            return f"iterator ended ({outs[ends[0]]}) while the observation runs", "iter-end"
    else:
        if not ends:
            return f"observation ended with {err} but the iterator never ended: {outs}", "iter-end"
        want = "stop" if err in ("N", "C") else "raise:" + err[1:]
        if any(outs[i] != want for i in ends):
            return f"observation ended with {err}, iterator gave {[outs[i] for i in ends]}", "iter-end"
    return "", None
