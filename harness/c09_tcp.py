"""C09 runner, CoAP-over-TCP level: the same generated sites, handlers and request schedules as
`c09_run`, but the requests reach the REAL `Context` through the real `TCPServer` token interface
and real `TcpConnection` protocol objects (`Context.create_server_context(transports=["tcpserver"])`
on a loop whose `create_server` hands the protocol factory to the harness instead of binding a
socket).  Every peer of the case is one connection with a fake `asyncio.Transport` that records
what the server writes.

Nothing of aiocoap's framing code is used on the harness side: requests are framed, and the
server's byte streams are taken apart, by this module's own reading of RFC 8323 section 3.2
(Len nibble 0..12 / 13 + 8 bit / 14 + 16 bit / 15 + 32 bit with offsets 13 / 269 / 65805).

Additional fields of a case on this level:
  "transport": "tcp"
  "csm": "big" | "plain"      the peers' CSM: Max-Message-Size 1 MiB and Block-Wise-Transfer,
                              or no options (RFC 8323 defaults, 1152 bytes)
  requests: "mtype" and "mid" are ignored; `"tkl"` is implied by the token
  handlers: "fill": n      payload / diagnostic of n bytes 'x' / 'e' instead of "payload" / "msg"
            "etag": hex    (ret only) the returned message carries that ETag option
"""
import asyncio
import contextvars
import logging

import netsim
import vloop
import wire as W

import c09_run

CSM, RELEASE, ABORT = 225, 228, 229


# --------------------------------------------------------------------------- RFC 8323 framing

def frame(code, token, options=(), payload=b""):
    """one CoAP-over-TCP message (RFC 8323 3.2): Len|TKL, Extended Length, Code, Token, options, payload"""
    body = W.build("CON", code, 0, token, options, payload)[4 + len(token):]
    n = len(body)
    if n <= 12:
        head = bytes([(n << 4) | len(token)])
    elif n <= 268:
        head = bytes([(13 << 4) | len(token), n - 13])
    elif n <= 65804:
        head = bytes([(14 << 4) | len(token)]) + (n - 269).to_bytes(2, "big")
    else:
        head = bytes([(15 << 4) | len(token)]) + (n - 65805).to_bytes(4, "big")
    return head + bytes([code]) + token + body


def split_stream(data):
    """-> (frames, rest); a frame is dict(code, token, options=[(num, bytes)], payload, raw, bad)"""
    out = []
    data = bytes(data)
    while data:
        ln, tkl = data[0] >> 4, data[0] & 0x0F
        pos = 1
        if ln == 13:
            if len(data) < 2:
                break
            ln, pos = data[1] + 13, 2
        elif ln == 14:
            if len(data) < 3:
                break
            ln, pos = int.from_bytes(data[1:3], "big") + 269, 3
        elif ln == 15:
            if len(data) < 5:
                break
            ln, pos = int.from_bytes(data[1:5], "big") + 65805, 5
        total = pos + 1 + tkl + ln
        if tkl > 8 or len(data) < total:
            break
        code = data[pos]
        token = data[pos + 1:pos + 1 + tkl]
        body = data[pos + 1 + tkl:total]
        f = {"code": code, "token": token, "raw": data[:total], "options": [], "payload": b"", "bad": None}
        if code < 224:          # signalling messages have an option space of their own
            try:
                p = W.parse(bytes([0x40 | tkl, code, 0, 0]) + token + body)
                f["options"], f["payload"] = p["options"], p["payload"]
            except ValueError as e:
                f["bad"] = str(e)
        out.append(f)
        data = data[total:]
    return out, data


def rle(b):
    """canonical text of a byte string: two hex digits per byte, a run of 8 or more equal bytes as
    `[xx*n]` (maximal runs); the Lean driver prints frames and long payloads the same way"""
    if not b:
        return "-"
    out = []
    i, n = 0, len(b)
    while i < n:
        j = i
        while j < n and b[j] == b[i]:
            j += 1
        if j - i >= 8:
            out.append("[%02x*%d]" % (b[i], j - i))
        else:
            out.append(bytes(b[i:j]).hex())
        i = j
    return "".join(out)


# --------------------------------------------------------------------------- fakes

class FakeTransport(asyncio.Transport):
    def __init__(self, run, remote):
        super().__init__()
        self.run = run
        self.remote = remote
        self.stream = bytearray()
        self.writes = []            # (tick, offset) of every write() call
        self.closed_at = None

    def get_extra_info(self, name, default=None):
        return {"sockname": ("2001:db8::1", 5683, 0, 0),
                "peername": ("2001:db8::%x" % (0x100 + self.remote), 40000 + self.remote, 0, 0),
                "ssl_object": None}.get(name, default)

    def write(self, data):
        self.writes.append((self.run.loop.now_ticks(), len(self.stream)))
        self.stream += bytes(data)

    def close(self):
        if self.closed_at is None:
            self.closed_at = self.run.loop.now_ticks()

    abort = close

    def is_closing(self):
        return self.closed_at is not None


class FakeServer:
    def close(self):
        pass

    async def wait_closed(self):
        pass


# --------------------------------------------------------------------------- the run

class TcpRun(c09_run.Run):
    def inject_tcp(self, data, remote):
        conn = self.conns[remote]
        try:
            conn.data_received(data)
        except Exception as e:
            self.errors.append(f"exception escaped into the transport: {type(e).__name__}: {e}")

    async def main(self, loop):
        import aiocoap
        import aiocoap.resource
        import aiocoap.error
        self.aiocoap = aiocoap
        self.loop = loop
        case = self.case

        def factory(lp, coro, **kw):
            t = asyncio.Task(coro, loop=lp, **kw)
            self.tasks.append(t)
            return t

        loop.set_task_factory(factory)
        logger = logging.getLogger("coap-server")
        catcher = c09_run.LogCatcher(self)
        saved = (logger.level, logger.propagate, list(logger.handlers))
        logger.handlers[:] = [catcher]
        logger.setLevel(logging.WARNING)
        logger.propagate = False
        made = []

        async def create_server(protocol_factory, host=None, port=None, **kw):
            made.append(protocol_factory)
            return FakeServer()

        loop.create_server = create_server
        try:
            with netsim.Pins(mid=0x4000, token=0x20):
                site = self.make_site()
                self.ctx = await aiocoap.Context.create_server_context(site, transports=["tcpserver"], loop=loop)
                if len(made) != 1 or len(self.ctx.request_interfaces) != 1:
                    raise RuntimeError("expected exactly one TCP server transport, got %d" % len(made))
                tman = self.ctx.request_interfaces[0]
                srv = tman.token_interface
                tman.incoming_requests = c09_run.RecordingDict(self)
                orig_send = srv.send_message

                def send_message(message, monitor):
                    if message.code.is_response():
                        req = getattr(message, "request", None)
                        rid = self.id_of_key.get((message.token, req.remote)) if req is not None else None
                        nr = message.opt.no_response
                        pl = message.payload
                        self.note("S%s:%s:%d:%s:%s:1" % (
                            rid, message.token.hex() or "-", int(message.code),
                            rle(pl) if isinstance(pl, (bytes, bytearray)) else "unserialisable",
                            "-" if nr is None else nr))
                    return orig_send(message, monitor)

                srv.send_message = send_message
                remotes = sorted({rq["remote"] for rq in case["requests"]})
                self.conns, self.transports = {}, {}
                for r in remotes:
                    conn = made[0]()
                    tr = FakeTransport(self, r)
                    conn.connection_made(tr)
                    self.conns[r], self.transports[r] = conn, tr
                    if case.get("csm", "big") == "big":
                        csm = frame(CSM, b"", [(2, W.uint_bytes(1024 * 1024)), (4, b"")])
                    else:
                        csm = frame(CSM, b"")
                    self.inject_tcp(csm, r)
                self.max_payload = {r: self.conns[r].maximum_payload_size for r in remotes}
                last = 0
                for rq in case["requests"]:
                    opts = [(W.URI_PATH, seg.encode()) for seg in rq["path"]]
                    if rq["nr"] is not None:
                        opts.append((W.NO_RESPONSE, W.uint_bytes(rq["nr"])))
                    data = frame(rq["code"], bytes.fromhex(rq["token"]), opts)
                    loop.call_at(1000.0 + rq["t"] * vloop.TICK, self.inject_tcp, data, rq["remote"],
                                 context=contextvars.Context())
                    last = max(last, rq["t"])
                horizon = last + case.get("settle", 70 * vloop.TICKS_PER_S)
                await asyncio.sleep(horizon * vloop.TICK)
                for _ in range(5):
                    await asyncio.sleep(0)
                self.frozen_notes = list(self.notes)
                self.frozen_streams = {r: (bytes(t.stream), list(t.writes), t.closed_at)
                                       for r, t in self.transports.items()}
                self.frozen_tasks = list(self.tasks)
                self.task_errors = []
                for t in self.frozen_tasks:
                    if t.done() and not t.cancelled() and t.exception() is not None:
                        e = t.exception()
                        self.task_errors.append(f"{type(e).__name__}: {e}"[:200])
                await self.ctx.shutdown()
        finally:
            logger.handlers[:] = saved[2]
            logger.setLevel(saved[0])
            logger.propagate = saved[1]


def run_case(case):
    r = TcpRun(case)
    _, loop = vloop.run(r.main, max_time=1e7)
    wire = []
    problems = []
    for remote, (stream, writes, closed_at) in sorted(r.frozen_streams.items()):
        frames, rest = split_stream(stream)
        if rest:
            problems.append("the byte stream to peer %d ends in %d bytes that are no whole message (%s...)"
                            % (remote, len(rest), rest[:12].hex()))
        if closed_at is not None:
            problems.append("the server closed the connection of peer %d at tick %d" % (remote, closed_at))
        if not frames or frames[0]["code"] != CSM:
            problems.append("the stream to peer %d does not start with the server's CSM" % remote)
        # which write() a frame started in gives its tick
        offs = 0
        for n, f in enumerate(frames):
            tick = max((t for t, o in writes if o <= offs), default=0)
            offs += len(f["raw"])
            if n == 0 and f["code"] == CSM:
                continue
            if f["bad"]:
                problems.append("a message to peer %d has an unreadable option list (%s)" % (remote, f["bad"]))
            if f["code"] >= 224:
                problems.append("the server sent signalling message 7.%02d to peer %d" % (f["code"] & 31, remote))
            wire.append({"tick": tick, "remote": remote, "mtype": "TCP", "code": f["code"], "mid": None,
                         "token": f["token"].hex(), "payload": f["payload"].hex(), "retransmission": False,
                         "options": [(n_, v.hex()) for n_, v in f["options"]], "raw": rle(f["raw"])})
    loop_exc = [str(c.get("exception") or c.get("message"))[:200] for c in loop.exceptions]
    return {"notes": r.frozen_notes, "wire": wire, "delivered": [(t, i) for (t, i, _) in r.delivered],
            "stops": [], "errors": r.errors, "task_errors": r.task_errors, "loop_exceptions": loop_exc,
            "log": r.log_records, "problems": problems, "max_payload": r.max_payload}
