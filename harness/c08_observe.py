"""C08 runner: a test `ObservableResource` under a real `Site` on the real aiocoap UDP stack
(netsim + virtual clock), scripted observers, and a log in the record format of the Lean
observe-server model (lean/AiocoapModel/Driver/C08.lean).

Script (JSON-able dict):
  events: list of in-events, each executed in its own loop callback at its tick
    ["R", t, remote, mtype, mid, tokenhex, obs|None]      GET /obs from observer `remote`
    ["M", t, remote, mtype, code, mid, tokenhex]          any other datagram (empty ACK/RST, ping ...)
    ["E", t, remote]   transport error        ["X", t]   Context.shutdown()
    ["F", t, remote, n]  the next n sendmsg() calls towards observer `remote` fail with ENETUNREACH: the
                         transport reports the error SYNCHRONOUSLY, from inside the send (udp6: sendmsg raises ->
                         error_received -> dispatch_error before send() returns); n = 0 disarms
    ["U", t, code|None]                       state change + updated_state(None | Message(code))
    ["T", t, sv, code|None, is_last]          state change + servobs[sv].trigger(...)
    ["D", t, sv]                              servobs[sv].deregister()
    ["L", t, sv, code, exc]                   finish the suspended render of task sv
    ["O", t, sv]                              let the suspended add_observation of task sv return
    ["&", t, [ev, ...]]                       several of the above back to back in ONE callback
  rules: reactions of the observers to datagrams sent to them
    {"remote": n, "mtype": "CON"|"NON"|"ACK"|None, "nth": k, "after": ticks,
     "do": "ack"|"rst"|"rereg"|"dereg"|"get", "pmid": m, "ptype": "CON"|"NON"}
  renders: plans of the resource's render calls in call order: "s" | ["i", code, exc]
           (default ["i", 69, 0])
  decline: list of srv numbers whose add_observation does not accept
  slow_add: list of srv numbers whose add_observation, after accepting, suspends until its "O" event
            (such scripts are judged by the oracle only: the model takes add_observation as one step)
  draws: ACK time-outs in ticks;  mid: pinned first message id;  end: tick at which the run stops

Records (out):  s@t:remote:wire   f@t:remote:wire (a send that failed)   d:sv:remote:wire   x:sv   c:n   k:sv   g:sv:ver   n:sv:code:obs:body:last
"""
import asyncio
import contextvars
import errno
import logging

import netsim
import vloop
import wire as W

TYPES = ["CON", "NON", "ACK", "RST"]
PATH = b"obs"


def _o(x):
    return "-" if x is None else str(x)


def _hex(b):
    return b.hex() if b else "-"


def body_of(payload):
    try:
        return int(payload.decode()) if payload else 0
    except ValueError:
        return 0          # diagnostic payloads of error responses are not compared


def wire_str(p):
    obs = None
    for n, v in p["options"]:
        if n == W.OBSERVE:
            obs = int.from_bytes(v, "big")
    return f"{p['mtype']}:{p['code']}:{p['mid']}:{_hex(p['token'])}:{_o(obs)}:{body_of(p['payload'])}"


def msg_wire_str(m):
    return (f"{TYPES[int(m.mtype)]}:{int(m.code)}:{m.mid}:{_hex(m.token)}:{_o(m.opt.observe)}:"
            f"{body_of(m.payload)}")


def in_token(ev):
    k = ev[0]
    if k == "R":
        _, t, remote, mt, mid, tok, obs = ev
        return f"R@{t}:{remote}:0:{mt}:1:{mid}:{tok}:{_o(obs)}:0"
    if k == "M":
        _, t, remote, mt, code, mid, tok = ev
        return f"R@{t}:{remote}:0:{mt}:{code}:{mid}:{tok}:-:0"
    if k == "E":
        return f"E@{ev[1]}:{ev[2]}"
    if k == "X":
        return f"X@{ev[1]}"
    if k == "F":
        return f"F@{ev[1]}:{ev[2]}:{ev[3]}"
    if k == "U":
        return f"U@{ev[1]}:{_o(ev[2])}"
    if k == "T":
        return f"T@{ev[1]}:{ev[2]}:{_o(ev[3])}:{1 if ev[4] else 0}"
    if k == "D":
        return f"D@{ev[1]}:{ev[2]}"
    if k == "L":
        return f"L@{ev[1]}:{ev[2]}:{ev[3]}:{1 if ev[4] else 0}"
    if k == "O":
        return f"O@{ev[1]}:{ev[2]}"
    raise AssertionError(ev)


class Runner:
    def __init__(self, script):
        self.script = script
        self.log = []            # ("in", token, tick) | ("out", text, tick, task_sv, extra)
        self.sent_count = {}
        self.shut = False
        self.errors = []
        self.task_errors = []    # exceptions that ended a render task and were not raised by the test resource
        self.task_srv = {}       # asyncio task -> srv
        self.pipe_srv = {}       # id(pipe) -> srv
        self.pipe_state = {}     # srv -> what the listener on the pipe has seen
        self.pipes = []          # keep pipes alive so ids stay unique
        self.nsrv = 0
        self.servobs = {}
        self.suspended = {}      # srv -> future of the suspended render
        self.accepts = {}        # srv -> bool
        self.renders = list(script.get("renders", []))
        self.decline = set(script.get("decline", []))
        self.slow_add = set(script.get("slow_add", []))
        self.adding = {}         # srv -> future of the suspended add_observation
        self.in_ticks = []
        self.callbacks_at = {}   # tick -> number of separately scheduled in-callbacks
        self.shutdown_task = None
        self.final = {}
        self.closed = False
        self.iteration = 0       # number of the event-loop iteration (a task takes one step per iteration)
        self.fail_next = {}      # remote -> number of sendmsg calls that are still to fail
        self.failed = []         # (tick, remote, sv of the task inside which it happened | None)

    # ---- logging -------------------------------------------------------------------------------
    def cur_sv(self):
        try:
            return self.task_srv.get(asyncio.current_task())
        except RuntimeError:
            return None

    def rec(self, text, extra=None, discarded=False):
        """discarded: a response the task put on a pipe that had ended or ended over it (nobody listening to the
        pipe got to see it)"""
        if self.closed:
            return          # the run is over: what the harness's own tear-down provokes is not part of it
        self.log.append(("out", text, self.loop.now_ticks(), self.cur_sv(), extra, self.iteration, discarded))

    def remote_id(self, sockaddr):
        for i in range(8):
            if netsim.peer(i)[:2] == tuple(sockaddr)[:2]:
                return i
        raise AssertionError(f"unknown destination {sockaddr}")

    # ---- hooks ---------------------------------------------------------------------------------
    def on_send(self, tick, dest, data):
        p = W.parse(data)
        remote = self.remote_id(dest)
        self.rec(f"s@{tick}:{remote}:{wire_str(p)}")
        self.react(tick, remote, p)

    def sendmsg_hook(self, orig):
        """wraps the fake network's delivery: a send towards an armed observer raises OSError out of sendmsg(),
        which the real RecvmsgSelectorDatagramTransport turns into error_received() from inside send()"""
        def _sent(address, data, ancdata):
            remote = self.remote_id(address)
            if self.fail_next.get(remote, 0) > 0:
                self.fail_next[remote] -= 1
                tick = self.loop.now_ticks()
                self.failed.append((tick, remote, self.cur_sv()))
                self.rec(f"f@{tick}:{remote}:{wire_str(W.parse(data))}")
                raise OSError(errno.ENETUNREACH, "Network is unreachable")
            return orig(address, data, ancdata)
        return _sent

    def react(self, tick, remote, p):
        for key in ((remote, p["mtype"]), (remote, None)):
            self.sent_count[key] = self.sent_count.get(key, 0) + 1
        for rule in self.script.get("rules", []):
            if rule["remote"] != remote:
                continue
            if rule.get("mtype") is not None and rule["mtype"] != p["mtype"]:
                continue
            if self.sent_count[(remote, rule.get("mtype"))] != rule["nth"]:
                continue
            t = tick + rule["after"]
            do = rule["do"]
            tok = _hex(p["token"])
            if do == "ack":
                ev = ["M", t, remote, "ACK", 0, p["mid"], "-"]
            elif do == "rst":
                ev = ["M", t, remote, "RST", 0, p["mid"], "-"]
            elif do == "rereg":
                ev = ["R", t, remote, rule.get("ptype", "CON"), rule["pmid"], tok, 0]
            elif do == "dereg":
                ev = ["R", t, remote, rule.get("ptype", "CON"), rule["pmid"], tok, 1]
            elif do == "get":
                ev = ["R", t, remote, rule.get("ptype", "CON"), rule["pmid"], tok, None]
            else:
                raise AssertionError(do)
            self.schedule(ev)

    def schedule(self, ev):
        self.loop.call_at(1000.0 + ev[1] * vloop.TICK, self.callback, ev, context=contextvars.Context())

    def callback(self, ev):
        now = self.loop.now_ticks()
        assert now == ev[1], (now, ev)
        self.callbacks_at[now] = self.callbacks_at.get(now, 0) + 1
        subs = ev[2] if ev[0] == "&" else [ev]
        for sub in subs:
            sub = list(sub)
            if sub[0] != "&":
                sub[1] = now
            self.execute(sub)

    def execute(self, ev):
        if self.shut and ev[0] in ("R", "M", "E"):
            return                      # a closed transport delivers nothing
        if ev[0] != "X":        # the shutdown task logs itself when it really starts
            self.log.append(("in", in_token(ev), ev[1], ev))
        try:
            getattr(self, "do_" + ev[0])(ev)
        except Exception as e:            # an exception escaping into the transport/loop
            self.errors.append(f"{in_token(ev)} raised {type(e).__name__}: {e}")

    # ---- in-events -----------------------------------------------------------------------------
    def do_R(self, ev):
        _, t, remote, mt, mid, tok, obs = ev
        opts = [(W.URI_PATH, PATH)]
        if obs is not None:
            opts.append((W.OBSERVE, W.uint_bytes(obs)))
        data = W.build(mt, 1, mid, bytes.fromhex(tok) if tok != "-" else b"", opts, b"")
        self.net.inject(data, netsim.peer(remote))

    def do_M(self, ev):
        _, t, remote, mt, code, mid, tok = ev
        data = W.build(mt, code, mid, bytes.fromhex(tok) if tok != "-" else b"", [], b"")
        self.net.inject(data, netsim.peer(remote))

    def do_E(self, ev):
        self.net.inject_error(errno.ECONNREFUSED, netsim.peer(ev[2]))

    def do_F(self, ev):
        self.fail_next[ev[2]] = ev[3]

    def do_X(self, ev):
        if self.shut:
            return                      # a context is shut down once
        self.shut = True

        async def shut():
            self.log.append(("in", in_token(ev), self.loop.now_ticks(), ev))
            try:
                await self.ctx.shutdown()
            except Exception as e:
                self.errors.append(f"shutdown raised {type(e).__name__}: {e}")

        self.shutdown_task = self.loop.create_task(shut())

    def message_for(self, code):
        import aiocoap
        if code is None:
            return None
        return aiocoap.Message(code=aiocoap.Code(code), payload=str(self.res.value).encode())

    def do_U(self, ev):
        self.res.value += 1
        self.res.updated_state(self.message_for(ev[2]))

    def do_T(self, ev):
        self.res.value += 1
        so = self.servobs.get(ev[2])
        if so is not None:
            so.trigger(self.message_for(ev[3]), is_last=bool(ev[4]))

    def do_D(self, ev):
        so = self.servobs.get(ev[2])
        if so is not None:
            so.deregister()

    def do_O(self, ev):
        fut = self.adding.get(ev[2])
        if fut is not None and not fut.done():
            fut.set_result(None)

    def do_L(self, ev):
        fut = self.suspended.get(ev[2])
        if fut is not None and not fut.done():
            fut.set_result((ev[3], bool(ev[4])))

    # ---- wrappers installed on the instances -------------------------------------------------------
    def install(self):
        ctx_render = self.ctx.render_to_pipe
        site_render = self.site.render_to_pipe

        def render_to_pipe(pipe):
            sv = self.nsrv
            self.nsrv += 1
            self.pipe_srv[id(pipe)] = sv
            self.pipes.append(pipe)
            m = pipe.request
            self.rec(f"d:{sv}:{self.remote_id(m.remote.sockaddr)}:{msg_wire_str(m)}")
            state = {"last": False, "seen": 0, "ended": False}
            self.pipe_state[sv] = state

            def on_event(event, sv=sv, state=state):
                if event.message is not None:
                    m = event.message
                    state["seen"] += 1
                    self.rec(f"n:{sv}:{int(m.code)}:{_o(m.opt.observe)}:{body_of(m.payload)}:"
                             f"{1 if event.is_last else 0}")
                    if event.is_last:
                        state["last"] = True
                elif event.exception is None and event.is_last:
                    state["ended"] = True
                    if not state["last"]:
                        self.rec(f"x:{sv}")
                return True

            pipe.on_event(on_event, is_interest=False)

            # `n:` is "the render task put a response on the pipe".  Normally the listener above sees it (after the
            # token manager has sent it).  A response put on a pipe that has ended, or that ends while the token
            # manager handles it, never reaches a listener: it is logged here, when add_response returns.
            orig_add = pipe.add_response

            def add_response(response, is_last=False, sv=sv, state=state):
                before = state["seen"]
                orig_add(response, is_last=is_last)
                if state["seen"] == before and response is not None:
                    self.rec(f"n:{sv}:{int(response.code)}:{_o(response.opt.observe)}:{body_of(response.payload)}:"
                             f"{1 if is_last else 0}", discarded=True)

            pipe.add_response = add_response
            return ctx_render(pipe)

        async def site_render_to_pipe(pipe):
            sv = self.pipe_srv[id(pipe)]
            self.task_srv[asyncio.current_task()] = sv
            try:
                return await site_render(pipe)
            except Exception as e:
                if not getattr(e, "c08_planned", False):
                    # not one of the exceptions the test resource raises on purpose: library code failed inside
                    # the render task (run_driving_pipe will turn it into a 5.00 or drop it)
                    self.task_errors.append(f"render task of request {sv} died of {type(e).__name__}: {e}")
                if self.pipe_state[sv]["ended"]:
                    # the pipe has ended: the error response this exception would be turned into is discarded
                    self.rec(f"n:{sv}:{exc_code(e)}:-:0:1", discarded=True)
                raise

        self.ctx.render_to_pipe = render_to_pipe
        self.site.render_to_pipe = site_render_to_pipe

    def next_plan(self):
        if self.renders:
            p = self.renders.pop(0)
            return "s" if p == "s" else ("i", int(p[1]), bool(p[2]))
        return ("i", 69, False)

    # ---- main ------------------------------------------------------------------------------------
    async def main(self, loop):
        import aiocoap.resource
        self.loop = loop
        run_once = loop._run_once

        def counted():
            self.iteration += 1
            run_once()

        loop._run_once = counted           # the harness's own loop object (vloop.VirtualLoop)
        draws = list(self.script.get("draws", []))

        def draw(lo, hi):
            if draws:
                return draws.pop(0) * vloop.TICK
            return lo

        self.pins = netsim.Pins(mid=self.script.get("mid", 4096), token=0, timeout_extra_ticks=draw)
        with self.pins:
            self.res = make_resource(self)
            self.site = aiocoap.resource.Site()
            self.site.add_resource([PATH.decode()], self.res)
            self.ctx, self.net = await netsim.make_context(loop, site=self.site)
            assert loop.now_ticks() == 0
            self.install()
            self.net.on_send = self.on_send
            self.net._sent = self.sendmsg_hook(self.net._sent)
            for ev in self.script["events"]:
                self.schedule(ev)
            await asyncio.sleep(self.script["end"] * vloop.TICK)
            for _ in range(10):
                await asyncio.sleep(0)
            tman = self.ctx.request_interfaces[0] if self.ctx.request_interfaces else None
            inc = getattr(tman, "incoming_requests", None)
            self.final = {
                "observations": len(self.res._observations),
                "incoming": sorted((self.remote_id(r.sockaddr), t.hex()) for (t, r) in (inc or {})),
                "suspended": sorted(sv for sv, f in self.suspended.items() if not f.done()),
            }
            if self.shut:
                await self.shutdown_task
            else:
                self.net.on_send = None
                self.fail_next = {}
                self.closed = True
                frozen = self.log
                self.log = []
                for f in list(self.suspended.values()) + list(self.adding.values()):
                    if not f.done():
                        f.cancel()
                await self.ctx.shutdown()
                self.log = frozen


def make_resource(runner):
    import aiocoap
    import aiocoap.resource
    from aiocoap import error

    EXC = {132: error.NotFound, 163: error.ServiceUnavailable, 128: error.BadRequest}

    class Res(aiocoap.resource.ObservableResource):
        def __init__(self):
            super().__init__()
            self.value = 0
            self.c08_rendered = set()
            self.c08_cache = {}
            self.c08_notifying = set()

        async def add_observation(self, request, serverobservation):
            sv = runner.cur_sv()
            runner.servobs[sv] = serverobservation
            acc = sv not in runner.decline
            runner.accepts[sv] = acc
            if not acc:
                return
            orig_accept = serverobservation.accept

            def accept(cb):
                def logged():
                    runner.rec(f"k:{sv}")
                    cb()
                orig_accept(logged)

            serverobservation.accept = accept
            await super().add_observation(request, serverobservation)
            if sv in runner.slow_add:
                # e.g. a resource that persists its subscriptions before it answers
                fut = runner.loop.create_future()
                runner.adding[sv] = fut
                await fut

        def update_observation_count(self, newcount):
            runner.rec(f"c:{newcount}")

        async def render_get(self, request):
            sv = runner.cur_sv()
            ver = self.value
            plan = runner.next_plan()
            runner.rec(f"g:{sv}:{ver}", extra=plan)
            if plan == "s":
                fut = runner.loop.create_future()
                runner.suspended[sv] = fut
                code, exc = await fut
            else:
                _, code, exc = plan
            if exc:
                e = RuntimeError("render failed") if code == 160 else EXC[code]()
                e.c08_planned = True
                raise e
            if runner.script.get("cached_render"):
                # a resource that keeps its rendering of a state and hands that very object to every observer it
                # notifies of it (the first response of a registration is rendered afresh: what the library does
                # with response objects of plain requests is C09's and C03's topic)
                if sv in self.c08_rendered:
                    return self.c08_cache.setdefault(
                        (ver, code), aiocoap.Message(code=aiocoap.Code(code), payload=str(ver).encode()))
                self.c08_rendered.add(sv)
            msg = aiocoap.Message(code=aiocoap.Code(code), payload=str(ver).encode())
            if runner.script.get("uncopyable_render") and sv in self.c08_notifying:
                # a rendering that can be serialised but not deep-copied (an option value handed over as a
                # memoryview): a legitimate response, also as a notification
                msg.opt.etag = memoryview(b"c08")
            self.c08_notifying.add(sv)
            return msg

    return Res()


def exc_code(e):
    """the code `error_to_message` answers an exception with"""
    from aiocoap import error
    if isinstance(e, error.RenderableError):
        try:
            return int(e.to_message().code)
        except Exception:
            return 160
    return 160


def default_cfg():
    from aiocoap.numbers.constants import TransportTuning
    t = TransportTuning()
    return {"exchangeLifetime": vloop.ticks(vloop.q(t.EXCHANGE_LIFETIME)),
            "emptyAckDelay": vloop.ticks(vloop.q(t.EMPTY_ACK_DELAY)),
            "ackTimeout": vloop.ticks(vloop.q(t.ACK_TIMEOUT)),
            "ackTimeoutMax": vloop.ticks(vloop.q(t.ACK_TIMEOUT * t.ACK_RANDOM_FACTOR)),
            "maxRetransmit": t.MAX_RETRANSMIT}


def plan_str(plan):
    if plan is None:
        return "-"
    if plan == "s":
        return "s"
    return f"i:{plan[1]}:{1 if plan[2] else 0}"


def run_script(script):
    import common
    common.quiet("coap-server")      # never raise levels: that would skip the implementation's logging calls
    common.quiet("coap")
    r = Runner(script)
    _, loop = vloop.run(r.main, max_time=1e7)
    # the concrete event sequence: the in-events as executed, and one `W` per task step.  A task
    # step is a maximal run of records logged from inside one render task.
    concrete = []
    records = []
    cur = None            # [index into concrete, sv, plan, tick, loop iteration, a send failed]
    fail_outside = False
    for e in r.log:
        if e[0] == "in":
            cur = None
            if not e[1].startswith("F@"):       # arming a send failure is the harness's business, not an event
                concrete.append(e[1])
            continue
        _, text, tick, sv, extra, it, _disc = e
        records.append(f"{tick}/{text}")
        if sv is None:
            cur = None
            if text.startswith("f@"):
                fail_outside = True
            continue
        if cur is None or cur[1] != sv or cur[3] != tick or cur[4] != it:
            cur = [len(concrete), sv, None, tick, it, False]
            concrete.append(cur)
        if text.startswith("g:"):
            cur[2] = extra
        if text.startswith("f@"):
            cur[5] = True
    conc = []
    for c in concrete:
        if isinstance(c, str):
            conc.append(c)
        else:
            _, sv, plan, tick, _it, failed = c
            conc.append(f"{'WF' if failed else 'W'}@{tick}:{sv}:{1 if r.accepts.get(sv, True) else 0}:{plan_str(plan)}")
    conc.append(f"A@{script['end']}")
    cfg = script.get("cfg") or default_cfg()
    draws_used = [vloop.ticks(v) for (_, _, v) in r.pins.uniform_calls]
    args = [str(cfg["exchangeLifetime"]), str(cfg["emptyAckDelay"]), str(script.get("mid", 4096)),
            str(cfg["maxRetransmit"]), ",".join(map(str, draws_used)) or "-"] + conc
    return {
        "concrete": conc,
        "records": records,
        "impl_line": ";".join(records),
        "args": args,
        "same_tick_inputs": any(n > 1 for n in r.callbacks_at.values()),
        # a send that failed outside a render task's step (a retransmission, an empty ACK, the backlog going on):
        # the message-layer model has no such input; judged by the oracle only
        "fail_outside_task": fail_outside,
        "wire": [(t, r.remote_id(d), b.hex()) for (t, d, b) in r.net.sent],
        "log": [list(e[:4]) + [bool(e[6])] if e[0] == "out" else [e[0], e[1], e[2], e[3]] for e in r.log],
        "loop_exceptions": [str(c.get("exception") or c.get("message")) for c in loop.exceptions],
        "errors": r.errors,
        "task_errors": r.task_errors,
        "final": r.final,
        "accepts": {str(k): v for k, v in r.accepts.items()},
        "cfg": cfg,
    }


def canon_model_line(line):
    tie = starved = False
    if line.startswith("STARVED "):
        starved = True
        line = line[len("STARVED "):]
    if line.startswith("TIE "):
        tie = True
        line = line[4:]
    return line, tie, starved
