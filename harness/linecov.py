"""Optional line coverage of the implementation under test, for the harness authors only (not part of any check's
verdict): `VERIF_COV=<file.json> ./check Cxx quick` records which lines of <repo>/aiocoap were executed while the
check ran (sys.monitoring, each location reported once), `tools/anchor_coverage.py` turns that into a list of
never-executed lines per function of the files a property is anchored in -- the scenario classes the generators
do not reach.  Worker pools are run in-process while recording."""
import atexit
import json
import os
import sys


def install(repo):
    out = os.environ.get("VERIF_COV")
    if not out or not hasattr(sys, "monitoring"):
        return
    prefix = os.path.join(os.path.realpath(repo), "aiocoap") + os.sep
    seen = {}
    mon = sys.monitoring
    tool = mon.COVERAGE_ID
    try:
        mon.use_tool_id(tool, "verif-linecov")
    except ValueError:
        return

    def on_line(code, line):
        fn = code.co_filename
        if fn.startswith(prefix):
            seen.setdefault(fn[len(prefix) - len("aiocoap/"):], set()).add(line)
        return mon.DISABLE

    mon.register_callback(tool, mon.events.LINE, on_line)
    mon.set_events(tool, mon.events.LINE)

    import multiprocessing.pool as mp

    def serial_map(self, func, iterable, chunksize=None):
        return [func(x) for x in iterable]

    mp.Pool.map = serial_map

    def dump():
        old = {}
        if os.path.exists(out):
            try:
                old = json.load(open(out))
            except ValueError:
                old = {}
        for k, v in seen.items():
            old[k] = sorted(set(old.get(k, [])) | v)
        with open(out, "w") as f:
            json.dump(old, f)

    atexit.register(dump)
