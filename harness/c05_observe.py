"""C05, oracle-only level: block-wise bodies of *notifications*.

The real `Context.request()` (default API: `BlockwiseRequest` on top of `Request` and `TokenManager`) over a
token interface of the harness (no message layer, no sockets), for an observation whose notifications need
several Block2 blocks.  The harness plays the server: it answers the first request, pushes notifications (block 0
of a new representation, Observe n, ETag per representation) and answers the follow-up block requests the client
sends -- correctly, or in one of the ways the property lists: a non-block-wise answer in mid-transfer (4.04: the
resource went away; a small complete 2.05: a new short representation), a changed ETag, a wrong block number, a
short block.  Oracle (the property's "the body returned to the caller is byte-identical to the server's
representation ... never yields a truncated, duplicated or mixed body", read for every body the observation hands
over): every 2.05 item is exactly one complete representation the server had; anything else the application gets
is an error response or an exception -- never a prefix or a mixture.
"""
import asyncio

SZX = 2                 # 64-byte blocks
BS = 16 << SZX


def body_of(rep, nblocks, tail):
    """representation number `rep`: nblocks-1 full blocks + `tail` bytes, every byte derived from rep and offset"""
    n = (nblocks - 1) * BS + tail
    return bytes((rep * 31 + i * 7) % 251 for i in range(n))


class FakeRemote:
    is_multicast = False
    is_multicast_locally = False
    hostinfo = "peer.example"
    hostinfo_local = "me.example"
    scheme = "coap"
    maximum_block_size_exp = 6
    maximum_payload_size = 1124
    blockwise_key = "k"
    uri_base = "coap://peer.example"

    def as_response_address(self):
        return self


class FakeTokenInterface:
    def __init__(self):
        self.sent = []

    def send_message(self, message, messageerror_monitor):
        self.sent.append(message)
        return None

    async def recognize_remote(self, message):
        return True

    async def determine_remote(self, message):
        return None

    async def shutdown(self):
        pass


async def run_scenario(aiocoap, sc):
    """sc: {"reps": [[nblocks, tail, misbehaviour|None, at_block], ...]}: representation 0 answers the request,
    the others are notified one after the other.  Returns what the application saw."""
    A = aiocoap
    from aiocoap.tokenmanager import TokenManager
    from aiocoap.optiontypes import BlockOption
    loop = asyncio.get_running_loop()
    loop_errors = []
    old = loop.get_exception_handler()
    loop.set_exception_handler(lambda l, c: loop_errors.append("%s: %r" % (c.get("message"), c.get("exception"))))
    ctx = A.Context(loop=loop, serversite=None)
    tman = TokenManager(ctx)
    ti = FakeTokenInterface()
    tman.token_interface = ti
    ctx.request_interfaces.append(tman)
    remote = FakeRemote()
    msg = A.Message(code=A.GET, observe=0, uri_path=("obs",))
    msg.remote = remote
    req = ctx.request(msg)
    seen = []

    async def consume():
        try:
            async for m in req.observation:
                seen.append(("item", int(m.code), bytes(m.payload)))
            seen.append(("stop",))
        except Exception as e:
            seen.append(("raise", type(e).__name__))

    async def turn(n):
        for _ in range(n):
            await asyncio.sleep(0)

    def block_response(token, rep, spec, num, observe=None):
        nblocks, tail, mis, at = spec
        body = body_of(rep, nblocks, tail)
        if mis is not None and num == at and num > 0:
            if mis == "404":
                m = A.Message(code=A.NOT_FOUND, payload=b"gone")
                m.token, m.remote = token, remote
                return m
            if mis == "short205":
                m = A.Message(code=A.CONTENT, payload=b"new short representation %d" % rep)
                m.token, m.remote = token, remote
                return m
        chunk = body[num * BS:(num + 1) * BS]
        more = (num + 1) * BS < len(body)
        etag = b"e%d" % rep
        if mis == "etag" and num == at and num > 0:
            etag = b"other"
        if mis == "wrongnum" and num == at and num > 0:
            num_out = num + 1
        else:
            num_out = num
        if mis == "shortblock" and num == at and num > 0 and more:
            chunk = chunk[:-1]
        m = A.Message(code=A.CONTENT, payload=chunk)
        m.opt.etag = etag
        m.opt.block2 = BlockOption.BlockwiseTuple(num_out, more, SZX)
        if observe is not None:
            m.opt.observe = observe
        m.token, m.remote = token, remote
        return m

    escaped = []
    pushes = []           # (representation, matched by the token manager?, had the application's iteration ended?)
    answered = 0

    async def serve(rep, spec):
        """answer the block requests the client sends for representation `rep` until it stops asking"""
        nonlocal answered
        for _ in range(spec[0] + 3):
            await turn(6)
            if len(ti.sent) <= answered:
                return
            rq = ti.sent[answered]
            answered += 1
            num = rq.opt.block2.block_number if rq.opt.block2 is not None else 0
            try:
                tman.process_response(block_response(rq.token, rep, spec, num))
            except Exception as e:
                escaped.append(type(e).__name__)

    try:
        await turn(6)
        first = ti.sent[0]
        answered = 1
        spec0 = sc["reps"][0]
        tman.process_response(block_response(first.token, 0, spec0, 0, observe=1))
        await serve(0, spec0)
        consumer = loop.create_task(consume())
        await turn(4)
        for rep, spec in enumerate(sc["reps"][1:], start=1):
            ended = consumer.done()
            try:
                m = tman.process_response(block_response(first.token, rep, spec, 0, observe=1 + rep))
                pushes.append((rep, bool(m), ended))
            except Exception as e:
                escaped.append(type(e).__name__)
            await serve(rep, spec)
            await turn(6)
        await turn(20)
        resp = None
        if req.response.done() and not req.response.cancelled():
            e = req.response.exception()
            resp = ("raise", type(e).__name__) if e is not None else ("resp", int(req.response.result().code),
                                                                      bytes(req.response.result().payload))
        pending = not consumer.done()
        if pending:
            consumer.cancel()
        await asyncio.gather(consumer, return_exceptions=True)
        snapshot = list(seen)
    finally:
        try:
            await ctx.shutdown()
        except Exception as e:
            escaped.append("shutdown:" + type(e).__name__)
        await turn(3)
        loop.set_exception_handler(old)
    return {"seen": snapshot, "resp": resp, "escaped": escaped, "loop_errors": loop_errors, "pending": pending,
            "pushes": pushes}


def oracle(sc, res):
    """-> (verdict, key)"""
    if res["escaped"]:
        return f"exception escaped into the transport: {res['escaped'][0]}", "obs:escaped"
    if res["loop_errors"]:
        return f"exception reached the event loop: {res['loop_errors'][0]}", "obs:loop-exception"
    bodies = {body_of(rep, spec[0], spec[1]): rep for rep, spec in enumerate(sc["reps"])}
    shorts = {b"new short representation %d" % rep: rep for rep in range(len(sc["reps"]))}
    spec0 = sc["reps"][0]
    if spec0[2] is None:
        want = ("resp", 69, body_of(0, spec0[0], spec0[1]))
        if res["resp"] != want:
            got = res["resp"] if res["resp"] is None or res["resp"][0] != "resp" else (res["resp"][1], len(res["resp"][2]))
            return f"the response body is not the server's representation 0 (got {got})", "obs:first-body"
    elif res["resp"] is not None and res["resp"][0] == "resp" and res["resp"][1] == 69 \
            and res["resp"][2] not in bodies and res["resp"][2] not in shorts:
        return "the response is a 2.05 whose body is none of the server's representations", "obs:first-body"
    last_rep = -1
    for x in res["seen"]:
        if x[0] != "item":
            continue
        _, code, payload = x
        if code != 69:
            continue                    # an error response handed over as such
        if payload in bodies:
            rep = bodies[payload]
        elif payload in shorts:
            rep = shorts[payload]
        else:
            return (f"the observation handed over a 2.05 with {len(payload)} bytes that is none of the server's "
                    f"representations (a truncated, duplicated or mixed body)"), "obs:mixed-body"
        if rep < last_rep:
            return "notifications handed over out of order", "obs:order"
        last_rep = rep
    # once the observation has ended for the application, later notifications on its token are rejected like unknown
    # responses (the runner retires the token when the next one comes in: one straggler may still be matched)
    late = [m for (_, m, ended) in res.get("pushes", []) if ended]
    if sum(late) > 1 or (True in late[1:]):
        return (f"the observation had ended for the application, but {sum(late)} of {len(late)} later notifications "
                f"on its token were still matched (and would be acknowledged): {late}"), "obs:token-not-retired"
    # a notification whose transfer went through correctly must have been handed over if it is the last one
    good = [rep for rep, spec in enumerate(sc["reps"]) if spec[2] is None]
    if len(good) == len(sc["reps"]) and good[-1] > 0:        # (a misbehaving transfer may end the observation)
        if not any(x[0] == "item" and x[1] == 69 and bodies.get(x[2]) == good[-1] for x in res["seen"]):
            return f"the latest representation ({good[-1]}) was never handed to the application: {[(x[0],) + tuple(x[1:2]) for x in res['seen']]}", "obs:latest-lost"
    return "", None


def scenarios(rng, n):
    out = []
    MIS = [None, "404", "short205", "etag", "wrongnum", "shortblock"]
    # boundary table: 1..4 blocks x tails 1, BS-1, BS x every misbehaviour at every block, as 2nd representation
    for nblocks in (1, 2, 3, 4):
        for tail in (1, BS - 1, BS):
            for mis in MIS:
                for at in range(1, nblocks):
                    out.append({"reps": [[2, 5, None, 0], [nblocks, tail, mis, at]]})
                if nblocks == 1 or mis is None:
                    out.append({"reps": [[1, 7, None, 0], [nblocks, tail, None, 0]]})
    # the FIRST response's body fails to assemble, then the server goes on notifying
    for mis in MIS[1:]:
        for nb in (2, 3):
            for at in range(1, nb):
                out.append({"reps": [[nb, 5, mis, at], [1, 7, None, 0], [2, 9, None, 0], [1, 3, None, 0]]})
    for _ in range(n):
        reps = [[rng.randrange(1, 4), rng.choice([1, 5, BS - 1, BS]), None, 0]]
        if rng.random() < 0.2 and reps[0][0] > 1:
            reps[0][2], reps[0][3] = rng.choice(MIS[1:]), rng.randrange(1, reps[0][0])
        for _ in range(rng.randrange(1, 4)):
            nb = rng.randrange(1, 5)
            mis = rng.choice(MIS + [None, None])
            reps.append([nb, rng.choice([1, 5, BS - 1, BS]), mis, rng.randrange(1, nb) if nb > 1 else 0])
        out.append({"reps": reps})
    return out
