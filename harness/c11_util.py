"""C11 helpers: run the real aiocoap.oscore protect()/unprotect() with a *transparent* AEAD.

`TransparentAead` is byte-for-byte the Lean instance `Aiocoap.Oscore.Prot.transparentAead`
(lean/AiocoapModel/Oscore/Aead.lean):

    E(x)            = (0x01, b) for every byte b of x, then 0x00
    encrypt(p,a,k,n) = E(k) E(n) E(a) E(p) || p
    decrypt         = recompute and compare; ProtectionInvalid otherwise

Nothing is hidden (the harness sees what the implementation handed to the algorithm) and
everything is bound: the plaintext occurs twice, so no single-position change, truncation or
extension of a ciphertext is a ciphertext again.  It carries no secrecy and is only a stand-in
for the assumed AEAD laws.
"""


def enc_l(x):
    out = bytearray()
    for b in x:
        out.append(1)
        out.append(b)
    out.append(0)
    return bytes(out)


def t_enc(key, nonce, aad, plaintext):
    return enc_l(key) + enc_l(nonce) + enc_l(aad) + enc_l(plaintext) + bytes(plaintext)


def t_header_len(key, nonce, aad, plen):
    return (2 * len(key) + 1) + (2 * len(nonce) + 1) + (2 * len(aad) + 1) + (2 * plen + 1)


def make(oscore):
    """Build the harness classes against the imported aiocoap.oscore module."""

    class TransparentAead(oscore.AeadAlgorithm):
        key_bytes = 16
        tag_bytes = 4

        def __init__(self, value=10, iv_bytes=13):
            self.value = value          # COSE number used in the AAD and the KDF info
            self.iv_bytes = iv_bytes
            self.log = []

        def encrypt(self, plaintext, aad, key, iv):
            self.log.append(("enc", bytes(plaintext), bytes(aad), bytes(key), bytes(iv)))
            return t_enc(key, iv, aad, plaintext)

        def decrypt(self, ciphertext_and_tag, aad, key, iv):
            c = bytes(ciphertext_and_tag)
            self.log.append(("dec", c, bytes(aad), bytes(key), bytes(iv)))
            plen = max(len(c) - t_header_len(key, iv, aad, 0), 0) // 3
            p = c[len(c) - plen:]
            if t_enc(key, iv, aad, p) != c:
                raise oscore.ProtectionInvalid("Tag invalid")
            return p

    class HarnessContext(oscore.CanProtect, oscore.CanUnprotect, oscore.SecurityContextUtils):
        """A plain (non-group, in-memory) security context with an initialised, empty replay
        window (replay protection itself is C12's subject)."""

        def __init__(self, alg, sender_id, recipient_id, id_context, secret, salt,
                     send_kid=False):
            self.alg_aead = alg
            self.hashfun = oscore.hashfunctions["sha256"]
            self.sender_id = sender_id
            self.recipient_id = recipient_id
            self.id_context = id_context
            self.derive_keys(salt, secret)
            self.sender_sequence_number = 0
            self.echo_recovery = None
            self.responses_send_kid = send_kid
            self.fresh_window()

        def fresh_window(self):
            self.recipient_replay_window = oscore.ReplayWindow(32, lambda: None)
            self.recipient_replay_window.initialize_empty()

        def post_seqnoincrease(self):
            pass

    return TransparentAead, HarnessContext


# --- an RFC 8613 §6.1 reader of the OSCORE option, written from the RFC (oracle side) ----------

def rfc_parse_option(value):
    """Returns dict(piv, kid, ctx, group) or None when the option is malformed per RFC 8613
    §6.1 (reserved bits, reserved n = 6/7, announced fields missing; an option whose flag bits are
    all zero "SHALL be empty"; the kid, if any, is everything behind the other fields - so without
    the k flag nothing may be left over) and §5 (Partial IV: "all leading bytes of value zero SHALL
    be removed ... except in the case of Partial IV value 0, which is encoded to the byte string
    0x00")."""
    if len(value) == 0:
        return {"piv": None, "kid": None, "ctx": None, "group": False}
    flags = value[0]
    rest = value[1:]
    if flags == 0:
        return None
    if flags & 0xC0:
        return None
    n = flags & 0x07
    if n in (6, 7):
        return None
    piv = None
    if n:
        if len(rest) < n:
            return None
        piv, rest = rest[:n], rest[n:]
        if n > 1 and piv[0] == 0:
            return None
    ctx = None
    if flags & 0x10:
        if len(rest) < 1:
            return None
        s = rest[0]
        if len(rest) < 1 + s:
            return None
        ctx, rest = rest[1:1 + s], rest[1 + s:]
    kid = rest if flags & 0x08 else None
    if kid is None and rest:
        return None
    return {"piv": piv, "kid": kid, "ctx": ctx, "group": bool(flags & 0x20)}


def rfc_build_option(piv=None, kid=None, ctx=None, group=False, reserved=0):
    flags = (len(piv) if piv else 0) | (0x08 if kid is not None else 0) | \
        (0x10 if ctx is not None else 0) | (0x20 if group else 0) | reserved
    out = bytes([flags]) + (piv or b"")
    if ctx is not None:
        out += bytes([len(ctx)]) + ctx
    if kid is not None:
        out += kid
    if out == b"\0":
        return b""
    return out


def rfc_parse_datagram(wire):
    """Minimal RFC 7252 §3 reader: (code, [(number, value)], payload) — oracle side only."""
    tkl = wire[0] & 0x0F
    code = wire[1]
    i = 4 + tkl
    num = 0
    opts = []
    payload = b""
    while i < len(wire):
        b = wire[i]
        i += 1
        if b == 0xFF:
            payload = wire[i:]
            break
        d, ln = b >> 4, b & 0x0F
        if d == 13:
            d = wire[i] + 13
            i += 1
        elif d == 14:
            d = int.from_bytes(wire[i:i + 2], "big") + 269
            i += 2
        if ln == 13:
            ln = wire[i] + 13
            i += 1
        elif ln == 14:
            ln = int.from_bytes(wire[i:i + 2], "big") + 269
            i += 2
        num += d
        opts.append((num, wire[i:i + ln]))
        i += ln
    return code, opts, payload, wire[:len(wire) - len(payload)]
