"""Virtual-clock event loop for the resource-directory check (C20).

`time()` is a stored value that only moves when the harness says so; `advance(dt)` walks
through every timer that becomes due on the way, in deadline order, and lets the loop run to
quiescence at each of them.  Nothing ever sleeps in `select`.  Only read access to the loop's
private timer heap (`_scheduled`, `_ready`) is used.
"""
import asyncio


class VLoop(asyncio.SelectorEventLoop):
    def __init__(self):
        super().__init__()
        self._vt = 0.0
        self.errors = []
        self.set_exception_handler(lambda loop, ctx: self.errors.append(
            type(ctx.get("exception")).__name__ if ctx.get("exception") else ctx.get("message")))

    def time(self):
        return self._vt

    def _due(self, limit):
        return [h._when for h in self._scheduled if not h._cancelled and h._when <= limit]

    def settle(self):
        """Run everything that is ready or due at the current instant."""
        for _ in range(10000):
            self.call_soon(self.stop)
            self.run_forever()
            if not self._ready and not self._due(self._vt):
                return
        raise RuntimeError("event loop does not come to rest")

    def advance(self, dt):
        target = self._vt + dt
        while True:
            due = self._due(target)
            if not due:
                break
            self._vt = max(self._vt, min(due))
            self.settle()
        self._vt = target
        self.settle()

    def call(self, coro):
        """Run one coroutine to completion at the current instant, then settle."""
        try:
            return self.run_until_complete(coro)
        finally:
            self.settle()

    def dispose(self):
        for t in asyncio.all_tasks(self):
            t.cancel()
        self.settle()
        self.close()
