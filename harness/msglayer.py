"""Runs an event script against the real aiocoap UDP stack (netsim + virtual clock) and
renders what happened in the line format of the Lean message-layer model.

Script (JSON-able dict):
  events: list of
    ["S", t, r, remote, mc, observing, mtype|None, rel|None, code, obs|None, body, maxretr, tuning|None]
    ["R", t, remote, mcLocal, mtype, code, mid, tokenhex, obs|None, body]
    ["P", t, srv, mtype|None, rel|None, code, obs|None, body, nr, maxretr, isLast]
    ["C", t, r]   ["E", t, remote]   ["X", t]   ["A", t]
  rules: reactions of the scripted peers to datagrams we send:
    {"remote": n, "mtype": "CON"|"NON"|"ACK"|None, "nth": k, "after": ticks,
     "do": "ack"|"rst"|"piggy"|"sep"|"wrongmid"|"wrongsrc", "code": c, "body": b, "pmid": m,
     "ptype": "CON"|"NON", "obs": v|None}
  draws: list of time-outs in ticks handed out by the patched random.uniform (then `lo`)
  mid, token: pinned initial message id / token counter

Returns dict(concrete=[event tokens incl. the reactions, time-ordered], groups=[...],
model_line_args, wire=[(tick, remote, bytes)], uniform_calls, loop_exceptions, info)
"""
import asyncio
import contextvars
import errno
import logging

import netsim
import vloop
import wire as W

TYPES = ["CON", "NON", "ACK", "RST"]


def _b(x):
    return "1" if x else "0"


def _o(x):
    return "-" if x is None else str(x)


def _hex(b):
    return b.hex() if b else "-"


def wire_str(p):
    """canonical rendering of a parsed datagram: type:code:mid:token:obs:body"""
    obs = None
    for n, v in p["options"]:
        if n == W.OBSERVE:
            obs = int.from_bytes(v, "big")
    try:
        body = int(p["payload"].decode()) if p["payload"] else 0
    except ValueError:              # block-wise scenarios carry real bodies: a stable stand-in number
        import zlib
        body = 1000000 + zlib.crc32(p["payload"]) % 1000000
    return f"{p['mtype']}:{p['code']}:{p['mid']}:{_hex(p['token'])}:{_o(obs)}:{body}"


def event_token(ev):
    k = ev[0]
    if k == "S":
        _, t, r, remote, mc, ob, mt, rel, code, obs, body, mr = ev[:12]
        return f"S@{t}:{r}:{remote}:{_b(mc)}:{_b(ob)}:{_o(mt)}:{'-' if rel is None else _b(rel)}:{code}:{_o(0 if ob else obs)}:{body}:0:{mr}"
    if k == "R":
        _, t, remote, mcl, mt, code, mid, tok, obs, body = ev[:10]
        return f"R@{t}:{remote}:{_b(mcl)}:{mt}:{code}:{mid}:{tok}:{_o(obs)}:{body}"
    if k == "P":
        _, t, sv, mt, rel, code, obs, body, nr, mr, il = ev[:11]
        return f"P@{t}:{sv}:{_o(mt)}:{'-' if rel is None else _b(rel)}:{code}:{_o(obs)}:{body}:{nr}:{mr}:{_b(il)}"
    if k in ("C", "E", "K"):
        return f"{k}@{ev[1]}:{ev[2]}"
    if k == "F":
        return f"F@{ev[1]}:{ev[2]}:{_b(ev[3])}"
    if k == "H":
        return f"H@{ev[1]}:{ev[2]}:{ev[3]}:{ev[4]}"
    return f"{k}@{ev[1]}"


class Runner:
    def __init__(self, script):
        self.script = script
        self.log = []          # (kind 'in'|'out', text)
        self.concrete = []     # concrete input events in execution order
        self.sent_count = {}   # (remote, mtype) -> count
        self.requests = {}
        self.srv_pipes = {}
        self.srv_done = set()
        self.nsrv = 0
        self.shut = False
        self.errors = []
        self.failures = {}
        self.snapshots = []
        self.done_calls = {}
        self.shutdown_info = {}
        self.shutdown_task = None
        self.more_shutdown_tasks = []
        self.futures_at_shutdown = {}
        self.consumers = {}
        self.consumer_tasks = []
        self.consumer_task_of = {}
        self.late_consumers = []

    # ---- hooks on the implementation -----------------------------------------------------
    def on_send(self, tick, dest, data):
        p = W.parse(data)
        remote = self.remote_id(dest)
        self.log.append(("out", f"s@{tick}:{remote}:{wire_str(p)}", tick))
        self.react(tick, remote, p)

    LINK_LOCAL = {6: ("fe80::1", 5683, 0, 2), 7: ("fe80::1", 5683, 0, 3)}   # same address, two interfaces

    def remote_id(self, sockaddr):
        for i, a in self.LINK_LOCAL.items():
            if tuple(sockaddr) == a:
                return i
        for i in range(6):
            if netsim.peer(i)[:2] == tuple(sockaddr)[:2]:
                return i
        if sockaddr[0].startswith("ff0"):
            return 9
        raise AssertionError(f"unknown destination {sockaddr}")

    # remote 5 is a peer the application named with a zone on a global address (`coap://[2001:db8::6%lo]`):
    # `determine_remote` puts the interface index into the scope id of the address it sends to, while the kernel
    # reports scope id 0 for what arrives from a non-link-local source -- one endpoint, two spellings
    ZONED_OUT = {5: ("2001:db8::6", 5683, 0, 1)}

    def sockaddr_out(self, remote):
        return self.ZONED_OUT.get(remote) or self.sockaddr(remote)

    def sockaddr(self, remote):
        if remote in self.LINK_LOCAL:
            return self.LINK_LOCAL[remote]
        if remote == 9:
            return ("ff02::1", 5683, 0, 0)
        return netsim.peer(remote)

    def react(self, tick, remote, p):
        for key in ((remote, p["mtype"]), (remote, None)):
            self.sent_count[key] = self.sent_count.get(key, 0) + 1
        for rule in self.script.get("rules", []):
            if rule["remote"] != remote:
                continue
            key = (remote, rule.get("mtype"))
            if rule.get("mtype") is not None and rule["mtype"] != p["mtype"]:
                continue
            if self.sent_count[key] != rule["nth"]:
                continue
            t = tick + rule["after"]
            do = rule["do"]
            tok = _hex(p["token"])
            if do == "ack":
                ev = ["R", t, remote, False, "ACK", 0, p["mid"], "-", None, 0]
            elif do == "rst":
                ev = ["R", t, remote, False, "RST", 0, p["mid"], "-", None, 0]
            elif do == "wrongmid":
                ev = ["R", t, remote, False, rule.get("ptype", "ACK"), 0, (p["mid"] + 1) % 65536, "-", None, 0]
            elif do == "wrongsrc":
                ev = ["R", t, (remote + 1) % 4, False, rule.get("ptype", "ACK"), 0, p["mid"], "-", None, 0]
            elif do == "piggy-badtoken":
                ev = ["R", t, remote, False, "ACK", rule.get("code", 69), p["mid"], "7f7f",
                      rule.get("obs"), rule.get("body", 0)]
            elif do == "piggy":
                ev = ["R", t, remote, False, "ACK", rule.get("code", 69), p["mid"], tok,
                      rule.get("obs"), rule.get("body", 0)]
                if rule.get("opts") or rule.get("payload_hex") is not None:
                    ev += [rule.get("opts") or [], rule.get("payload_hex")]
            elif do == "sep":
                ev = ["R", t, remote, False, rule.get("ptype", "CON"), rule.get("code", 69),
                      rule["pmid"], tok, rule.get("obs"), rule.get("body", 0)]
            else:
                raise AssertionError(do)
            self.schedule(ev)

    # ---- executing input events ----------------------------------------------------------
    def schedule(self, ev):
        # a fresh context: reactions are scheduled from inside sendmsg(), whose context has the
        # transport's "remote being sent to" variable set
        self.loop.call_at(1000.0 + ev[1] * vloop.TICK, self.execute, ev, context=contextvars.Context())

    def execute(self, ev):
        if self.shut and ev[0] in ("R", "E"):
            return                      # a closed transport delivers nothing
        now = self.loop.now_ticks()
        assert now == ev[1], (now, ev)
        iters = ev[13] if (ev[0] == "S" and len(ev) > 13) else 0
        if iters and not getattr(self, "_deferred", None) == id(ev):
            # "k event-loop iterations later, at the same tick": used to hit the window in which a
            # shutdown is in progress
            def later(n):
                if n == 0:
                    self._deferred = id(ev)
                    self.execute(ev)
                else:
                    self.loop.call_soon(later, n - 1, context=contextvars.Context())
            self.loop.call_soon(later, iters, context=contextvars.Context())
            return
        self._deferred = None
        self.concrete.append(ev)
        self.snapshots.append(self.state_summary())      # the tables just before this input
        self.log.append(("in", event_token(ev), now))
        try:
            getattr(self, "do_" + ev[0])(ev)
        except Exception as e:            # an exception escaping into the transport/loop
            self.errors.append(f"{event_token(ev)} raised {type(e).__name__}: {e}")

    def do_A(self, ev):
        pass

    def do_S(self, ev):
        import aiocoap
        from aiocoap.numbers.constants import TransportTuning
        _, t, r, remote, mc, ob, mt, rel, code, obs, body, mr = ev[:12]
        tuning = ev[12] if len(ev) > 12 else None
        attrs = {"MAX_RETRANSMIT": mr, "reliability": rel}
        if tuning:
            attrs["ACK_TIMEOUT"] = tuning[0] * vloop.TICK
            attrs["ACK_RANDOM_FACTOR"] = tuning[1]
        T = type("HarnessTuning", (TransportTuning,), attrs)
        msg = aiocoap.Message(code=aiocoap.Code(code), transport_tuning=T())
        if mt is not None:
            msg.mtype = aiocoap.Type(TYPES.index(mt))
        if ob:
            msg.opt.observe = 0
        elif obs is not None:
            msg.opt.observe = obs
        if body:
            msg.payload = str(body).encode()
        msg.remote = netsim.remote_for(self.net, self.sockaddr_out(remote))
        base = (self.script.get("copy_of") or {}).get(str(r))
        if base is not None:
            # the application builds this request from a message it has sent before: the `.copy()` of the earlier
            # request's Message object ("same request again", a poll loop) -- token, message ID and type of the
            # earlier transmission travel along in the copy (oracle-only scripts)
            dest = msg.remote
            msg = self.sent_msgs[base].copy(payload=msg.payload)
            msg.remote = dest
        self.sent_msgs = getattr(self, "sent_msgs", {})
        self.sent_msgs[r] = msg
        bw = (self.script.get("blockwise") or {}).get(str(r))
        if bw is not None:
            # the default API: BlockwiseRequest on top of Request (oracle-only scripts); a body of bw["upload"]
            # bytes is sent in Block1 pieces, a Block2 answer is fetched piece by piece
            if bw.get("upload"):
                msg.payload = bytes((i * 7 + r) % 251 for i in range(bw["upload"]))
            msg.remote.maximum_block_size_exp = bw.get("szx", 6)
            req = self.ctx.request(msg)
            self.requests[r] = req
            req.response.add_done_callback(lambda f: f.cancelled() or f.exception())
            req.response.add_done_callback(
                lambda f, r=r: self.done_calls.__setitem__(r, self.done_calls.get(r, 0) + 1))
            return
        req = self.ctx.request(msg, handle_blockwise=False)
        self.requests[r] = req
        req.response.add_done_callback(lambda f: f.cancelled() or f.exception())
        req.response.add_done_callback(lambda f, r=r: self.done_calls.__setitem__(r, self.done_calls.get(r, 0) + 1))

        def cb(event, r=r):
            if event.message is not None:
                m = event.message
                p = {"mtype": TYPES[int(m.mtype)], "code": int(m.code), "mid": m.mid,
                     "token": m.token, "options": [(W.OBSERVE, W.uint_bytes(m.opt.observe))]
                     if m.opt.observe is not None else [], "payload": m.payload}
                self.log.append(("out", f"r:{r}:{_b(event.is_last)}:{wire_str(p)}", self.loop.now_ticks()))
            elif event.exception is not None:
                e = event.exception
                name = e.__name__ if isinstance(e, type) else type(e).__name__
                self.log.append(("out", f"f:{r}:{name}", self.loop.now_ticks()))
                self.failures[r] = e
            return True

        req._pipe.on_event(cb, is_interest=False)
        if ob and self.script.get("consume"):
            # the application iterates over the observation, as the documentation recommends
            state = self.consumers[r] = {"items": 0, "end": "pending"}

            async def consume(req=req, state=state):
                try:
                    async for _ in req.observation:
                        state["items"] += 1
                    state["end"] = "stopped"
                except asyncio.CancelledError:
                    if state["end"] == "pending":
                        state["end"] = "cancelled-by-harness"
                    raise
                except Exception as e:
                    state["end"] = "raised:" + ",".join(c.__name__ for c in type(e).__mro__)

            def start(r=r, consume=consume):
                task = self.loop.create_task(consume())
                task.add_done_callback(lambda f: f.cancelled() or f.exception())
                self.consumer_tasks.append(task)
                self.consumer_task_of[r] = task

            if self.script["consume"] == "late":
                # "await request.response, do something else, then async for": the iteration starts only after the
                # script's shutdown has returned
                self.late_consumers.append(start)
            else:
                start()

    def do_K(self, ev):
        """["K", t, r]: the application cancels the task that iterates over the observation of request `r` (a worker
        being stopped, an `asyncio.wait_for` around the iteration timing out).  Oracle-only scenarios."""
        task = self.consumer_task_of.get(ev[2])
        if task is not None:
            task.cancel()
            self.consumers[ev[2]]["end"] = "cancelled-by-application"

    def do_N(self, ev):
        """["N", t, [ev, ...]]: several input events back to back in ONE loop callback (oracle-only scenarios)"""
        was_shut = self.shut           # a transport closed in an earlier callback delivers nothing
        for sub in ev[2]:
            sub = list(sub)
            sub[1] = ev[1]
            if was_shut and sub[0] in ("R", "E"):
                continue
            self.log.append(("in", event_token(sub), ev[1]))
            getattr(self, "do_" + sub[0])(sub)

    def do_R(self, ev):
        _, t, remote, mcl, mt, code, mid, tok, obs, body = ev[:10]
        opts = []
        if obs is not None:
            opts.append((W.OBSERVE, W.uint_bytes(obs)))
        if len(ev) > 10 and ev[10]:
            opts += [(n, bytes.fromhex(v)) for n, v in ev[10]]       # oracle-only scripts (block options ...)
        payload = bytes.fromhex(ev[11]) if len(ev) > 11 and ev[11] is not None else \
            (str(body).encode() if body else b"")
        data = W.build(mt, code, mid, bytes.fromhex(tok) if tok != "-" else b"", opts, payload)
        local = netsim.LOCAL_UNICAST
        if mcl == "v4":
            local = netsim.LOCAL_MULTICAST_V4
        elif mcl:
            local = netsim.LOCAL_MULTICAST
        self.net.inject(data, self.sockaddr(remote), local=local)

    def do_P(self, ev):
        import aiocoap
        from aiocoap.numbers.constants import TransportTuning
        _, t, sv, mt, rel, code, obs, body, nr, mr, il = ev[:11]
        unsendable = len(ev) > 11 and ev[11]
        pipe = self.srv_pipes.get(sv)
        if pipe is None:
            return
        T = type("HarnessTuning", (TransportTuning,), {"MAX_RETRANSMIT": mr, "reliability": rel})
        shared = getattr(self, "_shared_response", None)
        if self.script.get("alias_responses") and shared is not None:
            # the application keeps ONE response object (a pre-built representation, say) and hands it out for
            # every request, updating its content
            msg = shared
            msg.code = aiocoap.Code(code)
            msg.payload = b""
            msg.opt.observe = None
            msg.opt.no_response = None
            # (the representation's validator changes with it: what the layer keeps for duplicates must not share
            # the option set of the application's object either)
            msg.opt.etag = ("v%s" % body).encode()
        else:
            msg = aiocoap.Message(code=aiocoap.Code(code), transport_tuning=T())
            self._shared_response = msg
        if mt is not None:
            msg.mtype = aiocoap.Type(TYPES.index(mt))
        if obs is not None:
            msg.opt.observe = obs
        if nr:
            msg.opt.no_response = nr
        if body:
            msg.payload = str(body).encode()
        if il:
            self.srv_done.add(sv)
        if unsendable == "uncopyable":
            # serialises, but cannot be deep-copied (the message layer keeps a copy of an ACK for duplicates)
            msg.opt.etag = memoryview(b"abcd")
            pipe.add_response(msg, is_last=il)
            return
        if unsendable:
            # a message that cannot be serialised (str payload): sending it raises into the application, which
            # answers with a bare 5.00 instead, as error_to_message does (oracle-only scripts)
            msg.payload = "text"
            try:
                pipe.add_response(msg, is_last=il)
            except Exception:
                pipe.add_response(aiocoap.Message(code=aiocoap.Code(160), transport_tuning=T()), is_last=il)
            return
        pipe.add_response(msg, is_last=il)

    def do_H(self, ev):
        """["H", t, srv, r, remote]: the handler serving request `srv` issues request `r` through the
        same context and awaits it (what aiocoap's forward proxy does); the awaiting task is cancelled
        when the served request's pipe loses interest, as run_driving_pipe does for render tasks.
        Oracle-only scenarios (the Lean model has no handler tasks)."""
        import aiocoap
        _, t, sv, r, remote = ev
        pipe = self.srv_pipes.get(sv)
        if pipe is None:
            return
        msg = aiocoap.Message(code=aiocoap.GET, payload=str(100 + r).encode())
        msg.remote = netsim.remote_for(self.net, self.sockaddr(remote))

        async def handler():
            req = self.ctx.request(msg, handle_blockwise=False)
            self.requests[r] = req
            req.response.add_done_callback(lambda f: f.cancelled() or f.exception())
            req.response.add_done_callback(
                lambda f, r=r: self.done_calls.__setitem__(r, self.done_calls.get(r, 0) + 1))
            await req.response

        task = self.loop.create_task(handler())
        task.add_done_callback(lambda f: f.cancelled() or f.exception())
        pipe.on_interest_end(task.cancel)

    def do_C(self, ev):
        self.requests[ev[2]].response.cancel()

    def do_O(self, ev):
        """["O", t, r]: the application calls the public request.observation.cancel() (it may still want the
        response).  Oracle-only scenarios."""
        obs = getattr(self.requests.get(ev[2]), "observation", None)
        if obs is not None and not obs.cancelled:
            obs.cancel()

    def do_E(self, ev):
        self.net.inject_error(errno.ECONNREFUSED, self.sockaddr(ev[2]))

    def do_F(self, ev):
        """["F", t, remote, on]: sendmsg() towards `remote` starts / stops raising EHOSTUNREACH
        (a synchronous transport error; such scripts are judged by the oracle only)"""
        addr = tuple(self.sockaddr(ev[2]))
        if ev[3]:
            self.net.send_errors[addr] = OSError(errno.EHOSTUNREACH, "No route to host")
        else:
            self.net.send_errors.pop(addr, None)

    def do_X(self, ev):
        if not self.shut and getattr(self, "ctx2", None) is not None and self.script.get("second_context") == "busy":
            # the other context in this process is in the middle of something: a CON request whose handler is slow
            self.ctx2_busy_since = self.loop.now_ticks()
            self.net2.inject(W.build("CON", 1, 0x7778, b"\x0a", [(W.URI_PATH, b"slow")], b""), netsim.peer(4))
            # ... and a request of its own that is outstanding (a NON request nobody has answered yet)
            import aiocoap
            m2 = aiocoap.Message(code=aiocoap.GET, mtype=aiocoap.NON, payload=b"ctx2")
            m2.remote = netsim.remote_for(self.net2, netsim.peer(6))
            self.ctx2_own = self.ctx2.request(m2, handle_blockwise=False).response
            self.ctx2_own.add_done_callback(lambda f: f.cancelled() or f.exception())
        self.shut = True

        again = self.shutdown_task is not None           # a second X: the application calls shutdown() once more

        async def shut():
            try:
                await self.ctx.shutdown()
            except BaseException as e:       # also a CancelledError leaking out of a future the library touched
                self.shutdown_info["error"] = (("second call: " if again else "") + f"{type(e).__name__}: {e}")
            if again:
                self.shutdown_info["again_done_tick"] = self.loop.now_ticks()
                return
            self.shutdown_info["done_tick"] = self.loop.now_ticks()
            self.futures_at_shutdown = {k: _future_state(q) for k, q in self.requests.items()}
            self.shutdown_info["handlers_alive"] = sorted(self.srv_pipes)

        if len(ev) > 2 and ev[2]:
            # the application's task calls shutdown() in this very callback (it was woken by a timer that fired in
            # the loop iteration in which the preceding datagram arrived): runs synchronously up to its first wait
            task = asyncio.Task(shut(), loop=self.loop, eager_start=True)
        else:
            task = self.loop.create_task(shut())
        if again:
            self.more_shutdown_tasks.append(task)
        else:
            self.shutdown_task = task

    # ---- the site: hands every request to the script ---------------------------------------
    async def render_to_pipe(self, pipe):
        sv = self.nsrv
        self.nsrv += 1
        self.srv_pipes[sv] = pipe
        m = pipe.request
        p = {"mtype": TYPES[int(m.mtype)], "code": int(m.code), "mid": m.mid, "token": m.token,
             "options": [(W.OBSERVE, W.uint_bytes(m.opt.observe))] if m.opt.observe is not None else [],
             "payload": m.payload}
        self.log.append(("out", f"d:{sv}:{self.remote_id(m.remote.sockaddr)}:{wire_str(p)}", self.loop.now_ticks()))

        def ended(sv=sv):
            if sv not in self.srv_done:
                self.log.append(("out", f"x:{sv}", self.loop.now_ticks()))
            self.srv_pipes.pop(sv, None)

        pipe.on_interest_end(ended)
        await asyncio.get_running_loop().create_future()    # the script produces the responses

    # ---- main ---------------------------------------------------------------------------
    async def main(self, loop):
        self.loop = loop
        draws = list(self.script.get("draws", []))

        def draw(lo, hi):
            if draws:
                return draws.pop(0) * vloop.TICK
            return lo

        self.pins = netsim.Pins(mid=self.script.get("mid", 4096), token=self.script.get("token", 32),
                                timeout_extra_ticks=draw)
        with self.pins:
            site = self
            self.ctx, self.net = await netsim.make_context(loop, site=site)
            if self.script.get("second_context"):
                self.ctx2, self.net2 = await netsim.make_context(loop, site=ProbeSite())
            assert loop.now_ticks() == 0
            self.net.on_send = self.on_send
            raising = set(self.script.get("send_raises") or [])
            if raising:
                # a transport whose send() raises (tinydtls and slipmux can; udp6 reports errors differently): the
                # first transmission of the request with one of these bodies fails with an exception
                mi = self.ctx.request_interfaces[0].token_interface.message_interface
                real_send = mi.send

                def send(message, real_send=real_send):
                    key = bytes(message.payload)
                    if key in {str(b).encode() for b in raising} and 1 <= int(message.code) < 32:
                        raising.discard(int(key))
                        raise RuntimeError("harness: the transport failed to send this message")
                    return real_send(message)

                mi.send = send
            last = 0
            for ev in self.script["events"]:
                self.schedule(ev)
                last = max(last, ev[1])
            # run until `end` (virtual); the script's last event is normally an "A"
            await asyncio.sleep((last + 1) * vloop.TICK)
            for _ in range(10):
                await asyncio.sleep(0)
            self.snapshots.append(self.state_summary())
            if self.shut:
                await self.shutdown_task
                for t in self.more_shutdown_tasks:
                    await t
                for start in self.late_consumers:
                    start()
                if self.script.get("second_context"):
                    self.shutdown_info["second_context"] = await self.second_context_works()
            else:
                self.net.on_send = None
                self.log = list(self.log)       # freeze: the final clean-up is not part of the script
                frozen = self.log
                self.log = []
                await self.ctx.shutdown()
                self.log = frozen
            for _ in range(5):
                await asyncio.sleep(0)
            self.consumers = {k: dict(v) for k, v in self.consumers.items()}     # as they are now
            for t in self.consumer_tasks:
                t.cancel()

    async def second_context_works(self):
        """another context in the same loop still serves a request after the first was shut down"""
        return await probe_context(self.loop, self.ctx2, self.net2, getattr(self, "ctx2_busy_since", None),
                                   getattr(self, "ctx2_own", None))

    def state_summary(self):
        """the tables of MessageManager and TokenManager, rendered like the model's `stateStr`;
        "n/a" when the implementation's private attributes are not the ones this probe knows (after a
        refactoring): the comparison then falls back to the observable trace alone"""
        try:
            return self._state_summary()
        except (AttributeError, TypeError, ValueError, KeyError):
            return "n/a"

    def _state_summary(self):
        tman = self.ctx.request_interfaces[0]
        mman = tman.token_interface
        rid = lambda r: self.remote_id(r.sockaddr)
        j = lambda l: ",".join(sorted(l))
        shut = mman._active_exchanges is None
        ex = [] if shut else [f"{rid(r)}:{mid}" for (r, mid) in mman._active_exchanges]
        bl = [] if shut else [f"{rid(r)}:{len(l)}" for r, l in mman._backlogs.items()]
        pg = [f"{rid(r)}:{_hex(tok)}:{mid}" for (r, tok), (mid, _h) in mman._piggyback_opportunities.items()]
        rc = [f"{rid(r)}:{mid}:{0 if v is None else 1}" for (r, mid), v in mman._recent_messages.items()]
        og = [] if tman.outgoing_requests is None else \
            [f"{_hex(tok)}:{'m' if r is None else rid(r)}" for (tok, r) in tman.outgoing_requests]
        ic = [] if tman.incoming_requests is None else \
            [f"{_hex(tok)}:{rid(r)}" for (tok, r) in tman.incoming_requests]
        return f"ex={j(ex)} bl={j(bl)} pg={j(pg)} rc={j(rc)} og={j(og)} ic={j(ic)}"

    # Site interface bits the context touches
    def get_resources_as_linkheader(self):
        return []


class ProbeSite:
    async def render_to_pipe(self, pipe):
        import aiocoap
        if pipe.request.opt.uri_path == ("slow",):
            await asyncio.get_running_loop().create_future()          # never answers
        pipe.add_response(aiocoap.Message(code=aiocoap.CONTENT, payload=b"42"), is_last=True)


async def probe_context(loop, ctx, net, busy_since=None, own=None):
    if own is not None:
        # the other context's own outstanding request is still outstanding, and is completed by its answer
        for _ in range(5):
            await asyncio.sleep(0)
        if own.done():
            st = "cancelled" if own.cancelled() else type(own.exception()).__name__ if own.exception() else "a response"
            await ctx.shutdown()
            return f"the other context's own outstanding request ended with {st} when the first context was shut down"
        reqs = [W.parse(b) for (_, _, b) in net.sent]
        reqs = [p for p in reqs if p["payload"] == b"ctx2"]
        if len(reqs) != 1:
            await ctx.shutdown()
            return f"harness: the other context's request was sent {len(reqs)} times"
        net.inject(W.build("NON", 69, 0x7779, reqs[0]["token"], [], b"ok"), netsim.peer(6))
        for _ in range(5):
            await asyncio.sleep(0)
        if not own.done() or own.cancelled() or own.exception() is not None or own.result().payload != b"ok":
            await ctx.shutdown()
            return "the other context's own request was not completed by its response after the first context was shut down"
    if busy_since is not None:
        # the other context was handed a CON request with a slow handler just before the first context shut down:
        # its empty ACK is due EMPTY_ACK_DELAY after the arrival, whatever the first context did to its own timers
        ead = default_cfg()["emptyAckDelay"]
        await asyncio.sleep((ead + 10) * vloop.TICK)
        acks = [(t, W.parse(b)) for (t, _, b) in net.sent]
        acks = [(t, p) for (t, p) in acks if p["mtype"] == "ACK" and p["mid"] == 0x7778]
        if [(t, p["code"]) for (t, p) in acks] != [(busy_since + ead, 0)]:
            await ctx.shutdown()
            return (f"the other context's pending empty ACK (request arrived at {busy_since}) was sent "
                    f"{[(t, p['code']) for (t, p) in acks]}, expected once at {busy_since + ead}")
    n0 = len(net.sent)
    net.inject(W.build("CON", 1, 0x7777, b"\x09", [], b""), netsim.peer(5))
    for _ in range(10):
        await asyncio.sleep(0)
    got = [W.parse(b) for (_, _, b) in net.sent[n0:]]
    ok = [p for p in got if p["mtype"] == "ACK" and p["mid"] == 0x7777 and p["code"] == 69 and p["payload"] == b"42"]
    await ctx.shutdown()
    return "ok" if len(ok) == 1 else f"second context answered {[(p['mtype'], p['code']) for p in got]}"


def run_script(script):
    __import__("common").quiet(logging.getLogger("coap-server"))
    __import__("common").quiet(logging.getLogger("coap"))
    r = Runner(script)
    _, loop = vloop.run(r.main, max_time=1e7)
    # group the outputs: group 0 = before the first input, then one group per input
    groups = [[]]
    concrete = []
    for kind, text, _tick in r.log:
        if kind == "in":
            groups.append([])
            concrete.append(text)
        else:
            groups[-1].append(text)
    times = [int(c.split("@")[1].split(":")[0]) for c in concrete]
    same_tick = len(set(times)) != len(times)
    cfg = script.get("cfg") or default_cfg()
    draws_used = [vloop.ticks(v) for (_, _, v) in r.pins.uniform_calls]
    args = [str(cfg["exchangeLifetime"]), str(cfg["emptyAckDelay"]), str(script.get("mid", 4096)),
            str(script.get("token", 32)), ",".join(map(str, draws_used)) or "-"] + concrete
    return {
        "concrete": concrete,
        "groups": groups,
        "impl_line": "|".join(";".join(sorted(g)) + "~" + (r.snapshots[i] if i < len(r.snapshots) else "?")
                              for i, g in enumerate(groups)),
        "args": args,
        "same_tick_inputs": same_tick,
        "wire": r.net.sent,
        "failed_sends": [(t, r.remote_id(d)) for (t, d) in r.net.failed_sends],
        "uniform_calls": [(vloop.ticks(a), vloop.ticks(b), vloop.ticks(v)) for (a, b, v) in r.pins.uniform_calls],
        "loop_exceptions": [str(c.get("exception") or c.get("message")) for c in loop.exceptions],
        "errors": r.errors,
        "log": r.log,
        "failure_classes": {k: [c.__name__ for c in (v if isinstance(v, type) else type(v)).__mro__]
                            for k, v in r.failures.items()},
        "futures": {k: _future_state(q) for k, q in r.requests.items()},
        "done_calls": r.done_calls,
        "shutdown": r.shutdown_info,
        "futures_at_shutdown": r.futures_at_shutdown,
        "consumers": {k: dict(v) for k, v in r.consumers.items()},
    }


def _future_state(req):
    f = req.response
    if not f.done():
        return "pending"
    if f.cancelled():
        return "cancelled"
    e = f.exception()
    if e is None:
        return "result"
    return "exception:" + ",".join(c.__name__ for c in type(e).__mro__)


def default_cfg():
    from aiocoap.numbers.constants import TransportTuning
    t = TransportTuning()
    return {"exchangeLifetime": vloop.ticks(vloop.q(t.EXCHANGE_LIFETIME)),
            "emptyAckDelay": vloop.ticks(vloop.q(t.EMPTY_ACK_DELAY)),
            "ackTimeout": vloop.ticks(vloop.q(t.ACK_TIMEOUT)),
            "ackTimeoutMax": vloop.ticks(vloop.q(t.ACK_TIMEOUT * t.ACK_RANDOM_FACTOR)),
            "maxRetransmit": t.MAX_RETRANSMIT,
            "maxTransmitWait": vloop.ticks(vloop.q(t.MAX_TRANSMIT_WAIT))}


def canon_model_line(line):
    """sort outputs within each group of a model output line"""
    tie = False
    starved = False
    if line.startswith("STARVED "):
        starved = True
        line = line[len("STARVED "):]
    if line.startswith("TIE "):
        tie = True
        line = line[4:]
    def canon_group(g):
        outs, _, state = g.partition("~")
        # the retransmission counter is not observable in the implementation's tables
        state = " ".join(("ex=" + ",".join(":".join(x.split(":")[:2]) for x in part[3:].split(",") if x))
                         if part.startswith("ex=") else part for part in state.split(" "))
        return ";".join(sorted(x for x in outs.split(";") if x)) + "~" + state

    out = "|".join(canon_group(g.strip()) for g in line.split("|"))
    return out, tie, starved
