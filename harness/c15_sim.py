"""C15 helpers: fake stream transport, recording token manager, canonicalisers for the
line protocol, and an independent RFC 8323 / RFC 7252 framer used as the oracle.

Nothing in the "oracle" half of this file imports or calls aiocoap or mirrors the Lean
model: it is written from RFC 8323 section 3.2/5, RFC 7252 section 3.1 and (No-Response) RFC 7967.
"""
import asyncio
import logging
import zlib

# ------------------------------------------------------------------ canonical text forms


def render(b):
    b = bytes(b)
    if not b:
        return "-"
    if len(b) <= 40:
        return b.hex()
    return "#%d:%d" % (len(b), zlib.adler32(b))


def spec(b):
    """Input form of a byte string for the driver: hex pieces and `bb*n` runs joined by +."""
    b = bytes(b)
    if not b:
        return "-"
    if len(b) <= 96:
        return b.hex()
    pieces = []
    i = 0
    lit = bytearray()
    n = len(b)
    while i < n:
        j = i + 1
        c = b[i]
        while j < n and b[j] == c:
            j += 1
        if j - i >= 32:
            if lit:
                pieces.append(lit.hex())
                lit = bytearray()
            pieces.append("%02x*%d" % (c, j - i))
        else:
            lit += b[i:j]
        i = j
    if lit:
        pieces.append(lit.hex())
    return "+".join(pieces)


def unspec(s):
    if s == "-":
        return b""
    out = bytearray()
    for p in s.split("+"):
        if "*" in p:
            h, n = p.split("*")
            out += bytes.fromhex(h) * int(n)
        else:
            out += bytes.fromhex(p)
    return bytes(out)


def render_fields(code, token, opts, payload):
    o = ",".join("%d:%s" % (n, render(v)) for n, v in opts) if opts else "-"
    return "%d/%s/%s/%s" % (code, render(token), o, render(payload))


def msg_fields(msg):
    return (int(msg.code), bytes(msg.token),
            [(int(o.number), bytes(o.encode())) for o in msg.opt.option_list()],
            bytes(msg.payload))


# ------------------------------------------------------------------ fakes around the real code


class FakeTransport(asyncio.Transport):
    """A stream transport as asyncio documents it (asyncio-protocol.rst, WriteTransport), seen
    from both ends of the connection.

    `room`: how many bytes the socket still takes because the peer reads them (None = all of
    them: the peer keeps reading).  write(data) never blocks: what the socket takes reaches the
    peer at once, the rest waits in the transport's write buffer, behind what is waiting there
    already.  close(): "buffered data will be flushed", then the connection closes.  abort():
    "buffered data will be lost", the connection closes at once.  is_closing() is true after
    either, and the harness then stops delivering data.

    The events say what the PEER gets, in the order of the calls: ("W", bytes) for bytes handed
    to write() that reach it (at once, or when close() flushes them; bytes still buffered at the
    end of a session that nobody closed are on their way), ("LOST", bytes) for bytes that were
    still in the write buffer when abort() threw it away, ("C",) for the end of the connection by
    close() or abort().  With an empty write buffer abort() and close() are the same thing for
    the peer, and the same events."""

    HIGH_WATER = 64 * 1024          # asyncio's default: pause_writing() above it

    def __init__(self, events, room=None):
        super().__init__()
        self.events = events
        self.closed = False
        self.aborted = False
        self.room = room
        self.unsent = []            # [index into events, bytes of that write the socket took]
        self.protocol = None
        self.paused = False
        self.max_buffered = 0

    def set_protocol(self, protocol):
        self.protocol = protocol

    def get_protocol(self):
        return self.protocol

    def get_write_buffer_size(self):
        return sum(len(self.events[i][1]) - off for i, off in self.unsent)

    def write(self, data):
        data = bytes(data)
        self.events.append(("W", data))
        if self.closed or self.room is None or not data:
            return                  # (a write after close is judged by the oracle as it stands)
        taken = 0 if self.unsent else min(self.room, len(data))
        self.room -= taken
        if taken < len(data):
            self.unsent.append([len(self.events) - 1, taken])
            self.max_buffered = max(self.max_buffered, self.get_write_buffer_size())
            if self.protocol is not None and not self.paused and self.get_write_buffer_size() > self.HIGH_WATER:
                self.paused = True
                self.protocol.pause_writing()

    def writelines(self, datas):
        for d in datas:
            self.write(d)

    def close(self):
        if not self.closed:
            self.unsent = []        # flushed: every byte written so far reaches the peer
        self.events.append(("C",))
        self.closed = True

    def abort(self):
        # the write buffer is discarded: what the socket had not taken never reaches the peer
        for i, off in reversed(self.unsent):
            data = self.events[i][1]
            self.events[i:i + 1] = ([("W", data[:off])] if off else []) + [("LOST", data[off:], data)]
        self.unsent = []
        self.events.append(("C",))
        self.closed = True
        self.aborted = True

    def is_closing(self):
        return self.closed

    def can_write_eof(self):
        return True

    def write_eof(self):
        self.events.append(("EOF",))

    def get_extra_info(self, name, default=None):
        return {"sockname": ("2001:db8::1", 5683, 0, 0),
                "peername": ("2001:db8::2", 40000, 0, 0)}.get(name, default)


class RecordingTokenManager:
    def __init__(self, events, conn_ref):
        self.events = events
        self.conn_ref = conn_ref

    def process_request(self, msg):
        self.events.append(("Q",) + msg_fields(msg) + (msg.remote is self.conn_ref[0],))

    def process_response(self, msg):
        self.events.append(("R",) + msg_fields(msg) + (msg.remote is self.conn_ref[0],))
        return True

    def dispatch_error(self, exc, remote):
        self.events.append(("E", exc, remote is self.conn_ref[0]))


_LOG = logging.getLogger("c15-harness")
__import__("common").quiet(_LOG)
_LOG.propagate = False


def make_connection(tcp, maxsize, client, events, tokenmanager=None, room=None):
    conn_ref = [None]
    pool = tcp.TCPClient() if client else tcp.TCPServer()
    pool._tokenmanager = tokenmanager or RecordingTokenManager(events, conn_ref)
    pool.log = _LOG
    conn = tcp.TcpConnection(pool, _LOG, None, is_server=not client)
    conn_ref[0] = conn
    if maxsize != type(conn)._my_max_message_size:
        conn._my_max_message_size = maxsize       # "parameter usually set statically per implementation"
    if client:
        pool._pool[("2001:db8::2", 40000)] = conn
    else:
        pool._pool.add(conn)
    transport = FakeTransport(events, room=room)
    transport.set_protocol(conn)
    return pool, conn, transport


def run_session(tcp, maxsize, chunks, client=False, room=None):
    """connection_made, the chunks while the transport is open, connection_lost(None) if it
    was closed.  `room`: see FakeTransport (back-pressure: the peer stops reading after that many
    bytes).  Returns (canonical string, event list, connection)."""
    events = []
    pool, conn, transport = make_connection(tcp, maxsize, client, events, room=room)
    conn.connection_made(transport)
    for ch in chunks:
        if transport.closed:
            break
        try:
            conn.data_received(ch)
        except Exception as e:          # an escaping exception is an observation
            events.append(("EXC", type(e).__name__, isinstance(e, Warning)))
            break
    if transport.closed and not any(e[0] == "EXC" for e in events):
        conn.connection_lost(None)
    return render_events(events) + " |" + render_conn(conn, transport), events, conn, transport


def fail_kind(exc):
    if exc is None:
        return "lost"
    name = type(exc).__name__
    text = exc.args[0] if getattr(exc, "args", None) else None
    if name == "RemoteServerShutdown" and text == "Peer released connection":
        return "released"
    if name == "RemoteServerShutdown" and text == "Peer aborted connection":
        return "aborted"
    return "other:" + name


def render_events(events):
    out = []
    for e in events:
        k = e[0]
        if k == "W":
            out.append("W" + render(e[1]))
        elif k == "C":
            out.append("C")
        elif k in ("Q", "R"):
            out.append(k + render_fields(*e[1:5]) + ("" if e[5] else "!remote"))
        elif k == "E":
            out.append("E:" + fail_kind(e[1]) + ("" if e[2] else "!remote"))
        elif k == "EXC":
            out.append("EXC:" + e[1])
        elif k == "LOST":
            out.append("LOST" + render(e[1]))
        else:
            out.append(k)
    return " ".join(out)


def render_conn(conn, transport):
    s = conn._remote_settings
    if s is None:
        csm = "-"
    else:
        mms = s.get("max-message-size")
        csm = ("n" if mms is None else str(mms)) + "/" + ("1" if s.get("block-wise-transfer", False) else "0")
    return "spool=%s csm=%s closed=%d" % (render(conn._spool), csm, 1 if transport.closed else 0)


# ------------------------------------------------------------------ independent RFC framer (oracle)

# RFC 7252 5.10 / 7959 / 7641 / 7967 / 8768 option formats; 13 is registered as uint by aiocoap
# (draft-ietf-core-uri-path-abbrev), so a value with leading zeros is the same number.
# These are the options of REQUESTS AND RESPONSES.  RFC 8323 5.2: "Option Numbers for signaling
# messages are specific to the message code", and an elective option that is not understood is
# ignored: the table below says nothing about a frame with a 7.xx code, and the oracle does not
# apply it to one (it used to: a mistake of the verification, found by audit-E).
O_STRING = {3, 8, 11, 15, 20, 35, 39}
O_UINT = {6, 7, 12, 13, 14, 16, 17, 23, 27, 28, 60, 258}


class OUnparsable(Exception):
    pass


def o_ext(n, what):
    """nibble + extension bytes of RFC 7252 3.1 (option delta / option length)"""
    if n < 13:
        return n, b""
    if n < 269:
        return 13, bytes([n - 13])
    if n <= 65535 + 269:
        return 14, (n - 269).to_bytes(2, "big")
    raise ValueError("%s %d cannot be expressed" % (what, n))


def o_options(opts):
    out = bytearray()
    last = 0
    for num, val in opts:
        dn, de = o_ext(num - last, "delta")
        ln, le = o_ext(len(val), "length")
        out.append(dn << 4 | ln)
        out += de + le + val
        last = num
    return bytes(out)


def o_body(opts, payload):
    return o_options(opts) + (b"\xff" + payload if payload else b"")


def o_frame(code, token, body):
    """RFC 8323 3.2, Figure 4/5: Len|TKL, Extended Length, Code, Token, Options+Payload."""
    n = len(body)
    if n <= 12:
        head = bytes([n << 4 | len(token)])
    elif n <= 268:
        head = bytes([13 << 4 | len(token), n - 13])
    elif n <= 65804:
        head = bytes([14 << 4 | len(token)]) + (n - 269).to_bytes(2, "big")
    else:
        head = bytes([15 << 4 | len(token)]) + (n - 65805).to_bytes(4, "big")
    return head + bytes([code]) + token + body


def o_header(buf, pos):
    """None while Len/Extended Length are incomplete, else (offset of token, tkl, body length)"""
    if pos >= len(buf):
        return None
    ln, tkl = buf[pos] >> 4, buf[pos] & 15
    if ln <= 12:
        return 2, tkl, ln
    extlen, base = {13: (1, 13), 14: (2, 269), 15: (4, 65805)}[ln]
    if pos + 1 + extlen > len(buf):
        return None
    return 2 + extlen, tkl, base + int.from_bytes(buf[pos + 1:pos + 1 + extlen], "big")


def o_parse_body(body, signalling=False):
    """RFC 7252 3.1 option list and payload; raises OUnparsable.  `signalling`: the body of a
    frame with a 7.xx code, whose option values are not judged by the formats of the
    request/response options that happen to have the same numbers (RFC 8323 5.2)."""
    opts = []
    num = 0
    i = 0
    n = len(body)
    while i < n:
        if body[i] == 0xFF:
            return opts, body[i + 1:]
        d, l = body[i] >> 4, body[i] & 15
        i += 1
        vals = []
        for nib in (d, l):
            if nib == 15:
                raise OUnparsable("nibble 15")
            if nib == 13:
                if i + 1 > n:
                    raise OUnparsable("truncated")
                vals.append(body[i] + 13)
                i += 1
            elif nib == 14:
                if i + 2 > n:
                    raise OUnparsable("truncated")
                vals.append(int.from_bytes(body[i:i + 2], "big") + 269)
                i += 2
            else:
                vals.append(nib)
        num += vals[0]
        if i + vals[1] > n:
            raise OUnparsable("value truncated")
        val = body[i:i + vals[1]]
        i += vals[1]
        if num in O_STRING and not signalling:
            try:
                val.decode("utf-8")
            except UnicodeDecodeError:
                raise OUnparsable("string option is not UTF-8")
        opts.append((num, val))
    return opts, b""


def o_same_value(num, a, b):
    if num in O_UINT:
        return int.from_bytes(a, "big") == int.from_bytes(b, "big")
    return a == b


def o_single_frame(blob):
    """Parse a written blob as exactly one RFC 8323 frame → (code, token, opts, payload) or None"""
    h = o_header(blob, 0)
    if h is None:
        return None
    off, tkl, bl = h
    if tkl > 8 or off + tkl + bl != len(blob):
        return None
    code = blob[off - 1]
    token = blob[off:off + tkl]
    try:
        opts, payload = o_parse_body(blob[off + tkl:], signalling=code >= 224)
    except OUnparsable:
        return None
    if o_frame(code, token, o_body(opts, payload)) != blob:
        return None                 # not the prescribed (minimal) length form
    return code, token, opts, payload


def oracle_session(maxsize, stream, events, is_network_error):
    """`_oracle_session` + attribution of a session-ending Abort that stands right behind frames
    which ask for no reaction at all (an empty message ahead of the peer's CSM; a CSM or Pong
    without critical options).  When the stream has nothing (complete) behind them, the Abort is
    theirs: keys tcp-empty-not-ignored / tcp-signalling-refused.  When a later frame is the one
    the oracle stumbles over (it expected a dispatch or a Pong and found the Abort), which of the
    frames made the endpoint abort cannot be read from the events: the later frame's verdict and
    key stay, and the verdict says where the Abort stands."""
    notes = {}
    # The peer's view: bytes that were still in the transport's write buffer when the endpoint
    # called abort() on it never arrived.  The session is judged on what did arrive.
    lost = [e for e in events if e[0] == "LOST"]
    events = [e for e in events if e[0] != "LOST"]
    verdict, key = _oracle_session(maxsize, stream, events, is_network_error, notes)
    if lost:
        kinds = [(o_single_frame(e[2]) or (None,))[0] for e in lost]
        what = ("%d bytes handed to transport.write() never reached the peer: the endpoint shut the transport down with "
                "abort(), which discards the write buffer they were still waiting in (close() flushes it)"
                % sum(len(e[1]) for e in lost))
        if 229 in kinds:
            return ("the endpoint closed the connection, but its Abort message did not reach the peer: " + what
                    + (" [the peer's view: %s]" % verdict if verdict else ""), "tcp-abort-lost")
        return (what + (" [the peer's view: %s]" % verdict if verdict else ""), "tcp-write-lost")
    if not verdict:
        return verdict, key
    for what, (k, text) in sorted(notes.items(), key=lambda kv: kv[1][0]):
        if key.startswith("tcp-unexpected-event:W"):
            return ("%s in frame %d answered by Abort and close, and nothing behind it in the stream asks for one (%s)"
                    % (text, k, verdict), {"empty": "tcp-empty-not-ignored", "signalling": "tcp-signalling-refused"}[what])
        return (verdict + " [the Abort stands right behind the %s in frame %d]" % (text, k), key)
    return verdict, key


def _oracle_session(maxsize, stream, events, is_network_error, notes):
    """The property read over what the implementation did.  `events` as recorded by the fakes:
    the whole session is judged.  Up to and including the first close the events must be what
    the frames of the stream demand, one after the other; after the endpoint has closed (its
    own Abort, or the peer's Release/Abort) nothing may be dispatched or written any more,
    whatever else was in the chunk that made it close.  Returns (verdict, key)."""
    for e in events:
        if e[0] == "EXC":
            return ("exception %s escaped data_received%s" % (e[1], " (a warning issued by library code while it handled the "
                    "peer's bytes; the session runs with warnings turned into errors, as under python -W error)"
                    if len(e) > 2 and e[2] else ""), "tcp-exception-escaped:" + e[1])
        if e[0] == "EOF":
            return ("the endpoint half-closed the connection (write_eof)", "tcp-transport-call")
    ev = []
    after = []
    for n, e in enumerate(events):
        ev.append(e)
        if e[0] == "C":
            after = events[n + 1:]
            break
    for e in after:
        # (the one thing that does follow is connection_lost -> pending requests failed; a
        # repeated close() or error report is not judged here, the correspondence sees it)
        if e[0] in ("Q", "R"):
            return ("%s dispatched after the connection was closed (%s)"
                    % ({"Q": "request", "R": "response"}[e[0]], render_fields(*e[1:5])), "tcp-after-close:dispatch")
        if e[0] == "W":
            fr = o_single_frame(e[1])
            what = {227: "Pong", 229: "a second Abort"}.get(fr[0], "code %d" % fr[0]) if fr else "bytes"
            return ("%s written after the connection was closed (%s)" % (what, e[1].hex()[:60]), "tcp-after-close:write")
    i = 0
    # the connection starts with our own CSM, announcing the configured maximum message size
    if not ev or ev[0][0] != "W":
        return ("no initial CSM written", "tcp-initial-csm")
    f = o_single_frame(ev[0][1])
    if f is None or f[0] != 225 or f[1] != b"":
        return ("initial write is not an RFC 8323 CSM frame: " + ev[0][1].hex()[:80], "tcp-initial-csm")
    if not any(n == 2 and int.from_bytes(v, "big") == maxsize for n, v in f[2]):
        return ("initial CSM does not announce Max-Message-Size %d" % maxsize, "tcp-initial-csm")
    i = 1

    def abort_close(why):
        """ev[i:] must be exactly: write(Abort frame), close"""
        if i + 1 < len(ev) and ev[i][0] == "W" and ev[i + 1][0] == "C":
            fr = o_single_frame(ev[i][1])
            if fr is not None and fr[0] == 229:
                if i + 2 == len(ev):
                    return ("", "")
        return ("%s: expected Abort written then close, saw %s" % (why, render_events(ev[i:i + 3]) or "nothing"),
                "tcp-abort-missing:" + why.split(" ")[0])

    def looks_like_abort_close():
        return (i + 1 < len(ev) and ev[i][0] == "W" and ev[i + 1][0] == "C"
                and (o_single_frame(ev[i][1]) or (None,))[0] == 229)

    csm = False
    pos = 0
    k = 0
    while True:
        h = o_header(stream, pos)
        if h is None:
            break
        off, tkl, bl = h
        total = off + tkl + bl
        if total > maxsize:
            return abort_close("oversize frame %d (%d > %d)" % (k, total, maxsize))
        if pos + total > len(stream):
            break
        frame = stream[pos:pos + total]
        pos += total
        k += 1
        if tkl > 8:
            return abort_close("tkl>8 in frame %d" % k)
        code = frame[off - 1]
        token = frame[off:off + tkl]
        try:
            opts, payload = o_parse_body(frame[off + tkl:], signalling=code >= 224)
        except OUnparsable as e:
            return abort_close("unparsable frame %d (%s)" % (k, e))
        if code >= 224:
            if 225 <= code <= 229:
                if any(n % 2 == 1 for n, _ in opts):
                    return abort_close("critical option in signalling frame %d (7.%02d)" % (k, code - 224))
                if code in (225, 227) and looks_like_abort_close():
                    # a CSM / Pong whose options are all elective asks for no reaction: if the session
                    # ends in an Abort here and nothing later accounts for it, it is this frame's
                    notes.setdefault("signalling", (k, "well-formed %s without critical options" % {225: "CSM", 227: "Pong"}[code]))
                if code == 225:
                    csm = True
                elif code == 226:
                    if i >= len(ev) or ev[i][0] != "W":
                        return ("Ping in frame %d not answered" % k, "tcp-pong")
                    fr = o_single_frame(ev[i][1])
                    if fr is None or fr[0] != 227 or fr[1] != token:
                        return ("Ping with token %s answered by %s" % (token.hex(), ev[i][1].hex()[:60]), "tcp-pong")
                    i += 1
                elif code in (228, 229):
                    if not (i + 1 < len(ev) and ev[i][0] == "E" and ev[i + 1][0] == "C"):
                        return ("Release/Abort in frame %d: expected pending requests failed then close, saw %s"
                                % (k, render_events(ev[i:i + 3]) or "nothing"), "tcp-release")
                    if ev[i][1] is None or not is_network_error(ev[i][1]):
                        return ("Release/Abort: pending requests failed with %r, not a network error" % (ev[i][1],),
                                "tcp-release")
                    if i + 2 != len(ev):
                        return ("events after close", "tcp-release")
                    return ("", "")
            else:
                # unknown 7.xx code: the property does not say; ignoring or aborting are both fine
                if looks_like_abort_close():
                    return abort_close("unknown signalling code")
        else:
            if code == 0:
                # "Empty messages are ignored" -- unconditionally (RFC 8323 3.4: they "can always be
                # sent and MUST be ignored by the recipient"), also ahead of the peer's CSM: no event
                # at all belongs to this frame.  (The oracle used to reach this branch only once the
                # CSM was in and accepted an Abort before: withdrawn after audit-E.)
                if i < len(ev) and ev[i][0] in ("Q", "R") and ev[i][1] == 0:
                    return ("empty message in frame %d handed to the token manager" % k, "tcp-empty-dispatched")
                if not csm and looks_like_abort_close():
                    # the session ends in an Abort at this point: fine if a later frame accounts
                    # for it (a request without CSM, a broken frame, ...), else it is this frame's
                    notes.setdefault("empty", (k, "empty message ahead of the peer's CSM"))
            elif not csm:
                if i < len(ev) and ev[i][0] in ("Q", "R"):
                    return ("message in frame %d dispatched before the peer's CSM" % k, "tcp-dispatch-before-csm")
                if looks_like_abort_close():
                    return abort_close("no CSM")
            else:
                if i >= len(ev) or ev[i][0] not in ("Q", "R"):
                    return ("message in frame %d (code %d) not dispatched; saw %s"
                            % (k, code, render_events(ev[i:i + 2]) or "nothing"), "tcp-not-dispatched")
                kind, c2, t2, o2, p2, remote_ok = ev[i]
                same = (c2 == code and t2 == token and p2 == payload and len(o2) == len(opts)
                        and all(a[0] == b[0] and o_same_value(a[0], a[1], b[1]) for a, b in zip(o2, opts)))
                if not same:
                    return ("frame %d dispatched as %s, sent %s" % (k, render_fields(c2, t2, o2, p2),
                                                                     render_fields(code, token, opts, payload)),
                            "tcp-dispatch-mismatch")
                if not remote_ok:
                    return ("dispatched message does not carry the connection as remote", "tcp-dispatch-remote")
                if 64 <= code < 192 and kind != "R":
                    return ("response code %d handed over as a request" % code, "tcp-dispatch-kind")
                if 1 <= code < 32 and kind != "Q":
                    return ("request code %d handed over as a response" % code, "tcp-dispatch-kind")
                i += 1
    if i < len(ev):
        return ("unexpected %s after %d frames" % (render_events(ev[i:i + 3]), k), "tcp-unexpected-event:" + ev[i][0])
    return ("", "")


def oracle_send(fields_before, fields_after, events):
    """`send_message` of the token interface, read from the property ("outgoing messages are
    serialised exactly ...", "identical ... options") and from aiocoap's documented use of
    No-Response on responses (interfaces.py: a response carries the request's No-Response value
    as an internal marker; the token interface drops the response when the marker says the
    client is not interested in its class -- RFC 7967 section 2.1: 2 = 2.xx, 8 = 4.xx, 16 = 5.xx
    -- and removes the marker otherwise).  Returns (verdict, key)."""
    code, token, opts, payload = fields_before
    for e in events:
        if e[0] != "W":
            return ("send_message caused %s" % render_events([e]), "tcp-send-event")
    writes = [e[1] for e in events]
    if not (64 <= code < 192):
        # a request (or anything that is not a response): one frame, the message as handed in
        want = o_frame(code, token, o_body(opts, payload))
        if len(writes) != 1:
            return ("request %s: %d frames written" % (render_fields(*fields_before), len(writes)), "tcp-send-request-options")
        if writes[0] != want:
            got = o_single_frame(writes[0])
            return ("request %s went on the wire as %s" % (render_fields(*fields_before),
                    render_fields(*got) if got else writes[0].hex()[:80]), "tcp-send-request-options")
        if fields_after != fields_before:
            return ("send_message changed the caller's request from %s to %s"
                    % (render_fields(*fields_before), render_fields(*fields_after)), "tcp-send-request-mutated")
        return ("", "")
    marker = next((int.from_bytes(v, "big") for n, v in opts if n == 258), 0)
    unwanted = {2: 2, 4: 8, 5: 16}.get(code >> 5, 0)          # RFC 7967, Table 2
    if code >> 5 == 3 and marker & 4 and not writes:
        return ("", "")                                         # bit 4 / class 3.xx: not defined by RFC 7967, either way is fine
    if marker & unwanted:
        if writes:
            return ("response %s written although No-Response=%d suppresses its class"
                    % (render_fields(*fields_before), marker), "tcp-send-response-no-response")
        return ("", "")
    want = o_frame(code, token, o_body([(n, v) for n, v in opts if n != 258], payload))
    if len(writes) != 1 or writes[0] != want:
        return ("response %s (No-Response marker %d) written as %s" % (render_fields(*fields_before), marker,
                " ".join(w.hex()[:80] for w in writes) or "nothing"), "tcp-send-response-no-response")
    return ("", "")
