"""Independent reading of RFC 7252 section 3 (message format), 3.1 (option format) and 3.2
(option value formats), written from the RFC text.  Shares no code with aiocoap or with the
Lean model.  Used as the oracle of C01.

parse(data)  -> Fields  or raises FormatError(reason)   (strict: every MUST of section 3)
build(fields) -> bytes                                   (any representable message)
"""


class FormatError(Exception):
    """RFC 7252: "message format error"."""


# Options whose value format is `string` (RFC 7252 Table 4; no later RFC adds one that the
# IANA "CoAP Option Numbers" registry lists as string besides these).
STRING_OPTIONS = {3, 8, 11, 15, 20, 35, 39}

MAX_EXT = 0xFFFF + 269      # largest value an Option Delta / Option Length can carry


class Fields:
    __slots__ = ("mtype", "code", "mid", "token", "options", "payload")

    def __init__(self, mtype, code, mid, token, options, payload):
        self.mtype = mtype
        self.code = code
        self.mid = mid
        self.token = token
        self.options = options      # list of (number, value bytes) in wire order
        self.payload = payload

    def __repr__(self):
        return "Fields(T=%d code=%d mid=%d token=%s options=%r payload=%s)" % (
            self.mtype, self.code, self.mid, self.token.hex(),
            [(n, v.hex()) for n, v in self.options], self.payload.hex())


def _extended(nibble, data, pos):
    """Section 3.1: value of an Option Delta / Option Length nibble plus its extension."""
    if nibble <= 12:
        return nibble, pos
    if nibble == 13:
        if pos + 1 > len(data):
            raise FormatError("8-bit extension missing")
        return data[pos] + 13, pos + 1
    if nibble == 14:
        if pos + 2 > len(data):
            raise FormatError("16-bit extension missing")
        return ((data[pos] << 8) | data[pos + 1]) + 269, pos + 2
    raise FormatError("nibble 15 outside the payload marker")


def parse(data):
    if len(data) < 4:
        raise FormatError("shorter than the 4-byte header")
    ver = data[0] >> 6
    mtype = (data[0] >> 4) & 0x3
    tkl = data[0] & 0xF
    if ver != 1:
        raise FormatError("version is not 1")
    if tkl > 8:
        raise FormatError("token length 9-15 is reserved")
    code = data[1]
    mid = (data[2] << 8) | data[3]
    pos = 4
    if pos + tkl > len(data):
        raise FormatError("token truncated")
    token = bytes(data[pos:pos + tkl])
    pos += tkl
    number = 0
    options = []
    payload = b""
    while pos < len(data):
        first = data[pos]
        pos += 1
        if first == 0xFF:
            payload = bytes(data[pos:])
            if not payload:
                raise FormatError("payload marker followed by zero-length payload")
            break
        delta, pos = _extended(first >> 4, data, pos)
        length, pos = _extended(first & 0xF, data, pos)
        number += delta
        if pos + length > len(data):
            raise FormatError("option value truncated")
        options.append((number, bytes(data[pos:pos + length])))
        pos += length
    return Fields(mtype, code, mid, token, options, payload)


def _write_extended(value):
    if value < 0 or value > MAX_EXT:
        raise ValueError("not representable as option delta/length")
    if value <= 12:
        return value, b""
    if value <= 268:
        return 13, bytes([value - 13])
    return 14, bytes([(value - 269) >> 8, (value - 269) & 0xFF])


def build(f):
    """Serialise; options must be in non-decreasing number order."""
    if not (0 <= f.mtype <= 3 and 0 <= f.code <= 255 and 0 <= f.mid <= 0xFFFF and len(f.token) <= 8):
        raise ValueError("header field out of range")
    out = bytearray([(1 << 6) | (f.mtype << 4) | len(f.token), f.code, f.mid >> 8, f.mid & 0xFF])
    out += f.token
    prev = 0
    for number, value in f.options:
        dn, dx = _write_extended(number - prev)
        ln, lx = _write_extended(len(value))
        out.append((dn << 4) | ln)
        out += dx + lx + value
        prev = number
    if f.payload:
        out.append(0xFF)
        out += f.payload
    return bytes(out)


def is_utf8(b):
    """RFC 3629 section 4 syntax, checked octet by octet (no use of a library decoder)."""
    i, n = 0, len(b)

    def tail(k):
        return k < n and 0x80 <= b[k] <= 0xBF

    while i < n:
        c = b[i]
        if c <= 0x7F:
            i += 1
        elif 0xC2 <= c <= 0xDF:
            if not tail(i + 1):
                return False
            i += 2
        elif 0xE0 <= c <= 0xEF:
            if i + 1 >= n:
                return False
            lo, hi = 0x80, 0xBF
            if c == 0xE0:
                lo = 0xA0
            if c == 0xED:
                hi = 0x9F
            if not (lo <= b[i + 1] <= hi and tail(i + 2)):
                return False
            i += 3
        elif 0xF0 <= c <= 0xF4:
            if i + 1 >= n:
                return False
            lo, hi = 0x80, 0xBF
            if c == 0xF0:
                lo = 0x90
            if c == 0xF4:
                hi = 0x8F
            if not (lo <= b[i + 1] <= hi and tail(i + 2) and tail(i + 3)):
                return False
            i += 4
        else:
            return False
    return True


def strings_legal(f):
    return all(is_utf8(v) for n, v in f.options if n in STRING_OPTIONS)
