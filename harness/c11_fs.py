"""C11 harness: the lives of a process on the REAL `FilesystemSecurityContext`.

A history is a list of events on one persisted security context (scratch directory outside /repo
and /verif, under /dev/shm when there is one, removed afterwards):

    q   the context protects a request (takes a sender sequence number)
    n   a request of the peer arrives and is answered: accepted -> a response re-using the request's
        nonce and a second one (notification) under a number of the context's own; refused with
        ReplayErrorWithEcho (replay window unknown after an unclean end) -> the 4.01 + Echo challenge,
        which takes a number too.  Either way the event takes exactly one number.
    K   the process is killed (no `_destroy`, no `__del__`; the OS drops the lock) and the context is
        loaded again by a new process
    S   the process stops in an orderly way (`_destroy`) and the context is loaded again

Observed, per event: the Partial IV in the OSCORE option of what the context sent (the serialised outer
message, read with the oracle's own RFC 8613 §6.1 reader), `next-to-send` of sequence.json after a K / S,
what the peer — ONE in-memory context that keeps its replay window over the whole history, as a real peer
does — made of every message, and every (key, nonce) pair the transparent AEAD was handed for an encryption.
No hook in the implementation: the context is killed the way C13's runner does it (`lockfile = None`, lock
file removed).
"""
import json
import os
import shutil
import tempfile

from common import HarnessError
from c11_util import rfc_parse_option, rfc_parse_datagram

ALG = "verif-c11-transparent"


def hx(b):
    return b.hex() if b else "-"


class FsRunner:
    def __init__(self, k):
        self.k = k
        self.oscore = k.oscore

    # ------------------------------------------------------------------ set-up of one history
    def _settings(self, h, basedir):
        def raw(v):
            return "" if v == "-" else v
        st = {"algorithm": ALG, "sender-id_hex": raw(h["sid"]), "recipient-id_hex": raw(h["rid"]),
              "secret_hex": raw(h["secret"])}
        if h.get("salt") and h["salt"] != "-":
            st["salt_hex"] = h["salt"]
        if h.get("idctx") is not None:
            st["id-context_hex"] = raw(h["idctx"])
        with open(os.path.join(basedir, "settings.json"), "w") as f:
            json.dump(st, f)
        if h.get("disk") is not None:
            with open(os.path.join(basedir, "sequence.json"), "w") as f:
                json.dump({"next-to-send": h["disk"], "received": {"index": 0, "bitfield": 0}}, f)

    def _load(self, h, basedir):
        kw = {}
        if h.get("start") is not None:
            kw["sequence_number_chunksize_start"] = h["start"]
        if h.get("limit") is not None:
            kw["sequence_number_chunksize_limit"] = h["limit"]
        return self.oscore.FilesystemSecurityContext(basedir, **kw)

    @staticmethod
    def _disk(basedir):
        try:
            with open(os.path.join(basedir, "sequence.json")) as f:
                return int(json.load(f)["next-to-send"])
        except FileNotFoundError:
            return 0

    def run(self, h):
        """-> (tokens, verdict): one token per event as the driver prints them; verdict "" = the property holds"""
        oscore = self.oscore
        shm = "/dev/shm"
        basedir = os.path.realpath(tempfile.mkdtemp(
            prefix="c11-", dir=shm if os.access(shm, os.W_OK | os.X_OK) else None))
        if basedir.startswith("/repo") or basedir.startswith("/verif"):
            raise HarnessError("scratch directory inside /repo or /verif")
        alg = self.k.Aead(10, 13)
        had = ALG in oscore.algorithms
        oscore.algorithms[ALG] = alg
        try:
            return self._run(h, basedir, alg)
        finally:
            if not had:
                del oscore.algorithms[ALG]
            shutil.rmtree(basedir, ignore_errors=True)

    # ------------------------------------------------------------------ the history
    def _run(self, h, basedir, alg):
        k, oscore = self.k, self.oscore
        Message = k.aiocoap.Message
        self._settings(h, basedir)
        unhx = (lambda s: b"" if s == "-" else bytes.fromhex(s))
        idctx = None if h.get("idctx") is None else unhx(h["idctx"])
        peer = k.Ctx(k.Aead(10, 13), unhx(h["rid"]), unhx(h["sid"]), idctx, unhx(h["secret"]), unhx(h.get("salt") or "-"))
        peer.echo_recovery = None
        ctx = self._load(h, basedir)
        tokens, verdict = [], ""
        sent = {}                 # numeric Partial IV the context put on the wire -> (lifetime, event index)
        lifetime, count = 1, 0    # count: protects of this lifetime

        def fail(v):
            nonlocal verdict
            verdict = verdict or v

        def wire_of(outer, i):
            outer.mid, outer.mtype, outer.token = (4000 + i) % 65536, k.aiocoap.Type(0), bytes([i % 256])
            return outer.encode()

        def note_sent(wire, i, what):
            """the Partial IV the context put on the wire; None for a response re-using the request's nonce"""
            opt = [v for n, v in rfc_parse_datagram(wire)[1] if n == 9]
            p = rfc_parse_option(opt[0]) if opt else None
            if p is None:
                fail(f"event {i} ({what}): the context sent a message without a well-formed OSCORE option")
                return None
            if p["piv"] is None:
                return None
            n = int.from_bytes(p["piv"], "big")
            if n in sent:
                l0, i0 = sent[n]
                fail(f"inner data exposed: event {i} ({what}, life {lifetime} of the process, its protect no. {count}) was "
                     f"sent with Partial IV {p['piv'].hex()} under the same sender key and ID as event {i0} (life {l0}): "
                     f"one (key, nonce) pair for two messages - their outer payloads reveal the XOR of the inner "
                     f"messages - after the process was killed or stopped in between")
            sent.setdefault(n, (lifetime, i))
            return n

        for i, ev in enumerate(h["events"]):
            if ev in ("K", "S"):
                if ev == "K":
                    ctx.lockfile = None
                    try:
                        os.unlink(os.path.join(basedir, "lock"))
                    except FileNotFoundError:
                        pass
                else:
                    ctx._destroy()
                ctx = None
                tokens.append(f"d{self._disk(basedir)}")
                ctx = self._load(h, basedir)
                lifetime, count = lifetime + 1, 0
                continue
            marker = b"M" + bytes(97 + (i * 7 + j) % 26 for j in range(5)) + b"%d" % (i % 10)
            if ev == "q":
                msg = Message(code=k.aiocoap.POST, uri_path=("p",), payload=marker)
                try:
                    outer, _ = ctx.protect(msg)
                except oscore.ContextUnavailable:
                    tokens.append("x")
                    continue
                count += 1
                wire = wire_of(outer, i)
                n = note_sent(wire, i, "request")
                tokens.append("?" if n is None else str(n))
                try:
                    got, _ = peer.unprotect(Message.decode(wire))
                except Exception as e:
                    fail(f"event {i}: the peer refused the genuine request with Partial IV {n} of life {lifetime} "
                         f"({type(e).__name__}): a number that was used before the process ended")
                else:
                    if got.payload != marker or int(got.code) != 2:
                        fail(f"event {i}: the request did not round-trip at the peer")
            elif ev == "n":
                req = Message(code=k.aiocoap.GET, uri_path=("n",), observe=0, payload=marker)
                o_req, rid_c = peer.protect(req)
                w_req = wire_of(o_req, i)
                rid_c = k.oscore.RequestIdentifiers(rid_c.kid, rid_c.partial_iv, False, rid_c.code_style.request)
                outs = []
                try:
                    _, rid_s = ctx.unprotect(Message.decode(w_req))
                except oscore.ReplayErrorWithEcho as e:
                    try:
                        outs.append(("Echo challenge", e.to_message(), k.aiocoap.UNAUTHORIZED, None))
                    except oscore.ContextUnavailable:
                        tokens.append("x")
                        continue
                except Exception as e:
                    fail(f"event {i}: the context refused a fresh request of its peer ({type(e).__name__})")
                    tokens.append("?")
                    continue
                else:
                    try:
                        r1 = Message(code=k.aiocoap.CONTENT, payload=marker + b"1")
                        outs.append(("first response", ctx.protect(r1, rid_s)[0], k.aiocoap.CONTENT, marker + b"1"))
                        r2 = Message(code=k.aiocoap.CONTENT, payload=marker + b"2")
                        outs.append(("notification", ctx.protect(r2, rid_s)[0], k.aiocoap.CONTENT, marker + b"2"))
                    except oscore.ContextUnavailable:
                        tokens.append("x")
                        continue
                count += 1
                took = []
                for what, outer, code, payload in outs:
                    wire = wire_of(outer, i)
                    n = note_sent(wire, i, what)
                    if n is not None:
                        took.append(n)
                    try:
                        got, _ = peer.unprotect(Message.decode(wire), k.oscore.RequestIdentifiers(
                            rid_c.kid, rid_c.partial_iv, False, rid_c.code_style.request))
                    except Exception as e:
                        fail(f"event {i}: the peer could not verify the {what} ({type(e).__name__})")
                    else:
                        if int(got.code) != int(code) or (payload is not None and got.payload != payload):
                            fail(f"event {i}: the {what} did not round-trip at the peer")
                tokens.append(str(took[0]) if len(took) == 1 else "?" + ",".join(map(str, took)))
            else:
                raise HarnessError(f"unknown history event {ev!r}")
        # an orderly end, so that __del__ of the last object does nothing surprising
        try:
            ctx._destroy()
        except Exception:
            ctx.lockfile = None
        # every (key, nonce) pair the context's AEAD was handed for an encryption, over all lives
        seen = {}
        for e in alg.log:
            if e[0] != "enc":
                continue
            pt, key, nonce = e[1], e[3], e[4]
            if (key, nonce) in seen and seen[(key, nonce)] != pt:
                fail(f"inner data exposed: two different messages (starting {seen[(key, nonce)][:4].hex()} and "
                     f"{pt[:4].hex()}) were encrypted under one (key, nonce) pair (nonce {nonce.hex()}) in the course "
                     f"of the history")
            seen.setdefault((key, nonce), pt)
        return tokens, verdict


def driver_line(h):
    start = 10 if h.get("start") is None else h["start"]
    limit = 10000 if h.get("limit") is None else h["limit"]
    evs = " ".join("q" if e in ("q", "n") else e for e in h["events"])
    return f"C11 H {start} {limit} {h.get('disk') or 0} {evs}"
