"""Tiny independent CoAP (RFC 7252 §3) datagram builder/parser for the harness peers."""

TYPES = ["CON", "NON", "ACK", "RST"]


def _ext(v):
    if v < 13:
        return v, b""
    if v < 269:
        return 13, bytes([v - 13])
    return 14, (v - 269).to_bytes(2, "big")


def uint_bytes(v):
    return v.to_bytes((v.bit_length() + 7) // 8, "big")


def build(mtype, code, mid, token=b"", options=(), payload=b""):
    """options: iterable of (number, bytes), any order (sorted stably here)."""
    out = bytearray([0x40 | (TYPES.index(mtype) << 4) | len(token), code, mid >> 8, mid & 0xFF])
    out += token
    last = 0
    for num, val in sorted(options, key=lambda o: o[0]):
        d, dx = _ext(num - last)
        l, lx = _ext(len(val))
        out += bytes([(d << 4) | l]) + dx + lx + val
        last = num
    if payload:
        out += b"\xff" + payload
    return bytes(out)


def parse(data):
    """-> dict(mtype, code, mid, token, options=[(num, bytes)], payload) ; raises ValueError"""
    if len(data) < 4 or data[0] >> 6 != 1:
        raise ValueError("header")
    tkl = data[0] & 0x0F
    if tkl > 8:
        raise ValueError("tkl")
    mtype = TYPES[(data[0] >> 4) & 3]
    code, mid = data[1], (data[2] << 8) | data[3]
    token = data[4:4 + tkl]
    if len(token) != tkl:
        raise ValueError("token")
    i = 4 + tkl
    opts = []
    num = 0
    payload = b""
    while i < len(data):
        b = data[i]
        i += 1
        if b == 0xFF:
            payload = data[i:]
            if not payload:
                raise ValueError("marker without payload")
            break
        d, l = b >> 4, b & 0x0F
        vals = []
        for nib in (d, l):
            if nib == 13:
                v = data[i] + 13
                i += 1
            elif nib == 14:
                v = int.from_bytes(data[i:i + 2], "big") + 269
                i += 2
            elif nib == 15:
                raise ValueError("nibble 15")
            else:
                v = nib
            vals.append(v)
        num += vals[0]
        val = data[i:i + vals[1]]
        if len(val) != vals[1]:
            raise ValueError("option truncated")
        i += vals[1]
        opts.append((num, bytes(val)))
    return {"mtype": mtype, "code": code, "mid": mid, "token": bytes(token),
            "options": opts, "payload": bytes(payload)}


OBSERVE = 6
NO_RESPONSE = 258
URI_PATH = 11
