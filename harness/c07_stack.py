"""C07 level (b): an observation over the real UDP stack (netsim + virtual clock).

Scripts are those of harness/msglayer.py (submit / datagram from a scripted peer / transport error /
shutdown / response.cancel()) plus ["OC", t, 0] = requests[0].observation.cancel() and an optional
"consumer": {"work": ticks} = an `async for` over requests[0].observation that spends `work`
virtual ticks in its loop body per item (what it is handed is logged separately and judged by the
oracle; it takes no part in the comparison with the model).  Request 0 is
the observing request whose deliveries (response future, callbacks, errbacks, _stop_interest) are
logged in program order next to the datagrams and pipe events msglayer.Runner already logs.
`time` as seen from aiocoap.protocol is the virtual loop's clock.

Round 4: the observing request need not be the first one submitted (`"obs_token"` / `"obs_mid"` of the script name
its token / message ID when other requests were submitted before it); `"tuning0": kind` makes request 0 carry its
transport tuning the way applications pass it (the class `aiocoap.Reliable` / `aiocoap.Unreliable`, the harness's
tuning as a class, with OBSERVATION_RESET_TIME set ...).  Further requests of the script (`S` events with r > 0) are
judged too: a transport failure reported for a peer -- an `E` event, or a confirmable request to it running out of
retransmissions, which the oracle reads off the wire -- fails every request outstanding to that peer, the observation
included, exactly once, and no request to another peer.
"""
import asyncio
import logging

import msglayer
import vloop
from c07_pipe import EXC_NAMES, RFC_RESET_TICKS, rfc_fresher, is_notification, tuned_reset_ticks

TOKEN = "21"          # pinned token counter 32 -> first token 33
REQ_MID = 4096


class _LoopClock:
    def __init__(self, loop):
        self.loop = loop

    def time(self):
        return self.loop.time()


def _name(e):
    # (an exception class handed over in place of an instance is not the exception of that name)
    return "class:" + e.__name__ if isinstance(e, type) else type(e).__name__


class ObsRunner(msglayer.Runner):
    def dlog(self, text):
        self.log.append(("out", "D:" + text, self.loop.now_ticks()))

    @staticmethod
    def mstr(m):
        obs = "-" if m.opt.observe is None else str(m.opt.observe)
        return f"{int(m.code)}:{obs}:{int(m.payload.decode() or 0)}"

    def tuning_as_passed(self, kind, inst):
        """`inst` is the tuning instance the shared runner builds for the S event (a subclass of TransportTuning
        carrying MAX_RETRANSMIT / reliability / time-outs of the script); `kind` says how the application passes it"""
        import aiocoap
        if kind in (None, "instance"):
            return inst
        if kind == "class":
            return type(inst)                       # the class itself, as `aiocoap.Reliable` is passed
        if kind == "library-class":
            # aiocoap.Reliable / aiocoap.Unreliable: the script's S event must use the default constants
            assert inst.MAX_RETRANSMIT == 4 and inst.reliability is not None, "script: library-class needs defaults"
            return aiocoap.Reliable if inst.reliability else aiocoap.Unreliable
        if kind[0] == "reset":
            return type("ResetTuning", (type(inst),), {"OBSERVATION_RESET_TIME": kind[1]})()
        if kind[0] == "class-reset":
            return type("ResetTuning", (type(inst),), {"OBSERVATION_RESET_TIME": kind[1]})
        raise AssertionError(kind)

    def do_S(self, ev):
        kind = self.script.get("tuning0") if ev[2] == 0 else None
        if kind is None:
            super().do_S(ev)
        else:
            # the shared runner (harness/msglayer.py) builds `aiocoap.Message(..., transport_tuning=T())`; for the time
            # of that call the harness's own view of the constructor hands the tuning on in the application's way
            import aiocoap
            real = aiocoap.Message

            def message(*a, transport_tuning=None, **kw):
                return real(*a, transport_tuning=self.tuning_as_passed(kind, transport_tuning), **kw)

            aiocoap.Message = message
            try:
                super().do_S(ev)
            finally:
                aiocoap.Message = real
        r = ev[2]
        if r != 0:
            return
        req = self.requests[r]
        seen = {"resp": False}

        def poll(event):
            # registered after Request's own handler: the runner has processed the event already
            if not seen["resp"] and req.response.done() and not req.response.cancelled():
                seen["resp"] = True
                e = req.response.exception()
                if e is None:
                    self.dlog("resp:" + self.mstr(req.response.result()))
                else:
                    n = _name(e)
                    self.dlog(f"rexc:{EXC_NAMES.index(n)}" if n in EXC_NAMES else "rexc:?" + n)
            return True

        req._pipe.on_event(poll, is_interest=False)
        orig = req._stop_interest

        def stop():
            self.dlog("stop")
            orig()

        req._stop_interest = stop
        if req.observation is not None:
            from aiocoap import error as _error

            def eb(e):
                n = _name(e)
                if not isinstance(e, _error.Error):
                    n = "?" + n
                self.dlog("eb:" + (n if n in ("NotObservable", "ObservationCancelled")
                                   else f"T{EXC_NAMES.index(n)}" if n in EXC_NAMES else n))
                if self.script.get("eb_cancels"):
                    # the application's errback cancels the observation it is being told the end of
                    req.observation.cancel()
            req.observation.register_callback(lambda m: self.dlog("cb:" + self.mstr(m)),
                                              _suppress_deprecation=True)
            req.observation.register_errback(eb, _suppress_deprecation=True)
            cons = self.script.get("consumer")
            if cons:
                self.iter_log = []
                self.iter_snapshot = None
                work = cons["work"] * vloop.TICK

                async def consume():
                    try:
                        async for m in req.observation:
                            self.iter_log.append("item:" + self.mstr(m))
                            if work:
                                await asyncio.sleep(work)
                        self.iter_log.append("stop")
                    except asyncio.CancelledError:
                        raise
                    except Exception as e:
                        n = _name(e)
                        self.iter_log.append("raise:" + n)

                self.consumer = self.loop.create_task(consume())
                self.consumer.add_done_callback(lambda f: f.cancelled() or f.exception())

    def state_summary(self):
        # called by the base class just before its final clean-up (which shuts the context down)
        if getattr(self, "iter_log", None) is not None:
            self.iter_snapshot = list(self.iter_log)
            self.iter_pending = not self.consumer.done()
        return super().state_summary()

    def do_OC(self, ev):
        self.requests[ev[2]].observation.cancel()

    async def main(self, loop):
        import aiocoap.protocol as P
        saved = P.time
        P.time = _LoopClock(loop)
        try:
            await super().main(loop)
            if getattr(self, "iter_log", None) is not None:
                if self.shut:
                    self.iter_snapshot = list(self.iter_log)
                    self.iter_pending = not self.consumer.done()
                self.consumer.cancel()
                await asyncio.gather(self.consumer, return_exceptions=True)
                self.iter_result = (self.iter_snapshot or []) + (["pending"] if self.iter_pending else [])
        finally:
            P.time = saved


def canon_group(g):
    ds = [x[2:] for x in g if x.startswith("D:")]
    ds.sort(key=lambda d: 0 if d.startswith(("resp:", "rexc:")) else 1)   # stable
    rest = [x for x in g if not x.startswith("D:")]
    return rest + ["D%02d:%s" % (i, d) for i, d in enumerate(ds)]


def run_stack(script):
    __import__("common").quiet(logging.getLogger("coap-server"))
    __import__("common").quiet(logging.getLogger("coap"))
    r = ObsRunner(script)
    _, loop = vloop.run(r.main, max_time=1e7)
    groups, concrete, ticks, timed = [[]], [], [], [[]]
    for kind, text, tick in r.log:
        if kind == "in":
            groups.append([])
            timed.append([])
            concrete.append(text)
            ticks.append(tick)
        else:
            groups[-1].append(text)
            timed[-1].append((text, tick))
    canon = [canon_group(g) for g in groups]
    times = [int(c.split("@")[1].split(":")[0]) for c in concrete]
    cfg = msglayer.default_cfg()
    draws_used = [vloop.ticks(v) for (_, _, v) in r.pins.uniform_calls]
    args = [str(cfg["exchangeLifetime"]), str(cfg["emptyAckDelay"]), str(script.get("mid", REQ_MID)),
            str(script.get("token", 32)), ",".join(map(str, draws_used)) or "-"] + concrete
    return {
        "concrete": concrete,
        "groups": canon,
        "impl_line": "|".join(";".join(sorted(g)) for g in canon),
        "timed": timed,
        "args": args,
        "same_tick_inputs": len(set(times)) != len(times),
        "loop_exceptions": [str(c.get("exception") or c.get("message")) for c in loop.exceptions],
        "errors": r.errors,
        "iter": getattr(r, "iter_result", None),
        "shutdown_error": r.shutdown_info.get("error"),
    }


# ---------------------------------------------------------------------------------------------
# Oracle over the wire: RFC 7641 §3.4 and §3.6/RFC 7252 §4.2/§4.3 (ACK / RST for notifications)
# ---------------------------------------------------------------------------------------------

def _parse_in(tok):
    k, rest = tok.split("@", 1)
    f = rest.split(":")
    return k, int(f[0]), f[1:]


def obs_ids(script):
    """(token, message ID, S event) of the observing request (request 0)"""
    s0 = next(e for e in script["events"] if e[0] == "S" and e[2] == 0)
    return script.get("obs_token", TOKEN), script.get("obs_mid", REQ_MID), s0


def timeouts_on_the_wire(script, res):
    """[(tick, remote)]: moments at which a confirmable request of ours has run out of retransmissions, read off the
    wire and the script alone: it was transmitted 1 + MAX_RETRANSMIT times at doubling intervals, and neither an ACK
    nor a RST for its message ID arrived from that peer (nor did a transport error / shutdown / cancellation end
    the exchange) until twice the last interval after the last transmission (RFC 7252 section 4.2)."""
    subs = sorted((e for e in script["events"] if e[0] == "S"), key=lambda e: e[1])
    maxretr = {"%x" % (script.get("token", 32) + 1 + k): e[11] for k, e in enumerate(subs)}
    tx = {}
    for g in res["timed"]:
        for text, tick in g:
            if text.startswith("s@"):
                f = text.split(":")
                remote, mtype, code, mid, tok = f[1], f[2], int(f[3]), int(f[4]), f[5]
                if mtype == "CON" and 1 <= code < 32:
                    tx.setdefault((remote, mid, tok), []).append(tick)
    enders = []
    for tok in res["concrete"]:
        k, t, f = _parse_in(tok)
        if k == "R" and f[2] in ("ACK", "RST"):
            enders.append((t, f[0], int(f[4])))
        elif k == "E":
            enders.append((t, f[0], None))
        elif k in ("X", "C"):
            enders.append((t, None, None))
    out = []
    d0 = msglayer.default_cfg()["ackTimeout"]
    for (remote, mid, tok), ticks in tx.items():
        mr = maxretr.get(tok)
        if mr is None or len(ticks) != mr + 1:
            continue
        give_up = ticks[-1] + (2 * (ticks[-1] - ticks[-2]) if mr >= 1 else (script.get("draws") or [d0])[0])
        if any(t <= give_up and (r is None or r == remote) and (m is None or m == mid) for (t, r, m) in enders):
            continue
        out.append((give_up, remote))
    return sorted(out)


def timeline(script, res):
    """[(input token, canonical group)] with a synthetic input `TO@tick:remote` at every moment a confirmable request
    ran out of retransmissions: what the implementation did from that tick on (until the next input) is its group"""
    tl = []
    tos = timeouts_on_the_wire(script, res)
    for tok, g in zip(res["concrete"], res["timed"][1:]):
        t0 = _parse_in(tok)[1]
        parts = [(tok, [x for x in g])]
        for (tt, remote) in tos:
            cur = parts[-1][1]
            if tt >= t0 and any(tick >= tt for _, tick in cur) and all(tick >= t0 for _, tick in cur):
                nxt = [(x, tick) for x, tick in cur if tick >= tt]
                if nxt and not any(p[0] == f"TO@{tt}:{remote}" for p in parts):
                    parts[-1] = (parts[-1][0], [(x, tick) for x, tick in cur if tick < tt])
                    parts.append((f"TO@{tt}:{remote}", nxt))
        tl += [(k, canon_group([x for x, _ in g2])) for k, g2 in parts]
    return tl


def oracle_other_requests(script, tl):
    """the application's other requests (r > 0): a transport failure reported for a peer fails every request
    outstanding to that peer exactly once with that error, and no request to any other peer"""
    outstanding = {}        # r -> remote
    for tok, g in tl:
        k, t, f = _parse_in(tok)
        fails = {}
        for x in g:
            if x.startswith("f:"):
                _, r, name = x.split(":", 2)
                fails.setdefault(int(r), []).append(name)
        if k == "S" and f[0] != "0" and f[2] == "0":
            outstanding[int(f[0])] = f[1]
        if k in ("E", "TO"):
            name = "NetworkError" if k == "E" else "ConRetransmitsExceeded"
            for r, remote in sorted(outstanding.items()):
                got = fails.get(r, [])
                if remote == f[0] and got != [name]:
                    return (f"{tok}: request {r} is outstanding to the peer the transport failure is reported for; it "
                            f"must fail once with {name}, got {got}"), "other-request-not-failed"
                if remote != f[0] and got:
                    return (f"{tok}: request {r} to peer {remote} failed with {got} on a transport failure of peer "
                            f"{f[0]}"), "other-request-hit"
            for r, remote in list(outstanding.items()):
                if remote == f[0]:
                    del outstanding[r]
        else:
            for r, names in fails.items():
                if r != 0 and [n for n in names if n in ("NetworkError", "ConRetransmitsExceeded")]:
                    return f"{tok}: request {r} failed with {names} without a transport failure", "other-request-hit"
        for x in g:
            if x.startswith("r:") and x.split(":")[2] == "1":
                outstanding.pop(int(x.split(":")[1]), None)
            elif x.startswith("f:"):
                outstanding.pop(int(x.split(":")[1]), None)
        if k in ("X", "C"):
            outstanding.clear() if k == "X" else outstanding.pop(int(f[0]), None)
    return "", None


def oracle_stack(script, res):
    """-> (verdict, key)"""
    errs = [e for e in res["errors"] if not e.startswith("OC@")]   # misuse by the caller is its own
    if errs:
        return "exception escaped into the transport: " + errs[0], "escaped"
    if res["loop_exceptions"]:
        return "exception reached the event loop: " + res["loop_exceptions"][0], "loop-exception"
    if res.get("shutdown_error") and sum(1 for e in script["events"] if e[0] == "X") == 1:
        # (a second Context.shutdown() is the caller's misuse and C18's business)
        return "Context.shutdown() raised " + res["shutdown_error"], "shutdown-raised"
    for g in res["groups"]:
        for x in g:
            if x.startswith("D") and (":eb:?" in x or ":rexc:?" in x):
                return (f"the application was handed {x.split('?', 1)[1]} as the error: the end of an observation "
                        "is an exception instance derived from aiocoap's error.Error"), "error-not-instance"
    loose = any(c.startswith(("OC@", "C@")) for c in res["concrete"])
    if loose:
        return oracle_stack_app(script, res)
    OBS_TOKEN, OBS_MID, s0 = obs_ids(script)
    obs_remote = str(s0[3])
    reset = tuned_reset_ticks(script.get("tuning0"), RFC_RESET_TICKS)
    multi = any(e[0] == "S" and e[2] != 0 for e in script["events"])
    tl = timeline(script, res)
    v, key = oracle_other_requests(script, tl)
    if v:
        return v, key
    registered = False     # the token is outstanding
    established = False
    got_first = False
    over = False
    last = None
    ebs = 0
    for tok, g in tl:
        k, t, f = _parse_in(tok)
        # `stop` (the runner withdrawing from the pipe) is not something the application sees
        dels = [x.split(":", 1)[1] for x in g if x.startswith("D") and not x.endswith(":stop")]
        sends = [x for x in g if x.startswith("s@")]
        kinds = [d.split(":")[0] for d in dels]
        ebs += kinds.count("eb")
        if k == "S" and f[0] == "0":
            registered = True
            continue
        if k in ("OC", "C"):
            if [x for x in kinds if x in ("cb", "eb", "resp", "rexc")]:
                return f"{tok}: delivery {kinds}", "after-cancel"
            continue
        if k == "X" or (k in ("E", "TO") and f[0] == obs_remote):
            name = {"X": "LibraryShutdown", "E": "NetworkError", "TO": "ConRetransmitsExceeded"}[k]
            idx = EXC_NAMES.index(name)
            if registered and not over:
                # "... and with a network error on transport failure", of the initial request as well -- whatever
                # other requests are outstanding
                want = [f"eb:T{idx}"] if got_first else [f"rexc:{idx}", f"eb:T{idx}"]
                if dels != want:
                    return f"{tok}: expected {want}, got {dels}", "network-error"
                over, registered = True, False
            elif dels:
                return f"{tok}: delivery {dels} although the observation is over", "after-end"
            continue
        if k != "R":
            if dels:
                return f"{tok}: unexpected delivery {dels}", "spurious"
            continue
        remote, mcl, mtype, code, mid, token, obs, body = f
        code, mid = int(code), int(mid)
        obs = None if obs == "-" else int(obs)
        is_resp = 64 <= code < 192
        mine = (remote == obs_remote and token == OBS_TOKEN and is_resp and mtype in ("CON", "NON", "ACK"))
        if mtype == "RST" and mid == OBS_MID and remote == obs_remote and registered and not got_first \
                and s0[7] is not False:
            # Reset of the confirmable request itself
            idx = EXC_NAMES.index("MessageError")
            if dels != [f"rexc:{idx}", f"eb:T{idx}"]:
                return f"{tok}: Reset of the request gave {dels}", "network-error"
            over, registered = True, False
            continue
        if not (mine and registered):
            if dels:
                return f"{tok}: datagram not for this observation caused {dels}", "after-end"
            # (with other requests of the script outstanding, only what carries the observation's token from its
            # peer is known to be unmatched here)
            if mtype == "CON" and is_resp and mcl == "0" and \
                    (not multi or (remote == obs_remote and token == OBS_TOKEN)):
                want = f"RST:0:{mid}:-:-:0"
                if not any(s.endswith(want) for s in sends):
                    return f"{tok}: unmatched confirmable response was not reset ({sends})", "no-rst"
            continue
        # a response on the outstanding token from the right endpoint
        if mtype == "CON" and not any(s.endswith(f"ACK:0:{mid}:-:-:0") for s in sends):
            return f"{tok}: matched confirmable notification was not acknowledged ({sends})", "no-ack"
        m = f"{code}:{'-' if obs is None else obs}:{body}"
        # "a response without Observe option (as every non-2.xx one is)"
        notif = is_notification(code, obs)
        what = "without Observe" if obs is None else f"with code {code} (not 2.xx) and Observe {obs}"
        if not got_first:
            got_first = True
            if not notif:
                if dels != ["resp:" + m, "eb:NotObservable"]:
                    return f"{tok}: first response {what} gave {dels}", "not-observable"
                over, registered = True, False
            else:
                if dels != ["resp:" + m]:
                    return f"{tok}: first notification gave {dels}", "first-response"
                established, last = True, (obs, t)
            continue
        if not notif:
            if dels != ["cb:" + m, "eb:ObservationCancelled"]:
                return f"{tok}: response {what} gave {dels}", "final-response"
            over, registered = True, False
            continue
        fresh = rfc_fresher(last[0], last[1], obs, t, reset)
        if fresh:
            if dels != ["cb:" + m]:
                return (f"{tok}: fresher than the last delivered {last} but gave {dels}"), "fresh-dropped"
            last = (obs, t)
        elif dels:
            return f"{tok}: not fresher than the last delivered {last} but gave {dels}", "stale-delivered"
    if ebs > 1:
        return f"{ebs} termination signals", "end-count"
    return oracle_stack_iter(res)


def oracle_stack_app(script, res):
    """the application cancelled the observation or the request: an observation cancelled by the
    application is over — nothing is signalled to it afterwards, nothing is raised anywhere (checked
    by the caller: `errors`, `loop_exceptions`) — and the response future still completes with the
    first response / the failure unless the request itself was cancelled"""
    obs_cancelled = req_cancelled = False
    completed = False
    ebs = 0
    for tok, g in zip(res["concrete"], res["groups"][1:]):
        k, t, f = _parse_in(tok)
        dels = [x.split(":", 1)[1] for x in g if x.startswith("D") and not x.endswith(":stop")]
        kinds = [d.split(":")[0] for d in dels]
        ebs += kinds.count("eb")
        if k == "C" and f[0] == "0" and not completed and not req_cancelled and not obs_cancelled \
                and script["events"][0][5]:
            # request.response cancelled before the first response: the observation is ended, once, with an
            # error derived from error.Error (whoever iterates over it would wait for ever otherwise)
            if kinds != ["eb"] or "?" in dels[0]:
                return (f"{tok}: response future cancelled before the first response; the observation has to be "
                        f"ended once with an aiocoap error, got {dels}"), "response-cancelled"
            req_cancelled = True
            continue
        if (obs_cancelled or req_cancelled) and [x for x in kinds if x in ("cb", "eb")]:
            return f"{tok}: delivery {dels} after the application cancelled", "after-cancel"
        if req_cancelled and [x for x in kinds if x in ("resp", "rexc")]:
            return f"{tok}: delivery {dels} after the request was cancelled", "after-cancel"
        if "resp" in kinds or "rexc" in kinds:
            completed = True
        if k == "OC":
            obs_cancelled = True
        elif k == "C" and f[0] == "0" and not completed:
            req_cancelled = True
        elif k == "R" and not completed and not req_cancelled:
            remote, mcl, mtype, code, mid, token, obs, body = f
            code = int(code)
            if (remote == "0" and token == TOKEN and 64 <= code < 192 and mtype in ("CON", "NON", "ACK")
                    and not script.get("_sent_after_shutdown")):
                want = f"resp:{code}:{obs}:{body}"
                if not dels or dels[0] != want:
                    return (f"{tok}: the first response did not complete the response future of a "
                            f"request whose observation was cancelled ({dels})"), "first-response"
    if ebs > 1:
        return f"{ebs} termination signals", "end-count"
    if not any(c.startswith("OC@") for c in res["concrete"]):
        # only response.cancel(): an `async for` consumer must see the end the observation was given
        return oracle_stack_iter(res)
    return "", None


def oracle_stack_iter(res):
    """the `async for` consumer of the script (if any): a subsequence of what the callbacks got,
    the latest of it obtained, the end as the observation ended"""
    it = res.get("iter")
    if it is None:
        return "", None
    cbs, ebs = [], []
    for g in res["groups"]:
        for x in g:
            if x.startswith("D") and ":cb:" in x:
                cbs.append(x.split(":cb:", 1)[1])
            elif x.startswith("D") and ":eb:" in x:
                ebs.append(x.split(":eb:", 1)[1])
    items = []
    k = 0
    while k < len(it) and it[k].startswith("item:"):
        items.append(it[k][5:])
        k += 1
    tail = it[k:]
    if any(x.startswith("item:") for x in tail):
        return f"consumer was handed an item after {tail[0]}", "iter-after-end"
    j = 0
    for m in items:
        while j < len(cbs) and cbs[j] != m:
            j += 1
        if j == len(cbs):
            return f"consumer got {items}, not a subsequence of the callbacks' {cbs}", "iter-order"
        j += 1
    if cbs and (not items or items[-1] != cbs[-1]):
        return (f"the latest message the callbacks got ({cbs[-1]}) was never handed to the busy "
                f"`async for` consumer: {it}"), "iter-latest-lost"
    if not ebs:
        if tail != ["pending"]:
            return f"observation runs, the consumer ended: {tail}", "iter-end"
        return "", None
    e = ebs[0]
    want = ["stop"] if e in ("NotObservable", "ObservationCancelled") else ["raise:" + EXC_NAMES[int(e[1:])]]
    if tail != want:
        return f"observation ended with {e}, the consumer saw {tail}", "iter-end"
    return "", None
