"""C07 level (b): an observation over the real UDP stack (netsim + virtual clock).

Scripts are those of harness/msglayer.py (submit / datagram from a scripted peer / transport error /
shutdown / response.cancel()) plus ["OC", t, 0] = requests[0].observation.cancel().  Request 0 is
the observing request whose deliveries (response future, callbacks, errbacks, _stop_interest) are
logged in program order next to the datagrams and pipe events msglayer.Runner already logs.
`time` as seen from aiocoap.protocol is the virtual loop's clock.
"""
import logging

import msglayer
import vloop
from c07_pipe import EXC_NAMES, RFC_RESET_TICKS, rfc_fresher

TOKEN = "21"          # pinned token counter 32 -> first token 33
REQ_MID = 4096


class _LoopClock:
    def __init__(self, loop):
        self.loop = loop

    def time(self):
        return self.loop.time()


def _name(e):
    return e.__name__ if isinstance(e, type) else type(e).__name__


class ObsRunner(msglayer.Runner):
    def dlog(self, text):
        self.log.append(("out", "D:" + text, self.loop.now_ticks()))

    @staticmethod
    def mstr(m):
        obs = "-" if m.opt.observe is None else str(m.opt.observe)
        return f"{int(m.code)}:{obs}:{int(m.payload.decode() or 0)}"

    def do_S(self, ev):
        super().do_S(ev)
        r = ev[2]
        if r != 0:
            return
        req = self.requests[r]
        seen = {"resp": False}

        def poll(event):
            # registered after Request's own handler: the runner has processed the event already
            if not seen["resp"] and req.response.done() and not req.response.cancelled():
                seen["resp"] = True
                e = req.response.exception()
                if e is None:
                    self.dlog("resp:" + self.mstr(req.response.result()))
                else:
                    self.dlog(f"rexc:{EXC_NAMES.index(_name(e))}")
            return True

        req._pipe.on_event(poll, is_interest=False)
        orig = req._stop_interest

        def stop():
            self.dlog("stop")
            orig()

        req._stop_interest = stop
        if req.observation is not None:
            def eb(e):
                n = _name(e)
                self.dlog("eb:" + (n if n in ("NotObservable", "ObservationCancelled")
                                   else f"T{EXC_NAMES.index(n)}"))
            req.observation.register_callback(lambda m: self.dlog("cb:" + self.mstr(m)),
                                              _suppress_deprecation=True)
            req.observation.register_errback(eb, _suppress_deprecation=True)

    def do_OC(self, ev):
        self.requests[ev[2]].observation.cancel()

    async def main(self, loop):
        import aiocoap.protocol as P
        saved = P.time
        P.time = _LoopClock(loop)
        try:
            await super().main(loop)
        finally:
            P.time = saved


def run_stack(script):
    __import__("common").quiet(logging.getLogger("coap-server"))
    __import__("common").quiet(logging.getLogger("coap"))
    r = ObsRunner(script)
    _, loop = vloop.run(r.main, max_time=1e7)
    groups, concrete, ticks = [[]], [], []
    for kind, text, tick in r.log:
        if kind == "in":
            groups.append([])
            concrete.append(text)
            ticks.append(tick)
        else:
            groups[-1].append(text)
    canon = []
    for g in groups:
        ds = [x[2:] for x in g if x.startswith("D:")]
        ds.sort(key=lambda d: 0 if d.startswith(("resp:", "rexc:")) else 1)   # stable
        rest = [x for x in g if not x.startswith("D:")]
        canon.append(rest + ["D%02d:%s" % (i, d) for i, d in enumerate(ds)])
    times = [int(c.split("@")[1].split(":")[0]) for c in concrete]
    cfg = msglayer.default_cfg()
    draws_used = [vloop.ticks(v) for (_, _, v) in r.pins.uniform_calls]
    args = [str(cfg["exchangeLifetime"]), str(cfg["emptyAckDelay"]), str(script.get("mid", REQ_MID)),
            str(script.get("token", 32)), ",".join(map(str, draws_used)) or "-"] + concrete
    return {
        "concrete": concrete,
        "groups": canon,
        "impl_line": "|".join(";".join(sorted(g)) for g in canon),
        "args": args,
        "same_tick_inputs": len(set(times)) != len(times),
        "loop_exceptions": [str(c.get("exception") or c.get("message")) for c in loop.exceptions],
        "errors": r.errors,
    }


# ---------------------------------------------------------------------------------------------
# Oracle over the wire: RFC 7641 §3.4 and §3.6/RFC 7252 §4.2/§4.3 (ACK / RST for notifications)
# ---------------------------------------------------------------------------------------------

def _parse_in(tok):
    k, rest = tok.split("@", 1)
    f = rest.split(":")
    return k, int(f[0]), f[1:]


def oracle_stack(script, res):
    """-> (verdict, key)"""
    errs = [e for e in res["errors"] if not e.startswith("OC@")]   # misuse by the caller is its own
    if errs:
        return "exception escaped into the transport: " + errs[0], "escaped"
    if res["loop_exceptions"]:
        return "exception reached the event loop: " + res["loop_exceptions"][0], "loop-exception"
    loose = any(c.startswith(("OC@", "C@")) for c in res["concrete"])
    registered = False     # the token is outstanding
    established = False
    got_first = False
    over = False
    last = None
    ebs = 0
    for tok, g in zip(res["concrete"], res["groups"][1:]):
        k, t, f = _parse_in(tok)
        # `stop` (the runner withdrawing from the pipe) is not something the application sees
        dels = [x.split(":", 1)[1] for x in g if x.startswith("D") and not x.endswith(":stop")]
        sends = [x for x in g if x.startswith("s@")]
        kinds = [d.split(":")[0] for d in dels]
        ebs += kinds.count("eb")
        if k == "S" and f[0] == "0":
            registered = True
            continue
        if k in ("OC", "C"):
            if [x for x in kinds if x in ("cb", "eb", "resp", "rexc")]:
                return f"{tok}: delivery {kinds}", "after-cancel"
            continue
        if loose:
            # application interfered: only "no callback once it cancelled" is claimed
            continue
        if k == "X" or (k == "E" and f[0] == "0"):
            name = "LibraryShutdown" if k == "X" else "NetworkError"
            idx = EXC_NAMES.index(name)
            if registered and not over:
                want = [f"eb:T{idx}"] if got_first else [f"rexc:{idx}", "eb:NotObservable"]
                if dels != want:
                    return f"{tok}: expected {want}, got {dels}", "network-error"
                over, registered = True, False
            elif dels:
                return f"{tok}: delivery {dels} although the observation is over", "after-end"
            continue
        if k != "R":
            if dels:
                return f"{tok}: unexpected delivery {dels}", "spurious"
            continue
        remote, mcl, mtype, code, mid, token, obs, body = f
        code, mid = int(code), int(mid)
        obs = None if obs == "-" else int(obs)
        is_resp = 64 <= code < 192
        mine = (remote == "0" and token == TOKEN and is_resp and mtype in ("CON", "NON", "ACK"))
        if mtype == "RST" and mid == REQ_MID and remote == "0" and registered and not got_first \
                and script["events"][0][7] is not False:
            # Reset of the confirmable request itself
            idx = EXC_NAMES.index("MessageError")
            if dels != [f"rexc:{idx}", "eb:NotObservable"]:
                return f"{tok}: Reset of the request gave {dels}", "network-error"
            over, registered = True, False
            continue
        if not (mine and registered):
            if dels:
                return f"{tok}: datagram not for this observation caused {dels}", "after-end"
            if mtype == "CON" and is_resp and mcl == "0":
                want = f"RST:0:{mid}:-:-:0"
                if not any(s.endswith(want) for s in sends):
                    return f"{tok}: unmatched confirmable response was not reset ({sends})", "no-rst"
            continue
        # a response on the outstanding token from the right endpoint
        if mtype == "CON" and not any(s.endswith(f"ACK:0:{mid}:-:-:0") for s in sends):
            return f"{tok}: matched confirmable notification was not acknowledged ({sends})", "no-ack"
        m = f"{code}:{'-' if obs is None else obs}:{body}"
        if not got_first:
            got_first = True
            if obs is None:
                if dels != ["resp:" + m, "eb:NotObservable"]:
                    return f"{tok}: first response without Observe gave {dels}", "not-observable"
                over, registered = True, False
            else:
                if dels != ["resp:" + m]:
                    return f"{tok}: first notification gave {dels}", "first-response"
                established, last = True, (obs, t)
            continue
        if obs is None:
            if dels != ["cb:" + m, "eb:ObservationCancelled"]:
                return f"{tok}: response without Observe gave {dels}", "final-response"
            over, registered = True, False
            continue
        fresh = rfc_fresher(last[0], last[1], obs, t)
        if fresh:
            if dels != ["cb:" + m]:
                return (f"{tok}: fresher than the last delivered {last} but gave {dels}"), "fresh-dropped"
            last = (obs, t)
        elif dels:
            return f"{tok}: not fresher than the last delivered {last} but gave {dels}", "stale-delivered"
    if ebs > 1:
        return f"{ebs} termination signals", "end-count"
    return "", None
