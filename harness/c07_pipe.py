"""C07 level (a): the real `aiocoap.protocol.Request` fed through a real `aiocoap.pipe.Pipe`.

A history (JSON-able) is
    {"observe": bool,                       # request carries Observe: 0
     "events": [["M", t, code, obs|None, body, last(, cancels)] |  pipe.add_response(msg, is_last=last);
                                                             `cancels` = 1: the application's callback calls
                                                             observation.cancel() when it is handed this message
                ["X", t, k]                           |      pipe.add_exception(EXC[k])
                ["OC", t] | ["RC", t]],                      observation.cancel() / response.cancel()
     "eb_cancels": bool,                    # the application's errback calls observation.cancel() on the
                                            # observation it is being told the end of
     "tuning": None | "instance" | "Reliable" | "Unreliable" | "subclass" | "latency" | ["reset", s] | ["class-reset", s],
                                            # the request's transport_tuning as the application passes it, see TUNINGS
     "iter": None | {"mode": "attentive"|"lazy"|"busy", "start": i, "work": k}}   async-iterator consumer
         (`async for` over request.observation, opened just before event `start`): "attentive" gets
         three event-loop iterations after every event, "lazy" is not scheduled at all until all
         events are in, "busy" gets one iteration after every event and spends `work` iterations in
         its loop body per item — so that events arrive while it is suspended in `__anext__`,
         while a wake-up is due, and while it is busy elsewhere
`t` is in ticks of 2**-20 s on the harness clock that replaces `time` as seen from
`aiocoap.protocol`.  Everything the Request does to the outside is recorded per event, in order:
the response future completing, observation callbacks / errbacks (with the very objects handed
over), `_stop_interest()` (through a wrapper installed on the instance) and the pipe losing its
last interest.
"""
import asyncio
import logging

TICK = 2.0 ** -20
EXC_NAMES = ["MessageError", "ConRetransmitsExceeded", "NetworkError", "LibraryShutdown",
             "ConToMulticast", "RuntimeError"]


# The request's `transport_tuning` as an application passes it.  The library documents (and aiocoap-client, the
# deprecation text of Message(mtype=...) and the library's own tests use) the CLASSES `aiocoap.Reliable` /
# `aiocoap.Unreliable` as well as instances; subclasses tune single constants.  Only a tuning that itself sets
# OBSERVATION_RESET_TIME changes the "128 s" of RFC 7641 section 3.4 -- a tuning of other constants (MAX_LATENCY ...) does not.
TUNINGS = [None, "instance", "Reliable", "Unreliable", "Reliable()", "subclass", "latency",
           ["reset", 60], ["reset", 200], ["class-reset", 60]]


def make_tuning(aiocoap, kind):
    from aiocoap.numbers.constants import TransportTuning
    if kind is None:
        return None                                    # Message() without tuning
    if kind == "instance":
        return TransportTuning()
    if kind == "Reliable":
        return aiocoap.Reliable                        # the class itself
    if kind == "Unreliable":
        return aiocoap.Unreliable
    if kind == "Reliable()":
        return aiocoap.Reliable()
    if kind == "subclass":                             # an application's own tuning, passed as a class
        return type("AppTuning", (TransportTuning,), {"ACK_TIMEOUT": 3.0, "MAX_RETRANSMIT": 3})
    if kind == "latency":                              # a slow network: other constants tuned, not the reset time
        return type("SlowNetTuning", (TransportTuning,), {"MAX_LATENCY": 300.0, "ACK_TIMEOUT": 5.0})()
    if kind[0] == "reset":
        return type("ResetTuning", (TransportTuning,), {"OBSERVATION_RESET_TIME": kind[1]})()
    if kind[0] == "class-reset":
        return type("ResetTuning", (TransportTuning,), {"OBSERVATION_RESET_TIME": kind[1]})
    raise AssertionError(kind)


def tuned_reset_ticks(kind, default):
    """the reset time a request with this tuning is subject to, in ticks: what the application set, else `default`"""
    if isinstance(kind, (list, tuple)):
        return kind[1] << 20
    return default


class Clock:
    """stands in for the `time` module inside aiocoap.protocol"""

    def __init__(self):
        self.now = 1000.0

    def time(self):
        return self.now


class Bench:
    def __init__(self, aiocoap):
        import aiocoap.protocol as P
        from aiocoap import error
        from aiocoap.pipe import Pipe
        self.aiocoap, self.P, self.Pipe, self.error = aiocoap, P, Pipe, error
        self.clock = Clock()
        self.saved_time = P.time
        P.time = self.clock
        self.log = logging.getLogger("c07-harness")
        __import__("common").quiet(self.log)
        self.log.propagate = False

    def close(self):
        self.P.time = self.saved_time

    def make_exc(self, k):
        e = self.error
        return [e.MessageError(), e.ConRetransmitsExceeded(), e.NetworkError("harness"),
                e.LibraryShutdown(), e.ConToMulticast(), RuntimeError("harness")][k]

    def reset_ticks(self):
        """OBSERVATION_RESET_TIME of the implementation's default tuning, in ticks"""
        from aiocoap.numbers.constants import TransportTuning
        v = TransportTuning().OBSERVATION_RESET_TIME * (1 << 20)
        if v != int(v):
            raise ValueError("OBSERVATION_RESET_TIME is not a tick multiple")
        return int(v)

    def message(self, code, obs, body):
        m = self.aiocoap.Message(code=self.aiocoap.Code(code), payload=str(body).encode())
        if obs is not None:
            m.opt.observe = obs
        return m

    async def run_history(self, h):
        """-> dict(groups=[(deliveries, ended)], impl=str, raw=[...], iter=[...], escaped=[...])"""
        A = self.aiocoap
        loop = asyncio.get_running_loop()
        req_msg = A.Message(code=A.GET, transport_tuning=make_tuning(A, h.get("tuning")))
        if h["observe"]:
            req_msg.opt.observe = 0
        pipe = self.Pipe(req_msg, self.log)
        req = self.P.Request(pipe, loop, self.log)
        cur = []                       # deliveries of the event being processed
        state = {"ended": 0}

        orig_stop = req._stop_interest

        def stop():
            cur.append(("stop",))
            orig_stop()

        req._stop_interest = stop
        pipe.on_interest_end(lambda: state.__setitem__("ended", state["ended"] + 1))
        cancel_on = {str(ev[4]).encode() for ev in h["events"] if ev[0] == "M" and len(ev) > 6 and ev[6]}

        def app_callback(m):
            cur.append(("cb", m))
            if m.payload in cancel_on:
                # the application, from inside its callback
                req.observation.cancel()

        if req.observation is not None:
            req.observation.register_callback(app_callback, _suppress_deprecation=True)
            def app_errback(e):
                cur.append(("eb", e))
                if h.get("eb_cancels"):
                    req.observation.cancel()

            req.observation.register_errback(app_errback, _suppress_deprecation=True)

        it = h.get("iter") if req.observation is not None else None
        iter_out = []
        consumer = None

        work = (it or {}).get("work", 0)

        async def consume():
            try:
                async for m in req.observation:
                    iter_out.append(("item", m))
                    for _ in range(work):
                        await asyncio.sleep(0)
                iter_out.append(("stop",))
            except Exception as e:
                iter_out.append(("raise", e))

        groups, raw, escaped = [], [], []
        resp_seen = False
        for i, ev in enumerate(h["events"]):
            if it is not None and consumer is None and it["start"] == i:
                consumer = loop.create_task(consume())
                await asyncio.sleep(0)
            self.clock.now = 1000.0 + ev[1] * TICK
            obj = None
            try:
                if ev[0] == "M":
                    obj = self.message(ev[2], ev[3], ev[4])
                    pipe.add_response(obj, is_last=bool(ev[5]))
                elif ev[0] == "X":
                    obj = self.make_exc(ev[2])
                    pipe.add_exception(obj)
                elif ev[0] == "OC":
                    req.observation.cancel()
                elif ev[0] == "RC":
                    req.response.cancel()
                    await asyncio.sleep(0)      # the future's done-callback runs from the loop
                else:
                    raise AssertionError(ev)
            except Exception as e:
                escaped.append((i, type(e).__name__))
            if not resp_seen and req.response.done():
                resp_seen = True
                if req.response.cancelled():
                    pass
                elif req.response.exception() is not None:
                    cur.insert(0, ("rexc", req.response.exception()))
                else:
                    cur.insert(0, ("resp", req.response.result()))
            if consumer is not None and it["mode"] != "lazy":
                for _ in range(3 if it["mode"] == "attentive" else 1):
                    await asyncio.sleep(0)
            groups.append(([self.delivery_str(d) for d in cur], state["ended"] > 0))
            raw.append((obj, list(cur), state["ended"]))
            cur.clear()
        if it is not None and consumer is None:
            consumer = loop.create_task(consume())
        if consumer is not None:
            for _ in range((2 + work) * (len(h["events"]) + 3)):
                if consumer.done():
                    break
                await asyncio.sleep(0)
            pending = not consumer.done()
            if pending:
                consumer.cancel()
            await asyncio.gather(consumer, return_exceptions=True)
            iter_out.append(("pending",) if pending else ("done",))
        if escaped:
            impl = "exception:" + ",".join(f"{i}:{n}" for i, n in escaped)
        else:
            impl = " ".join(f"{','.join(ds) or '.'}/{'E' if ended else '-'}"
                            for ds, ended in groups) or "-"
        return {"groups": groups, "impl": impl, "raw": raw, "iter": iter_out, "Error": self.error.Error,
                "escaped": escaped, "ended_calls": state["ended"],
                "response": ("cancelled" if req.response.cancelled() else
                             "done" if req.response.done() else "pending")}

    @staticmethod
    def exc_name(e):
        # (an exception *class* handed over in place of an instance is not the exception of that name)
        return "class:" + e.__name__ if isinstance(e, type) else type(e).__name__

    def delivery_str(self, d):
        if d[0] in ("resp", "cb"):
            m = d[1]
            obs = "-" if m.opt.observe is None else str(m.opt.observe)
            return f"{d[0]}:{int(m.code)}:{obs}:{int(m.payload.decode() or 0)}"
        if d[0] == "rexc":
            n = self.exc_name(d[1])
            return f"rexc:{EXC_NAMES.index(n)}" if n in EXC_NAMES else "rexc:?" + n
        if d[0] == "eb":
            n = self.exc_name(d[1])
            if n in ("NotObservable", "ObservationCancelled"):
                return "eb:" + n
            return f"eb:T{EXC_NAMES.index(n)}" if n in EXC_NAMES else "eb:?" + n
        return "stop"


def driver_line(reset, h):
    toks = []
    for ev in h["events"]:
        if ev[0] == "M":
            toks.append(f"M@{ev[1]}:{ev[2]}:{'-' if ev[3] is None else ev[3]}:{ev[4]}:{1 if ev[5] else 0}" +
                        (":1" if len(ev) > 6 and ev[6] else ""))
        elif ev[0] == "X":
            toks.append(f"X@{ev[1]}:{ev[2]}")
        else:
            toks.append(f"{ev[0]}@{ev[1]}")
    # (the model's `reset` is what the code reads from the request's tuning: the application's value where it set
    # one, the implementation's default -- read once from a default TransportTuning() -- otherwise)
    reset = tuned_reset_ticks(h.get("tuning"), reset)
    return f"C07 R {reset} {1 if h['observe'] else 0} " + " ".join(toks)


# ---------------------------------------------------------------------------------------------
# Oracle: RFC 7641 §3.4 and the termination clauses of the property, read over what was observed.
# Shares nothing with aiocoap or the Lean model; the constants 2^23 and 128 s are the RFC's.
# ---------------------------------------------------------------------------------------------

RFC_RESET_TICKS = 128 * (1 << 20)
HALF = 1 << 23


def rfc_fresher(v1, t1, v2, t2, reset=RFC_RESET_TICKS):
    """RFC 7641 §3.4: (V1 < V2 and V2 - V1 < 2^23) or (V1 > V2 and V1 - V2 > 2^23) or
    (T2 > T1 + 128 seconds) -- `reset` differs from 128 s only where the application's own tuning says so"""
    if v1 < v2 and v2 - v1 < HALF:
        return True
    if v1 > v2 and v1 - v2 > HALF:
        return True
    return t2 > t1 + reset


def is_notification(code, obs):
    """RFC 7641 §4.2 ("non-2.xx responses do not include an Observe Option") and the property's "a response
    without Observe option (as every non-2.xx one is)": a notification is a 2.xx response that carries an
    Observe option; every other response is the final one, whatever options a server put on it"""
    return obs is not None and 64 <= code < 96


def cancels(ev):
    return ev[0] == "M" and len(ev) > 6 and bool(ev[6])


def oracle_history(h, res):
    """-> (verdict, key) ; ("", None) when the property holds on this observation.

    One pass over the events with what the property says has to come out of each: the first response
    completes the request and establishes the observation or ends it as not observable; a notification is
    handed over iff fresher than the last one handed over; a response that is not a notification is handed
    over and followed by the cancellation signal; a transport failure is passed on; every end is signalled
    once, with an exception *instance*, and nothing follows it.  Application calls: an observation the
    application cancelled (`observation.cancel()` between events or from inside the callback it is handed a
    message in) is over — nothing is signalled to its listeners afterwards and nothing is raised into
    whoever delivers an event, while the response future still completes; `response.cancel()` before the
    first response ends the observation, once, with an error derived from `error.Error` (so that an
    `async for` over it ends), later it changes nothing."""
    evs = h["events"]
    Err = res["Error"]
    reset = tuned_reset_ticks(h.get("tuning"), RFC_RESET_TICKS)
    app_events = any(ev[0] in ("OC", "RC") or cancels(ev) for ev in evs) or bool(h.get("eb_cancels"))
    misused_at = set()
    for i, n in res["escaped"]:
        if evs[i][0] in ("M", "X"):
            if app_events:
                return (f"{n} raised into the deliverer of event {i} ({evs[i][0]})"), "escaped-after-cancel"
            return f"{n} escaped from the pipe into the transport at event {i}", "escaped"
        # raised in the application's own call (cancel() twice / on an observation that has ended / on a
        # request without observation): the application's misuse, nothing the property speaks about
        misused_at.add(i)
    phase = "first"            # "first" | "observing" | "over" (the request's pipe has ended)
    app_cancelled = False      # the application cancelled the observation
    resp_cancelled = False
    misuse = False
    last = None                # (V1, T1) of the last notification handed to the application
    errbacks = 0
    for i, (ev, (obj, dels, ended)) in enumerate(zip(evs, res["raw"])):
        kinds = [d[0] for d in dels]
        t = ev[1]
        for d in dels:
            if d[0] in ("eb", "rexc") and not isinstance(d[1], BaseException):
                return (f"event {i}: the application was handed {d[1]!r} as the error, which is not an "
                        "exception instance"), "error-not-instance"
        if i in misused_at:
            misuse = True
        if misuse:
            if app_cancelled and [k for k in kinds if k in ("cb", "eb")]:
                return f"delivery {kinds} after the application cancelled", "after-cancel"
            if ev[0] == "OC":
                app_cancelled = True
            continue
        if ev[0] == "OC":
            if dels:
                return f"observation.cancel() caused {kinds}", "after-cancel"
            app_cancelled = True
            continue
        if ev[0] == "RC":
            if phase != "first" or resp_cancelled:
                if dels:
                    return f"response.cancel() on a completed request caused {kinds}", "spurious"
                continue
            resp_cancelled = True
            ebs = [d for d in dels if d[0] == "eb"]
            if [k for k in kinds if k not in ("eb", "stop")]:
                return f"response.cancel() caused {kinds}", "response-cancelled"
            if h["observe"] and not app_cancelled:
                if len(ebs) != 1 or not isinstance(ebs[0][1], Err):
                    return ("request.response was cancelled before the first response: the observation has to "
                            "be ended, once, with an error derived from error.Error (whoever iterates over it "
                            f"waits for ever otherwise); errbacks got {[Bench.exc_name(d[1]) for d in ebs]}"
                            ), "response-cancelled"
                errbacks += 1
            elif ebs:
                return f"response.cancel() signalled {kinds} to a cancelled observation", "after-cancel"
            if not ended:
                return "request given up, but the pipe still has interest", "not-ended"
            phase = "over"
            continue
        # ---- pipe events
        if phase == "over":
            if dels:
                return (f"event {i} after the end still delivered {kinds}",
                        "after-cancel" if app_cancelled else "after-end")
            continue
        if not ended and (ev[0] == "X" or ev[5]):
            return f"pipe still has interest after the last event {i}", "not-ended"
        notif = ev[0] == "M" and is_notification(ev[2], ev[3])
        if phase == "first":
            # the first response completes the request
            if ev[0] == "M":
                if not dels or dels[0][0] != "resp" or dels[0][1] is not obj:
                    return "first response did not complete the response future", "first-response"
            elif not dels or dels[0][0] != "rexc" or dels[0][1] is not obj:
                return "transport failure did not fail the response future", "first-response"
            rest = dels[1:]
            rk = [d[0] for d in rest]
            goes_on = notif and not ev[5]
            if not h["observe"]:
                if [k for k in rk if k != "stop"]:
                    return f"plain request delivered {rk}", "plain-request"
                phase = "over"
                if not ended:
                    return "plain request still interested after its response", "not-ended"
            elif app_cancelled:
                if [k for k in rk if k in ("cb", "eb")]:
                    return f"delivery {rk} after the application cancelled", "after-cancel"
                if goes_on:
                    phase = "observing"      # the runner withdraws at the next event
                else:
                    phase = "over"
                    if not ended:
                        return "request over, but the pipe still has interest", "not-ended"
            elif ev[0] == "X":
                # "... and with a network error on transport failure"
                if len(rest) != 1 or rest[0][0] != "eb" or rest[0][1] is not obj:
                    got = [Bench.exc_name(d[1]) if d[0] == "eb" else d[0] for d in rest]
                    return (f"transport failure of the initial request: expected the observation "
                            f"to end with that error, got {got}"), "first-network-error"
                errbacks += 1
                phase = "over"
            elif not goes_on:
                ebs = [d for d in rest if d[0] == "eb"]
                if len(ebs) != 1 or Bench.exc_name(ebs[0][1]) != "NotObservable" or not isinstance(ebs[0][1], Err):
                    what = ("without Observe" if ev[3] is None else
                            f"with code {ev[2]} (not 2.xx) and Observe {ev[3]}" if not notif else "marked last")
                    return (f"first response {what}: expected exactly one NotObservable, got "
                            f"{[Bench.exc_name(d[1]) for d in ebs]}"), "not-observable"
                if "cb" in rk:
                    return "callback on a non-observable resource", "not-observable"
                errbacks += 1
                phase = "over"
                if not ended:
                    return "not observable, but the pipe still has interest", "not-ended"
            else:
                if rest:
                    return f"first notification caused {rk}", "first-response"
                phase = "observing"
                last = (ev[3], t)
            continue
        # ---- phase == "observing"
        if app_cancelled:
            if [k for k in kinds if k != "stop"]:
                return f"delivery {kinds} after the application cancelled", "after-cancel"
            if not ended:
                return "observation cancelled by the application, but the pipe still has interest", "not-ended"
            phase = "over"
            continue
        if ev[0] == "X":
            if len(dels) != 1 or dels[0][0] != "eb" or dels[0][1] is not obj:
                return f"transport failure during observation gave {kinds}", "network-error"
            errbacks += 1
            phase = "over"
            continue
        if not notif:
            # final response, then the cancellation signal
            what = "without Observe" if ev[3] is None else f"with code {ev[2]} (not 2.xx) and Observe {ev[3]}"
            if not dels or dels[0][0] != "cb" or dels[0][1] is not obj:
                return f"response {what}: not handed over as the final response ({kinds})", "final-response"
            if cancels(ev):
                if [k for k in kinds[1:] if k != "stop"]:
                    return (f"the application cancelled from inside the callback on the final response, then "
                            f"{kinds[1:]}"), "after-cancel"
                app_cancelled = True
            else:
                if (len(dels) < 2 or dels[1][0] != "eb" or Bench.exc_name(dels[1][1]) != "ObservationCancelled"
                        or not isinstance(dels[1][1], Err) or [k for k in kinds[2:] if k != "stop"]):
                    return f"response {what} gave {kinds}", "final-response"
                errbacks += 1
            phase = "over"
            if not ended:
                return "observation over, but the pipe still has interest", "not-ended"
            continue
        v2 = ev[3]
        fresh = rfc_fresher(last[0], last[1], v2, t, reset)
        cbs = [d for d in dels if d[0] == "cb"]
        if fresh:
            if len(cbs) != 1 or cbs[0][1] is not obj or kinds[0] != "cb":
                return (f"notification {v2}@{t} is fresher than the last delivered {last[0]}@{last[1]} "
                        "but was not handed over"), "fresh-dropped"
            last = (v2, t)
            kinds = kinds[1:]
        elif cbs:
            return (f"notification {v2}@{t} is not fresher than the last delivered {last[0]}@{last[1]} "
                    "but was handed over"), "stale-delivered"
        if fresh and cancels(ev):
            if [k for k in kinds if k != "stop"]:
                return f"the application cancelled from inside the callback, then {kinds}", "after-cancel"
            app_cancelled = True
            if ev[5]:
                phase = "over"
            continue
        if ev[5]:
            if kinds != ["eb"] or Bench.exc_name(dels[-1][1]) != "ObservationCancelled" \
                    or not isinstance(dels[-1][1], Err):
                return f"last notification gave {[d[0] for d in dels]}", "final-response"
            errbacks += 1
            phase = "over"
        elif kinds:
            return f"notification caused {kinds}", "spurious"
    total_eb = sum(1 for (_, dels, _) in res["raw"] for d in dels if d[0] == "eb")
    if total_eb > 1 or (not misuse and total_eb != errbacks):
        return f"{total_eb} termination signals", "end-count"
    if res["ended_calls"] > 1:
        return "interest ended twice", "end-count"
    if misuse or app_cancelled:
        return "", None     # what an iteration over a cancelled observation does is not claimed
    v, k = oracle_iterator(h, res)
    return v, k


def oracle_iterator(h, res):
    """`async for` over request.observation, whatever the consumer's pace: it is handed a
    subsequence of what the observation's callbacks got; a consumer that keeps iterating obtains the
    latest of them — in particular the final response — before it sees the end; the end is
    StopAsyncIteration for NotObservable / ObservationCancelled and the exception itself for a
    transport failure; nothing comes after the end.  An iteration opened late starts from the latest
    response the observation had at that moment."""
    it = h.get("iter")
    if not it or not h["observe"] or not res["iter"]:
        return "", None
    before = [d[1] for idx, (_, dels, _) in enumerate(res["raw"]) if idx < it["start"]
              for d in dels if d[0] == "cb"]
    after = [d[1] for idx, (_, dels, _) in enumerate(res["raw"]) if idx >= it["start"]
             for d in dels if d[0] == "cb"]
    fed = before[-1:] + after
    ebs = [d[1] for (_, dels, _) in res["raw"] for d in dels if d[0] == "eb"]
    kinds = [x[0] for x in res["iter"]]
    n_items = 0
    while n_items < len(kinds) and kinds[n_items] == "item":
        n_items += 1
    if "item" in kinds[n_items:]:
        return f"async iterator handed out an item after {kinds[n_items]}", "iter-after-end"
    items = [x[1] for x in res["iter"][:n_items]]
    tail = res["iter"][n_items:]
    # subsequence (by identity)
    j = 0
    for m in items:
        while j < len(fed) and fed[j] is not m:
            j += 1
        if j == len(fed):
            return "async iterator yielded something the callbacks did not get, or out of order", "iter-order"
        j += 1
    if it["mode"] == "attentive" and it["start"] == 0 and len(items) != len(fed):
        return (f"attentive async iterator got {len(items)} of {len(fed)} notifications"), "iter-lost"
    if fed and (not items or items[-1] is not fed[-1]):
        what = "final response" if fed[-1].opt.observe is None else "latest notification"
        return (f"the {what} ({int(fed[-1].code)}, Observe {fed[-1].opt.observe}) was never handed "
                f"to a consumer that kept iterating ({it['mode']}): got "
                f"{[(int(m.code), m.opt.observe) for m in items]} then {[x[0] for x in tail]}"), "iter-latest-lost"
    how = tail[0][0] if tail else "?"
    if not ebs:
        if how != "pending":
            return f"observation still running but the iterator ended ({how})", "iter-end"
        return "", None
    name = Bench.exc_name(ebs[0])
    if name in ("NotObservable", "ObservationCancelled"):
        if how != "stop":
            return f"observation ended with {name} but the iterator did not stop ({how})", "iter-end"
    else:
        if how != "raise" or Bench.exc_name(tail[0][1]) != name:
            return f"observation failed with {name} but the iterator did not raise it ({how})", "iter-end"
    return "", None
