"""Helpers to run the real aiocoap.oscore protect()/unprotect() in the harness.

`TransparentAead` is an AEAD whose "ciphertext" is plaintext || tag where the tag is a
16-byte digest of (key, nonce, aad, plaintext).  It is *not* secret, which is the point:
the harness can see which inputs the real code handed to the algorithm.  Its decrypt
accepts exactly the ciphertexts encrypt produced for the same (key, nonce, aad).
"""
import hashlib


def make(oscore):
    """Build the harness classes against the imported aiocoap.oscore module."""

    class TransparentAead(oscore.AeadAlgorithm):
        value = 10            # pretend to be AES-CCM-16-64-128 in the AAD / KDF info
        key_bytes = 16
        tag_bytes = 16
        iv_bytes = 13
        log = []

        @staticmethod
        def _tag(plaintext, aad, key, iv):
            h = hashlib.blake2b(digest_size=16)
            for part in (key, iv, aad, plaintext):
                h.update(len(part).to_bytes(4, "big"))
                h.update(part)
            return h.digest()

        @classmethod
        def encrypt(cls, plaintext, aad, key, iv):
            cls.log.append(("enc", bytes(plaintext), bytes(aad), bytes(key), bytes(iv)))
            return bytes(plaintext) + cls._tag(plaintext, aad, key, iv)

        @classmethod
        def decrypt(cls, ciphertext_and_tag, aad, key, iv):
            ct = bytes(ciphertext_and_tag)
            pt, tag = ct[:-16], ct[-16:]
            if len(ct) < 16 or tag != cls._tag(pt, aad, key, iv):
                raise oscore.ProtectionInvalid("Tag invalid")
            return pt

    class HarnessContext(oscore.CanProtect, oscore.CanUnprotect, oscore.SecurityContextUtils):
        """A plain (non-group, in-memory) security context."""

        def __init__(self, sender_id, recipient_id, id_context=None, secret=b"\x01" * 16,
                     salt=b"", window=32, alg=None):
            self.alg_aead = alg or TransparentAead()
            self.hashfun = oscore.hashfunctions["sha256"]
            self.sender_id = sender_id
            self.recipient_id = recipient_id
            self.id_context = id_context
            self.derive_keys(salt, secret)
            self.sender_sequence_number = 0
            self.recipient_replay_window = oscore.ReplayWindow(window, lambda: None)
            self.recipient_replay_window.initialize_empty()
            self.echo_recovery = None
            self.issued = []

        def post_seqnoincrease(self):
            self.issued.append(self.sender_sequence_number - 1)

    class PeerContext(HarnessContext):
        """The OTHER side of the context under test (never the implementation whose behaviour is judged): a peer
        may legitimately send the last partial IV 2^40-1, which aiocoap's own sender refuses to issue."""

        def new_sequence_number(self):
            n = self.sender_sequence_number
            self.sender_sequence_number += 1
            return n

    HarnessContext.Peer = PeerContext
    return TransparentAead, HarnessContext
