"""Real AES-CCM-16-64-128 through ctypes on the system libcrypto (EVP interface), used only by
the thorough tier of C11 to replay the RFC 8613 appendix C vectors through the real
protect()/unprotect().  `available()` is False when the library or the interface is unusable;
the check then records that this part was skipped."""
import ctypes
import ctypes.util

_lib = None
EVP_CTRL_AEAD_SET_IVLEN = 0x9
EVP_CTRL_AEAD_GET_TAG = 0x10
EVP_CTRL_AEAD_SET_TAG = 0x11


def _load():
    global _lib
    if _lib is not None:
        return _lib
    for name in ("libcrypto.so.3", ctypes.util.find_library("crypto")):
        if not name:
            continue
        try:
            lib = ctypes.CDLL(name)
        except OSError:
            continue
        lib.EVP_CIPHER_CTX_new.restype = ctypes.c_void_p
        lib.EVP_aes_128_ccm.restype = ctypes.c_void_p
        lib.EVP_CIPHER_CTX_free.argtypes = [ctypes.c_void_p]
        lib.EVP_EncryptInit_ex.argtypes = [ctypes.c_void_p] * 3 + [ctypes.c_char_p, ctypes.c_char_p]
        lib.EVP_DecryptInit_ex.argtypes = [ctypes.c_void_p] * 3 + [ctypes.c_char_p, ctypes.c_char_p]
        lib.EVP_CIPHER_CTX_ctrl.argtypes = [ctypes.c_void_p, ctypes.c_int, ctypes.c_int, ctypes.c_void_p]
        for f in (lib.EVP_EncryptUpdate, lib.EVP_DecryptUpdate):
            f.argtypes = [ctypes.c_void_p, ctypes.c_void_p, ctypes.POINTER(ctypes.c_int),
                          ctypes.c_char_p, ctypes.c_int]
        lib.EVP_EncryptFinal_ex.argtypes = [ctypes.c_void_p, ctypes.c_void_p, ctypes.POINTER(ctypes.c_int)]
        _lib = lib
        return lib
    return None


def available():
    try:
        return _load() is not None and encrypt(b"\0" * 16, b"\0" * 13, b"", b"x") is not None
    except Exception:
        return False


def encrypt(key, nonce, aad, pt, tag_len=8):
    lib = _load()
    ctx = lib.EVP_CIPHER_CTX_new()
    try:
        outl = ctypes.c_int(0)
        ok = lib.EVP_EncryptInit_ex(ctx, lib.EVP_aes_128_ccm(), None, None, None)
        ok &= lib.EVP_CIPHER_CTX_ctrl(ctx, EVP_CTRL_AEAD_SET_IVLEN, len(nonce), None)
        ok &= lib.EVP_CIPHER_CTX_ctrl(ctx, EVP_CTRL_AEAD_SET_TAG, tag_len, None)
        ok &= lib.EVP_EncryptInit_ex(ctx, None, None, key, nonce)
        ok &= lib.EVP_EncryptUpdate(ctx, None, ctypes.byref(outl), None, len(pt))
        if aad:
            ok &= lib.EVP_EncryptUpdate(ctx, None, ctypes.byref(outl), aad, len(aad))
        out = ctypes.create_string_buffer(len(pt) + 16)
        ok &= lib.EVP_EncryptUpdate(ctx, out, ctypes.byref(outl), pt, len(pt))
        n = outl.value
        ok &= lib.EVP_EncryptFinal_ex(ctx, ctypes.byref(out, n), ctypes.byref(outl))
        tag = ctypes.create_string_buffer(tag_len)
        ok &= lib.EVP_CIPHER_CTX_ctrl(ctx, EVP_CTRL_AEAD_GET_TAG, tag_len, tag)
        if not ok:
            return None
        return out.raw[:n] + tag.raw
    finally:
        lib.EVP_CIPHER_CTX_free(ctx)


def decrypt(key, nonce, aad, ct, tag_len=8):
    """returns the plaintext or None when the tag does not verify"""
    lib = _load()
    if len(ct) < tag_len:
        return None
    body, tag = ct[:-tag_len], ct[-tag_len:]
    ctx = lib.EVP_CIPHER_CTX_new()
    try:
        outl = ctypes.c_int(0)
        ok = lib.EVP_DecryptInit_ex(ctx, lib.EVP_aes_128_ccm(), None, None, None)
        ok &= lib.EVP_CIPHER_CTX_ctrl(ctx, EVP_CTRL_AEAD_SET_IVLEN, len(nonce), None)
        ok &= lib.EVP_CIPHER_CTX_ctrl(ctx, EVP_CTRL_AEAD_SET_TAG, tag_len, ctypes.cast(
            ctypes.create_string_buffer(tag, tag_len), ctypes.c_void_p))
        ok &= lib.EVP_DecryptInit_ex(ctx, None, None, key, nonce)
        ok &= lib.EVP_DecryptUpdate(ctx, None, ctypes.byref(outl), None, len(body))
        if aad:
            ok &= lib.EVP_DecryptUpdate(ctx, None, ctypes.byref(outl), aad, len(aad))
        if not ok:
            return None
        out = ctypes.create_string_buffer(len(body) + 16)
        r = lib.EVP_DecryptUpdate(ctx, out, ctypes.byref(outl), body, len(body))
        if r <= 0:
            return None
        return out.raw[:outl.value]
    finally:
        lib.EVP_CIPHER_CTX_free(ctx)
