"""Independent reading of property C08 (RFC 7641 section 4, server side) over what was observed of
the implementation: the datagrams on the simulated wire, the responses put on each request's pipe,
`update_observation_count` calls and cancellation-callback invocations of the test resource.

Shares no code with aiocoap or the Lean model.  `check(res)` returns a list of (key, verdict).

A datagram whose `sendmsg()` raised (record `f@`) is a transport error reported for that observer at that moment
(RFC 7252 has nothing to say about it; the property: "the registration ends when ... a transport error is reported
for the observer"): it ends every registration of that endpoint, and nothing of it was transmitted.  A response the
render task puts on a pipe that has ended (or that ends over it) reaches nobody; such records are flagged by the
runner and are not emissions.

Keys that are recorded as known findings (known_findings.json): `C08:queued-notification-sent-after-end` (a
notification first transmitted after the end), `C08:notification-retransmitted-after-end` (a notification first
transmitted before the end, retransmitted after it; never the registration's final notification itself),
`C08:reset-of-non-confirmable-notification-ignored`.
"""
import wire as W

MAX_TX = 5          # 1 + MAX_RETRANSMIT of RFC 7252


def _parse_wire(s):
    mt, code, mid, tok, obs, body = s.split(":")
    return {"mtype": mt, "code": int(code), "mid": int(mid), "token": tok,
            "obs": None if obs == "-" else int(obs), "body": int(body)}


class Reg:
    def __init__(self, sv, remote, req, tick):
        self.sv, self.remote, self.req, self.start = sv, remote, req, tick
        self.token = req["token"]
        self.observe = req["obs"] == 0
        self.accepted = False
        self.accept_tick = None
        self.emissions = []      # dicts tick code obs body last dg
        self.discarded = []      # the same for responses put on the pipe when it had ended / ended over them
        self.end = None          # (tick, cause)
        self.callbacks = []

    def end_at(self, tick, cause, seq=None):
        """seq: position in the log when the cause is an observed event (orders events of one tick)"""
        if self.end is None or (tick, seq if seq is not None else 1 << 60) < \
                (self.end[0], self.end[2] if self.end[2] is not None else 1 << 60):
            self.end = (tick, cause, seq)

    def after_end(self, tick, seq):
        te, _, qe = self.end
        return seq > qe if qe is not None else tick > te


def check(res):
    out = []
    log = res["log"]
    decline = set(res["script"].get("decline", []))
    regs = {}
    sends = []          # dicts: tick remote + wire fields, idx
    ins = []            # (tick, kind, fields)
    counts = []
    version = 0
    changes = []        # (tick, version, target sv or None, seq)
    renders = []
    failed = []         # sends that failed: dicts tick remote seq + wire fields
    for seq, e in enumerate(log):
        if e[0] == "in":
            _, tok, tick, ev = e
            ins.append((tick, ev, seq))
            if ev[0] in ("U", "T"):
                version += 1
                changes.append((tick, version, None if ev[0] == "U" else ev[2], seq))
            continue
        _, text, tick, sv = e[:4]
        discarded = len(e) > 4 and bool(e[4])
        k, rest = text.split(":", 1)
        if k.startswith("f@"):
            remote, w = rest.split(":", 1)
            d = _parse_wire(w)
            d.update(tick=tick, remote=int(remote), seq=seq)
            failed.append(d)
        elif k.startswith("s@"):
            remote, w = rest.split(":", 1)
            d = _parse_wire(w)
            d.update(tick=tick, remote=int(remote), idx=len(sends), seq=seq)
            sends.append(d)
        elif k == "d":
            s, remote, w = rest.split(":", 2)
            regs[int(s)] = Reg(int(s), int(remote), _parse_wire(w), tick)
            regs[int(s)].seq = seq
        elif k == "c":
            counts.append((tick, int(rest), sv, seq))
        elif k == "k":
            regs[int(rest)].callbacks.append(tick)
        elif k == "g":
            s, ver = rest.split(":")
            renders.append((tick, int(s), int(ver)))
        elif k == "n":
            s, code, obs, body, last = rest.split(":")
            (regs[int(s)].discarded if discarded else regs[int(s)].emissions).append({"tick": tick, "code": int(code),
                                           "obs": None if obs == "-" else int(obs),
                                           "body": int(body), "last": last == "1", "dg": None,
                                           "order": len(sends), "seq": seq})
    for sv, r in regs.items():
        r.accepted = r.observe and sv not in decline and res["accepts"].get(str(sv), False)

    # ---- first transmissions, retransmissions -------------------------------------------------------
    first = {}
    for d in sends:
        key = (d["remote"], d["mid"], d["mtype"])
        if key in first and d["mtype"] == "CON":
            f = first[key]
            same = all(f[x] == d[x] for x in ("code", "token", "obs", "body"))
            if not same:
                out.append(("C08:retransmission-differs",
                            f"retransmission of message {d['mid']} to observer {d['remote']} differs from its "
                            f"first transmission at tick {d['tick']}"))
            f["tx"].append(d["tick"])
            f["copies"].append(d)
            d["retx_of"] = f
        elif key in first and d["mtype"] in ("ACK", "RST"):
            d["dup_reply"] = True      # stored reply repeated for a duplicate request
        else:
            d["tx"] = [d["tick"]]
            d["copies"] = []
            first[key] = d
    firsts = [d for d in sends if "tx" in d]

    # ---- match what each pipe emitted with the datagram that carries it -------------------------------------
    for sv in sorted(regs):
        r = regs[sv]
        for em in r.emissions:
            for d in firsts:
                if d.get("em") is None and d["code"] == em["code"] and d["remote"] == r.remote \
                        and d["token"] == r.token and d["obs"] == em["obs"] and d["body"] == em["body"] \
                        and d["tick"] >= em["tick"] and d["idx"] >= em["order"] - 1:
                    d["em"] = (sv, em)
                    em["dg"] = d
                    break
    for d in firsts:
        if d["code"] >= 64 and d.get("em") is None:
            # a response on the wire that no pipe produced with this remote/token/content
            out.append(("C08:stray-response",
                        f"datagram mid={d['mid']} token={d['token']} obs={d['obs']} to observer {d['remote']} at "
                        f"tick {d['tick']} is not a response any request's pipe produced for that remote and token"))

    # ---- when does each registration end (RFC 7641 4.5, 7252 4.2, the property's list) ----------------------
    def acked_before(remote, mid, tick, after_seq, before_seq=1 << 60):
        """an ACK or RST for message `mid` reached us from `remote` after log position `after_seq`, before
        `tick` / `before_seq`"""
        return any(q > after_seq and t < tick and q < before_seq and ev[0] == "M" and ev[2] == remote
                   and ev[3] in ("ACK", "RST") and ev[5] == mid for t, ev, q in ins)

    giveups = []        # (tick, remote)
    for d in firsts:
        if d["mtype"] == "CON" and len(d["tx"]) >= MAX_TX:
            t4, t5 = d["tx"][MAX_TX - 2], d["tx"][MAX_TX - 1]
            tg = t5 + 2 * (t5 - t4)
            if not acked_before(d["remote"], d["mid"], tg + 1, d["seq"]):
                giveups.append((tg, d["remote"]))
    end_of_run = res["script"]["end"]
    for sv, r in regs.items():
        for em in r.emissions:
            # RFC 7641 4.2 / 3.2: a response without Observe, or not 2.xx, ends the registration (and is all a
            # plain request gets)
            if em["obs"] is None or not (64 <= em["code"] < 96):
                r.end_at(em["tick"], "final response", em["seq"])
                em["final"] = True
            if em["obs"] is not None and not (64 <= em["code"] < 96):
                out.append(("C08:observe-option-on-error",
                            f"registration {sv}: response {em['code']} carries Observe={em['obs']}"))
        for t, ev, q in ins:
            if q < r.seq:
                continue
            if ev[0] == "E" and ev[2] == r.remote:
                r.end_at(t, "transport error", q)
            if ev[0] == "X":
                r.end_at(t, "shutdown", q)
        for d in failed:
            if d["remote"] == r.remote and d["seq"] > r.seq:
                r.end_at(d["tick"], "transport error (send failed)", d["seq"])
        for t, ev, q in ins:
            if q < r.seq:
                continue
            if ev[0] == "M" and ev[3] == "RST" and ev[2] == r.remote:
                for em in r.emissions:
                    d = em["dg"]
                    if d is not None and d["mid"] == ev[5] and d["mtype"] in ("CON", "NON") and d["seq"] < q \
                            and not acked_before(r.remote, d["mid"], t + 1, d["seq"], q):
                        if d["mtype"] == "CON":
                            gone = [tg for tg, rem in giveups if rem == r.remote and tg <= t]
                            if not gone:
                                r.end_at(t, "reset", q)
                        else:
                            r.reset_non = (t, q)
        for sv2, r2 in regs.items():
            if sv2 > sv and r2.remote == r.remote and r2.token == r.token:
                r.end_at(r2.start, "new request on the token", r2.seq)
        for tg, rem in giveups:
            if rem == r.remote and tg >= r.start:
                r.end_at(tg, "notification timed out")

    # ---- per registration ---------------------------------------------------------------------------------------
    for sv in sorted(regs):
        r = regs[sv]
        who = f"registration {sv} (observer {r.remote}, token {r.token})"
        # token / remote
        for em in r.emissions:
            d = em["dg"]
            if d is not None and (d["remote"] != r.remote or d["token"] != r.token):
                out.append(("C08:wrong-token", f"{who}: a response went out with remote/token {d['remote']}/{d['token']}"))
        # Observe strictly increasing: on the pipe and in order of first transmission
        nums = [em["obs"] for em in r.emissions if em["obs"] is not None]
        if any(b <= a for a, b in zip(nums, nums[1:])):
            out.append(("C08:observe-not-increasing", f"{who}: Observe values {nums} are not strictly increasing"))
        wired = sorted((em["dg"]["idx"], em["obs"]) for em in r.emissions if em["dg"] is not None and em["obs"] is not None)
        wnums = [o for _, o in wired]
        if any(b <= a for a, b in zip(wnums, wnums[1:])):
            out.append(("C08:observe-not-increasing-on-wire",
                        f"{who}: Observe values in order of transmission {wnums} are not strictly increasing"))
        # nothing after the end.  On the pipe the end is the moment of its cause.  On the wire a registration
        # that ends by its own final response (no Observe option / not 2.xx) is over once that response has been
        # transmitted for the first time: what was handed to the message layer before it and leaves before it is
        # in order for the observer, and further copies of the final response itself are its retransmissions.
        fem = None
        if r.end is not None:
            te, cause, qe = r.end
            if cause == "final response":
                fem = next(em for em in r.emissions if em.get("final") and em["seq"] == qe)

            def wire_after(d):
                if fem is not None:
                    return fem["dg"] is not None and d["seq"] > fem["dg"]["seq"]
                return r.after_end(d["tick"], d["seq"])

            for em in r.emissions:
                d = em["dg"]
                if r.after_end(em["tick"], em["seq"]):
                    out.append(("C08:notification-after-end",
                                f"{who} ended at tick {te} ({cause}) but put a response on its pipe at tick {em['tick']}"))
                elif em is fem or d is None:
                    continue
                elif wire_after(d):
                    out.append(("C08:queued-notification-sent-after-end",
                                f"{who} ended at tick {te} ({cause}); the notification Observe={em['obs']} "
                                f"mid={d['mid']} handed to the message layer at tick {em['tick']} was first "
                                f"transmitted afterwards, at tick {d['tick']}"))
                else:
                    # first transmitted while the registration was alive: its retransmissions have to stop with it
                    late = [x["tick"] for x in d["copies"] if wire_after(x)]
                    if late:
                        out.append(("C08:notification-retransmitted-after-end",
                                    f"{who} ended at tick {te} ({cause}); its confirmable notification Observe="
                                    f"{em['obs']} mid={d['mid']}, first transmitted at tick {d['tick']} while the "
                                    f"registration was alive, was retransmitted {len(late)} more time(s) after the "
                                    f"end, at ticks {late}"))
        if getattr(r, "reset_non", None) is not None:
            tn, qn = r.reset_non
            later = [em for em in r.emissions if em["seq"] > qn]
            if later and (r.end is None or r.after_end(tn, qn) is False):
                out.append(("C08:reset-of-non-confirmable-notification-ignored",
                            f"{who}: the observer rejected a non-confirmable notification with Reset at tick "
                            f"{tn}, but {len(later)} more notification(s) followed"))
        # cancellation callback exactly once when ended, never otherwise
        want = 1 if (r.accepted and r.end is not None) else 0
        if len(r.callbacks) != want:
            out.append(("C08:callback-count",
                        f"{who} (accepted={r.accepted}, ended={r.end}): cancellation callback ran "
                        f"{len(r.callbacks)} time(s), expected {want}"))
        # latest state eventually notified.  A change concerns the registration from the moment it was accepted
        # (the resource reported the new count): `updated_state` reaches it, or the trigger names it.
        acc_seq = min((q for (_, _, s, q) in counts if s == sv), default=None)

        def outstanding():
            return any(d["mtype"] == "CON" and d["remote"] == r.remote and
                       not acked_before(r.remote, d["mid"], end_of_run + 1, d["seq"]) for d in firsts)

        if r.accepted and acc_seq is not None and r.end is None and sv not in res["final"]["suspended"] \
                and r.emissions:
            rel = [v for (t, v, target, q) in changes if q > acc_seq and (target is None or target == sv)]
            if rel and not outstanding():
                best = max((em["body"] for em in r.emissions if em["dg"] is not None and em["obs"] is not None),
                           default=-1)
                if best < rel[-1]:
                    out.append(("C08:latest-state-not-notified",
                                f"{who}: the last state change produced version {rel[-1]} but the newest notification "
                                f"transmitted carries version {best}"))
        # ... also when the registration ends by a last-marked notification: the observer was told that it is
        # registered (Observe in the first response), and the 2.xx response without Observe that concludes the
        # registration is the last thing it will ever get, so that one has to be as new as the last change made
        # before it was put on the pipe - be it rendered or the message the resource handed to trigger().  (An
        # unsuccessful final response tells the observer that its view is void; nothing is claimed about it.)
        if r.accepted and acc_seq is not None and fem is not None and fem is not r.emissions[0] \
                and r.emissions[0]["obs"] is not None and 64 <= fem["code"] < 96:
            rel = [v for (t, v, target, q) in changes
                   if acc_seq < q < fem["seq"] and (target is None or target == sv)]
            if rel and fem["body"] < rel[-1]:
                out.append(("C08:final-notification-stale",
                            f"{who}: ended by a final notification put on the pipe at tick {fem['tick']} that "
                            f"carries version {fem['body']}, but the last state change before it produced version "
                            f"{rel[-1]}; the registration is over, so the latest state is never sent"))
            gone = any(ev[0] == "X" or (ev[0] == "E" and ev[2] == r.remote) for _, ev, q in ins) or \
                any(rem == r.remote for _, rem in giveups)
            if fem["dg"] is None and not gone and not outstanding():
                out.append(("C08:final-notification-not-sent",
                            f"{who}: the final notification put on the pipe at tick {fem['tick']} was never "
                            f"transmitted although every confirmable message to the observer was acknowledged"))

        # "the registration ends when ... a notification is ... marked last": a change announced to this
        # registration with is_last while it was alive has to end it (once the renders involved have returned)
        if r.accepted and acc_seq is not None and r.end is None and sv not in res["final"]["suspended"] \
                and sv not in res["script"].get("slow_add", []):
            marked = [t for (t, ev, q) in ins if ev[0] == "T" and ev[2] == sv and ev[4] and q > acc_seq]
            if marked:
                out.append(("C08:last-marked-trigger-did-not-end",
                            f"{who}: trigger(..., is_last=True) at tick {marked[0]} but the registration never ended"))

    # ---- the observer count ------------------------------------------------------------------------------------------
    prev = 0
    for tick, n, sv, _ in counts:
        if abs(n - prev) != 1:
            out.append(("C08:count-step", f"update_observation_count({n}) after {prev} at tick {tick}"))
        prev = n
    alive = [r for r in regs.values() if r.accepted and r.end is None]
    if res["final"]["observations"] != len(alive) or (counts and prev != len(alive)) or (not counts and alive):
        out.append(("C08:count-not-restored",
                    f"{len(alive)} accepted registration(s) still alive at the end, but the resource's set holds "
                    f"{res['final']['observations']} and the last reported count is {prev}"))
    live_keys = sorted((r.remote, "" if r.token == "-" else r.token) for r in regs.values()
                       if r.end is None and not _finished_plain(r))
    if sorted(tuple(x) for x in res["final"]["incoming"]) != live_keys:
        out.append(("C08:incoming-requests-leak",
                    f"unfinished incoming requests at the end: {res['final']['incoming']}, expected {live_keys}"))
    return out


def _finished_plain(r):
    return any(em.get("final") for em in r.emissions)
