"""The real aiocoap UDP stack over a fake socket (no network, no real time).

`await make_context(loop, site=None)` returns (ctx, net): the context is created by the
real `Context.create_client_context/create_server_context` with the udp6 transport; only
`MessageInterfaceUDP6.prepare_transport_endpoints` is replaced so that the real
`MessageInterfaceUDP6` + real `RecvmsgSelectorDatagramTransport` sit on a `FakeSocket`.
`net.sent` records (tick, dest sockaddr, bytes); `net.inject(data, src)` delivers a datagram
through `datagram_msg_received`; `net.inject_error(errno, src)` through the error queue.
"""
import asyncio
import os
import socket
import struct

from vloop import ticks

LOCAL_UNICAST = "2001:db8::100"
LOCAL_MULTICAST = "ff02::fd"
LOCAL_MULTICAST_V4 = "::ffff:224.0.1.187"   # IPv4 all-CoAP-nodes group as seen on a dual-stack socket


def peer(n, port=5683):
    return ("2001:db8::%x" % (n + 1), port, 0, 0)


class FakeSocket:
    def __init__(self, net):
        self.net = net
        self._r, self._w = os.pipe()
        self.closed = False

    def fileno(self):
        return self._r

    def setblocking(self, flag):
        pass

    def bind(self, addr):
        self.bound = addr

    def getsockname(self):
        return ("::", 5683, 0, 0)

    def setsockopt(self, *a):
        pass

    def recvmsg(self, *a):
        raise BlockingIOError()

    def sendmsg(self, buffers, ancdata, flags, address):
        data = b"".join(bytes(b) for b in buffers)
        self.net._sent(address, data, ancdata)

    def close(self):
        if not self.closed:
            self.closed = True
            os.close(self._r)
            os.close(self._w)


class Net:
    def __init__(self, loop):
        self.loop = loop
        self.sent = []           # (tick, dest sockaddr tuple, bytes)
        self.on_send = None      # optional callback(tick, dest, data)
        self.send_errors = {}    # dest sockaddr -> OSError to raise on sendmsg
        self.failed_sends = []   # (tick, dest) of sendmsg calls that raised
        self.mint = None
        self.sock = FakeSocket(self)

    def _sent(self, address, data, ancdata):
        if tuple(address) in self.send_errors:
            self.failed_sends.append((self.loop.now_ticks(), tuple(address)))
            raise self.send_errors[tuple(address)]
        rec = (self.loop.now_ticks(), tuple(address), data)
        self.sent.append(rec)
        if self.on_send:
            self.on_send(*rec)

    def inject(self, data, src, local=LOCAL_UNICAST):
        pktinfo = struct.pack("16sI", socket.inet_pton(socket.AF_INET6, local), 0)
        self.mint.datagram_msg_received(
            data, [(socket.IPPROTO_IPV6, socket.IPV6_PKTINFO, pktinfo)], 0, src)

    def inject_error(self, errno_value, src):
        from aiocoap.util import socknumbers
        # struct sock_extended_err: IbbbbII
        ee = struct.pack("IbbbbII", errno_value, 2, 0, 0, 0, 0, 0)
        self.mint.datagram_errqueue_received(
            b"", [(socket.IPPROTO_IPV6, socknumbers.IPV6_RECVERR, ee)],
            socknumbers.MSG_ERRQUEUE, src)


async def make_context(loop, site=None, server=None):
    """server=None: a server context iff a site is given."""
    import aiocoap
    from aiocoap.transports import udp6
    from aiocoap.util.asyncio.recvmsg import create_recvmsg_datagram_endpoint

    net = Net(loop)

    async def fake_prepare(cls, *, params, log, loop):
        transport, protocol = await create_recvmsg_datagram_endpoint(
            loop, lambda: cls(bind=("::", 0, 0, 0), log=log, loop=loop), sock=net.sock)
        await protocol.ready
        net.mint = protocol
        yield protocol

    orig = udp6.MessageInterfaceUDP6.__dict__["prepare_transport_endpoints"]
    udp6.MessageInterfaceUDP6.prepare_transport_endpoints = classmethod(fake_prepare)
    try:
        if site is not None or server:
            ctx = await aiocoap.Context.create_server_context(site, transports=["udp6"], loop=loop)
        else:
            ctx = await aiocoap.Context.create_client_context(transports=["udp6"], loop=loop)
    finally:
        udp6.MessageInterfaceUDP6.prepare_transport_endpoints = orig
    return ctx, net


async def make_server_context_multi(loop, site, n):
    """A server context bound to `n` addresses (what `bind=` with a host name resolving to several addresses, or a
    list of them, gives): the real `create_server_context` is handed `n` endpoints, each on a fake socket of its own.
    Returns (ctx, [net, ...])."""
    import aiocoap
    from aiocoap.transports import udp6
    from aiocoap.util.asyncio.recvmsg import create_recvmsg_datagram_endpoint

    nets = [Net(loop) for _ in range(n)]

    async def fake_prepare(cls, *, params, log, loop):
        for net in nets:
            transport, protocol = await create_recvmsg_datagram_endpoint(
                loop, lambda: cls(bind=("::", 0, 0, 0), log=log, loop=loop), sock=net.sock)
            await protocol.ready
            net.mint = protocol
            yield protocol

    orig = udp6.MessageInterfaceUDP6.__dict__["prepare_transport_endpoints"]
    udp6.MessageInterfaceUDP6.prepare_transport_endpoints = classmethod(fake_prepare)
    try:
        ctx = await aiocoap.Context.create_server_context(site, transports=["udp6"], loop=loop)
    finally:
        udp6.MessageInterfaceUDP6.prepare_transport_endpoints = orig
    return ctx, nets


def remote_for(net, src):
    """UDP6EndpointAddress for a peer sockaddr, bound to this context's interface."""
    from aiocoap.transports.udp6 import UDP6EndpointAddress
    return UDP6EndpointAddress(src, net.mint)


class Pins:
    """Pins the random draws of messagemanager/tokenmanager; restores on exit."""

    def __init__(self, mid=0x1000, token=0x20, timeout_extra_ticks=None):
        self.mid, self.token = mid, token
        self.timeout_extra = timeout_extra_ticks   # callable(lo, hi) -> seconds, or None = lo
        self.uniform_calls = []

    def __enter__(self):
        import aiocoap.messagemanager as mm
        import aiocoap.tokenmanager as tm
        import random as _random

        outer = self

        class R:
            def __getattr__(self, name):
                return getattr(_random, name)

            def randint(self, a, b):
                raise AssertionError("unexpected randint")

            def uniform(self, lo, hi):
                v = lo if outer.timeout_extra is None else outer.timeout_extra(lo, hi)
                outer.uniform_calls.append((lo, hi, v))
                return v

        class RM(R):
            def randint(self, a, b):
                return outer.mid

        class RT(R):
            def randint(self, a, b):
                return outer.token

        self._saved = (mm.random, tm.random)
        mm.random, tm.random = RM(), RT()
        return self

    def __exit__(self, *a):
        import aiocoap.messagemanager as mm
        import aiocoap.tokenmanager as tm
        mm.random, tm.random = self._saved
