"""Virtual-clock asyncio event loop.

`time()` is a stored value in ticks of 2**-20 s (exactly representable doubles, exact
sums).  When nothing is ready, the clock jumps to the earliest non-cancelled timer, so
hours of protocol time run in milliseconds and deterministically.
"""
import asyncio
import heapq

TICK = 2.0 ** -20
TICKS_PER_S = 1 << 20


def q(t):
    """quantise seconds to the tick grid (round half up)"""
    return int(t * TICKS_PER_S + 0.5) * TICK


def ticks(t):
    return int(round(t * TICKS_PER_S))


class VirtualLoop(asyncio.SelectorEventLoop):
    def __init__(self):
        super().__init__()
        self._vnow = 1000.0  # arbitrary origin, a tick multiple
        self.exceptions = []          # what reached the loop's exception handler
        self.set_exception_handler(self._record_exception)
        self.max_time = None          # safety stop (virtual seconds)

    def _record_exception(self, loop, context):
        self.exceptions.append(context)

    def time(self):
        return self._vnow

    def now_ticks(self):
        return ticks(self._vnow - 1000.0)

    def call_at(self, when, callback, *args, context=None):
        return super().call_at(q(when), callback, *args, context=context)

    def _run_once(self):
        if not self._ready and self._scheduled:
            # drop cancelled heads (what the stock loop does as well), then jump
            while self._scheduled and self._scheduled[0]._cancelled:
                h = heapq.heappop(self._scheduled)
                h._scheduled = False
                self._timer_cancelled_count -= 1 if self._timer_cancelled_count > 0 else 0
            if self._scheduled:
                when = self._scheduled[0]._when
                if when > self._vnow:
                    if self.max_time is not None and when - 1000.0 > self.max_time:
                        raise RuntimeError("virtual time budget exceeded (runaway timers?)")
                    self._vnow = when
        super()._run_once()


def run(coro_fn, *args, max_time=None, **kw):
    """Run `coro_fn(loop, *args)` to completion on a fresh virtual loop; returns (result, loop)."""
    loop = VirtualLoop()
    loop.max_time = max_time
    asyncio.set_event_loop(loop)
    try:
        result = loop.run_until_complete(coro_fn(loop, *args, **kw))
        # let cancellations settle
        loop.run_until_complete(asyncio.sleep(0))
        return result, loop
    finally:
        try:
            pending = [t for t in asyncio.all_tasks(loop) if not t.done()]
            for t in pending:
                t.cancel()
            if pending:
                loop.run_until_complete(asyncio.gather(*pending, return_exceptions=True))
        finally:
            asyncio.set_event_loop(None)
            loop.close()
