"""C07 level (d): block-wise NOTIFICATIONS through the default API (`Context.request()` = `BlockwiseRequest`).

The real `Context` + `TokenManager` + `Request` + `BlockwiseRequest` over a token interface of the harness (no
message layer, no sockets).  The harness plays a server with a *current representation*: a notification is block 0
of the current representation (Observe n, ETag of that representation, Block2 0/M when it needs several blocks);
the follow-up block requests the client sends are answered from whatever the current representation is at that
moment -- so a state change between two blocks shows as a changed ETag, exactly as with a real server -- or in one
of the ways listed under HOWS.

A scenario (JSON-able):
    {"consumer": "callbacks" | "iter", "work": k,
     "cancel_at": rep | None,            # callbacks: observation.cancel() from inside the callback on that body
     "eb_cancels": bool,                 # callbacks: the errback calls observation.cancel()
     "reps": [[nblocks, tail], ...],     # representation r: nblocks-1 full blocks + tail bytes
     "steps": [["N", rep, obs]           # the resource changes to `rep`; the notification (Observe obs) arrives
               | ["S", rep]              # the resource changes; the notification is lost / still under way
               | ["serve"]               # answer the outstanding block requests (and those that follow) until the
                                         # client stops asking, each reply as the next entry of "hows" says
               | ["F", code, obs|None]   # a response that is no notification arrives on the observation's token
               | ["X", k]                # transport failure (k as in c07_app: 1 ConRetransmitsExceeded, 2 NetworkError)
               | ["RC"]                  # the application cancels request.response (only before the first "serve")
               | ["OC"]                  # the application calls request.observation.cancel() (it may still want the
                                         # response): as the very first step = before the first response arrives
               | ["O", when, remote]     # a further request of the application (plain GET, never answered) to the
                                         # observation's peer (0) or another one (1) is registered
               | ["X", k, 1]             # transport failure reported for the OTHER peer
               | ["T", n]],              # n event-loop iterations pass
     "cancel_on_response": bool,         # the application only wanted the response: a task of it does
                                         # `await request.response; request.observation.cancel()`
     "tuning": kind,                     # the request's transport_tuning as the application passes it (c07_pipe.TUNINGS)
     "hows": ["ok" | "etag" | "short" | "wrongnum" | "err" | "errb2" | "noblock2" | "neterr", ...]}
Representation 0 answers the request itself (Observe 1).  HOWS -- "ok": the block of the current representation;
"etag": that block under another ETag; "short": one byte missing although more blocks follow; "wrongnum": the block
after the one asked for; "err": 4.04 without Block2; "errb2": 4.04 carrying the Block2 option; "noblock2": the
block's bytes in a 2.05 without Block2 option; "neterr": no reply, the transport reports a network error for the peer.

Besides the application's view (callbacks / errbacks / `async for`, response future), the run records what
`BlockwiseRequest._run_observation` was given and what came of it -- through a wrapper the harness installs on the
class attribute `BlockwiseRequest._complete_by_requesting_block2` for the time of the run and an errback on the
lower request's observation: the lower events `I<rep>:<ok|skip|net>` / `stop` / `raise` and the upper deliveries
that followed each.  That trace is compared with the Lean model of the loop (`Aiocoap.Observe.Upper`, driver
`C07 U`); the oracle judges the application's view.
"""
import asyncio

from c07_pipe import rfc_fresher, is_notification, make_tuning

SZX = 2                 # 64-byte blocks
BS = 16 << SZX
HOWS = ["ok", "etag", "short", "wrongnum", "err", "errb2", "noblock2", "neterr"]
EXC = {1: "ConRetransmitsExceeded", 2: "NetworkError"}


def body_of(rep, spec):
    n = (spec[0] - 1) * BS + spec[1]
    return bytes((rep * 37 + i * 7 + 1) % 251 for i in range(n))


class FakeRemote:
    is_multicast = False
    is_multicast_locally = False
    hostinfo = "peer.example"
    hostinfo_local = "me.example"
    scheme = "coap"
    maximum_block_size_exp = 6
    maximum_payload_size = 1124
    blockwise_key = "k"
    uri_base = "coap://peer.example"

    def as_response_address(self):
        return self


class FakeTokenInterface:
    def __init__(self):
        self.sent = []

    def send_message(self, message, messageerror_monitor):
        self.sent.append(message)
        return None

    async def recognize_remote(self, message):
        return True

    async def determine_remote(self, message):
        return None

    async def shutdown(self):
        pass


def _name(e, Error):
    if isinstance(e, type):
        return "class:" + e.__name__
    if not isinstance(e, Error):
        return "not-an-aiocoap-error:" + type(e).__name__
    return type(e).__name__


async def run_scenario(aiocoap, sc):
    A = aiocoap
    import aiocoap.protocol as P
    from aiocoap import error
    from aiocoap.tokenmanager import TokenManager
    from aiocoap.optiontypes import BlockOption
    loop = asyncio.get_running_loop()
    loop_errors = []
    old = loop.get_exception_handler()
    # ("... exception was never retrieved" is what the garbage collector reports for a future nobody asked -- at whatever
    # moment it runs, possibly for a future of an earlier case; it is no exception raised in the event loop)
    loop.set_exception_handler(lambda l, c: "was never retrieved" in str(c.get("message")) or loop_errors.append(
        "%s: %r" % (c.get("message"), c.get("exception"))))
    ctx = A.Context(loop=loop, serversite=None)
    tman = TokenManager(ctx)
    ti = FakeTokenInterface()
    tman.token_interface = ti
    ctx.request_interfaces.append(tman)
    remote = FakeRemote()
    remotes = [remote, FakeRemote()]
    remotes[1].hostinfo, remotes[1].uri_base, remotes[1].blockwise_key = "other.example", "coap://other.example", "o"
    others = []
    reps = sc["reps"]
    bodies = {body_of(r, spec): r for r, spec in enumerate(reps)}

    def rep_of(payload):
        """which representation a (partial) body belongs to, by its first block"""
        for b, r in bodies.items():
            if b[:BS] == bytes(payload)[:BS]:
                return r
        return -1

    # ---- what _run_observation is given and what comes of it (for the correspondence with the model)
    trace = []          # ["I<rep>:ok" | "I<rep>:skip" | "I<rep>:net" | "stop" | "raise", [upper deliveries...]]
    calls = {"n": 0}
    orig = P.BlockwiseRequest.__dict__["_complete_by_requesting_block2"]

    async def wrapper(cls, protocol, request_to_repeat, initial_response, log):
        calls["n"] += 1
        mine = calls["n"] > 1           # the first call assembles the body of the response itself
        rep = rep_of(initial_response.payload) if initial_response.code == A.CONTENT else -1
        tag = ("F%d" % int(initial_response.code)) if rep < 0 else "I%d" % rep
        try:
            r = await orig.__func__(cls, protocol, request_to_repeat, initial_response, log)
        except (error.NetworkError, error.LibraryShutdown):
            if mine:
                trace.append([tag + ":net", []])
            raise
        except error.Error:
            if mine:
                trace.append([tag + ":skip", []])
            raise
        if mine:
            # what is handed over is what the fetch returned (a 4.04 or a bare 2.05 when the server answered a
            # block request with a complete response): labelled like the application's listeners label it
            full = bodies.get(bytes(r.payload), None)
            tag = "I%d" % full if full is not None and r.code == A.CONTENT else "F%d" % int(r.code)
            trace.append([tag + ":ok", []])
        return r

    lower = {}
    orig_request = ctx.request

    def request(msg, handle_blockwise=True):
        r = orig_request(msg, handle_blockwise=handle_blockwise)
        if not handle_blockwise and "obs" not in lower and getattr(r, "observation", None) is not None:
            lower["obs"] = r.observation
            # (an additional errback on the lower observation: how the lower iteration is going to end)
            r.observation.register_errback(lambda e: lower.__setitem__("end", e), _suppress_deprecation=True)
        return r

    ctx.request = request
    P.BlockwiseRequest._complete_by_requesting_block2 = classmethod(wrapper)

    msg = A.Message(code=A.GET, observe=0, uri_path=("obs",), transport_tuning=make_tuning(A, sc.get("tuning")))
    msg.remote = remote
    seen = []
    escaped = []
    state = {"cur": 0, "answered": 0, "hows": list(sc.get("hows") or []), "served": [], "matched": []}

    def app_cancel():
        # the application's own call; what it raises is raised into the application (a second cancel() is a no-op
        # since fix 7ecf556: `C07_cancel_again_is_noop` -- compared through the trace, not judged by the oracle)
        try:
            req.observation.cancel()
        except Exception as e:
            state.setdefault("app_raised", []).append(type(e).__name__)

    def start_other(rem):
        m2 = A.Message(code=A.GET, uri_path=("other", str(len(others))))
        m2.remote = remotes[rem]
        r2 = orig_request(m2, handle_blockwise=False)
        r2.response.add_done_callback(lambda f: f.cancelled() or f.exception())
        others.append([rem, r2, len(ti.sent)])
        state["served"].append(("O", rem))

    try:
        for st in sc["steps"]:
            if st[0] == "O" and st[1] == -1:
                start_other(st[2])        # registered before the observing request: that one is the newest entry
        req = ctx.request(msg)
        Error = error.Error
        cancel_at = sc.get("cancel_at")

        def trace_callback(m):
            # (listeners of the harness on the application's observation, for the comparison with the model)
            r = bodies.get(bytes(m.payload), None)
            d = "cb:%s" % (r if r is not None and int(m.code) == 69 else "x%d" % int(m.code))
            if trace:
                trace[-1][1].append(d)
            else:
                trace.append(["-", [d]])

        def trace_errback(e):
            d = "eb:" + _name(e, Error)
            le = lower.get("end")
            if trace and (trace[-1][0].endswith(":net") or le is None):
                trace[-1][1].append(d)
            elif le is not None:
                # the lower iteration has ended: that is the event the loop got
                trace.append(["stop" if isinstance(le, (error.NotObservable, error.ObservationCancelled))
                              else "raise", [d]])
            else:
                trace.append(["-", [d]])

        def app_callback(m):
            r = bodies.get(bytes(m.payload), None)
            seen.append(("item", int(m.code), r if r is not None else bytes(m.payload)))
            if r is not None and r == cancel_at:
                if trace:
                    trace[-1][0] += ":c"
                state["served"].append(("OC",))       # (where in the server's log the application cancelled)
                req.observation.cancel()

        def app_errback(e):
            seen.append(("eb", _name(e, Error)))
            if sc.get("eb_cancels"):
                req.observation.cancel()

        req.observation.register_callback(trace_callback, _suppress_deprecation=True)
        req.observation.register_errback(trace_errback, _suppress_deprecation=True)
        if sc["consumer"] == "callbacks":
            req.observation.register_callback(app_callback, _suppress_deprecation=True)
            req.observation.register_errback(app_errback, _suppress_deprecation=True)
        work = sc.get("work", 0)

        async def consume():
            try:
                async for m in req.observation:
                    r = bodies.get(bytes(m.payload), None)
                    seen.append(("item", int(m.code), r if r is not None else bytes(m.payload)))
                    for _ in range(work):
                        await asyncio.sleep(0)
                seen.append(("stop",))
            except Exception as e:
                seen.append(("raise", _name(e, Error)))

        async def turn(n):
            for _ in range(n):
                await asyncio.sleep(0)

        def block_response(token, num, how, observe=None):
            rep = state["cur"]
            body = body_of(rep, reps[rep])
            if observe is None:
                state["served"].append(("B", rep, num, how))
            if how == "err":
                m = A.Message(code=A.NOT_FOUND, payload=b"gone")
                m.token, m.remote = token, remote
                return m
            chunk = body[num * BS:(num + 1) * BS]
            more = (num + 1) * BS < len(body)
            etag = b"e%d" % rep
            if how == "etag":
                etag = b"other"
            num_out = num + 1 if how == "wrongnum" else num
            if how == "short" and more:
                chunk = chunk[:-1]
            m = A.Message(code=A.NOT_FOUND if how == "errb2" else A.CONTENT, payload=chunk)
            m.opt.etag = etag
            if how != "noblock2" and (observe is None or len(body) > BS):
                m.opt.block2 = BlockOption.BlockwiseTuple(num_out, more, SZX)
            if observe is not None:
                m.opt.observe = observe
            m.token, m.remote = token, remote
            return m

        def deliver(m, on_token=False, first=False):
            try:
                ok = tman.process_response(m)
            except Exception as e:
                escaped.append(type(e).__name__)
                ok = None
            if on_token:
                # (whether the token manager knew the token: what makes the message layer acknowledge or reject)
                state["matched"].append([-1 if first else len(state["served"]) - 1, ok])
            return ok

        async def serve():
            for _ in range(64):
                await turn(6)
                if len(ti.sent) <= state["answered"]:
                    return
                rq = ti.sent[state["answered"]]
                state["answered"] += 1
                if rq.opt.uri_path[:1] == ("other",):
                    continue                    # the application's other requests are never answered
                num = rq.opt.block2.block_number if rq.opt.block2 is not None else 0
                how = state["hows"].pop(0) if state["hows"] else "ok"
                if how == "neterr":
                    state["served"].append(("B", state["cur"], num, how))
                    try:
                        tman.dispatch_error(error.NetworkError("harness"), remote)
                    except Exception as e:
                        escaped.append(type(e).__name__)
                    continue
                deliver(block_response(rq.token, num, how))

        await turn(6)
        first = next(m for m in ti.sent if m.opt.observe == 0)
        state["answered"] = ti.sent.index(first) + 1
        consumer = None
        if sc.get("cancel_on_response"):
            async def only_the_response():
                try:
                    await req.response
                except Exception:
                    return
                state["served"].append(("OC",))
                seen.append(("oc",))
                # (the waiter of the response future runs before the task `_run` has just created for the loop)
                state["start"] = "^c"
                app_cancel()
            only = loop.create_task(only_the_response())
        if sc["consumer"] == "iter":
            consumer = loop.create_task(consume())
            await turn(2)
        steps = list(sc["steps"])
        gave_up = False
        if steps and steps[0] == ["RC"]:
            steps.pop(0)
            state["served"].append(("RC",))
            gave_up = req.response.cancel() or gave_up
            await turn(4)
        elif steps and steps[0] == ["OC"]:
            steps.pop(0)
            state["served"].append(("OC",))
            seen.append(("oc",))
            state["start"] = "^c"
            app_cancel()
            await turn(4)
        while steps and steps[0][0] == "O" and steps[0][1] <= 0:
            o = steps.pop(0)
            if o[1] == 0:
                start_other(o[2])             # while the observing request awaits its first response
                await turn(2)
        deliver(block_response(first.token, 0, "ok", observe=1), on_token=True, first=True)
        for st in steps:
            if st[0] in ("N", "F", "X"):
                state["served"].append(tuple(st))
            if st[0] == "N":
                state["cur"] = st[1]
                deliver(block_response(first.token, 0, "ok", observe=st[2]), on_token=True)
                await turn(4)
            elif st[0] == "OC":
                state["served"].append(("OC",))
                seen.append(("oc",))
                if not req.observation.cancelled:
                    if not req.response.done():
                        state["start"] = "^c"        # the response is not complete: the loop's task does not exist yet
                    else:
                        trace.append(["cancel", []])
                app_cancel()
                await turn(4)
            elif st[0] == "O":
                if st[1] != -1:
                    start_other(st[2])
                    await turn(2)
            elif st[0] == "S":
                state["cur"] = st[1]
            elif st[0] == "serve":
                await serve()
            elif st[0] == "F":
                m = A.Message(code=A.Code(st[1]), payload=b"final")
                if st[2] is not None:
                    m.opt.observe = st[2]
                m.token, m.remote = first.token, remote
                deliver(m, on_token=True)
                await turn(4)
            elif st[0] == "FB":
                # a final response (2.05 without Observe: the server drops the observer) whose body is block-wise
                state["cur"] = st[1]
                state["served"].append(("F", 69, None, st[1]))
                m = block_response(first.token, 0, "ok", observe=0)
                m.opt.observe = None
                deliver(m, on_token=True)
                await turn(4)
            elif st[0] == "X":
                try:
                    tman.dispatch_error({1: error.ConRetransmitsExceeded(), 2: error.NetworkError("harness")}[st[1]],
                                        remotes[st[2] if len(st) > 2 else 0])
                except Exception as e:
                    escaped.append(type(e).__name__)
                await turn(4)
            elif st[0] == "RC":
                # (True only while the response is still pending, e.g. its body is still being fetched)
                state["served"].append(("RC",))
                gave_up = req.response.cancel() or gave_up
                await turn(4)
            elif st[0] == "T":
                await turn(st[1])
            else:
                raise AssertionError(st)
        await serve()
        await turn(30 + 4 * work * (len(steps) + 2))
        resp = None
        if req.response.done() and not req.response.cancelled():
            e = req.response.exception()
            resp = ("raise", _name(e, Error)) if e is not None else \
                ("resp", int(req.response.result().code), bodies.get(bytes(req.response.result().payload), None))
        elif req.response.cancelled():
            resp = ("cancelled",)
        pending = None
        if consumer is not None:
            pending = not consumer.done()
            if pending:
                consumer.cancel()
            await asyncio.gather(consumer, return_exceptions=True)
        snapshot = list(seen)
        if sc.get("cancel_on_response") and not only.done():
            only.cancel()
        other_states = []
        for rem, r2, _ in others:
            f = r2.response
            other_states.append([rem, "pending" if not f.done() else "cancelled" if f.cancelled() else
                                 "raise:" + _name(f.exception(), Error) if f.exception() is not None else "resp"])
        outstanding = len([m for m in ti.sent[state["answered"]:] if m.opt.uri_path[:1] != ("other",)])
        lower_end = lower.get("end")
        if lower_end is not None:
            trace_end = "stop" if isinstance(lower_end, (error.NotObservable, error.ObservationCancelled)) else "raise"
        else:
            trace_end = None
        trace_snapshot = [[t, list(d)] for t, d in trace]
        lower_cancelled = lower["obs"].cancelled if "obs" in lower else None
    finally:
        P.BlockwiseRequest._complete_by_requesting_block2 = orig
        try:
            await ctx.shutdown()
        except Exception as e:
            escaped.append("shutdown:" + type(e).__name__)
        for _ in range(3):
            await asyncio.sleep(0)
        loop.set_exception_handler(old)
    return {"seen": snapshot, "resp": resp, "escaped": escaped, "loop_errors": loop_errors, "pending": pending,
            "served": state["served"], "outstanding": outstanding, "trace": trace_snapshot,
            "lower_end": trace_end, "gave_up": gave_up, "matched": state["matched"], "others": other_states,
            "start": state.get("start", ""), "lower_cancelled": lower_cancelled,
            "app_raised": state.get("app_raised", [])}


# ---------------------------------------------------------------------------------------------
# Oracle: the property, read over what the server did and what the application saw.
# ---------------------------------------------------------------------------------------------

def oracle(sc, res):
    """-> (verdict, key).

    What the server did decides what the application must see: the observation ends only when a response that is
    not a notification arrives on its token (final response, then the cancellation signal), on a transport failure
    (that error), or when the application gives it up -- never because the body of one notification could not be
    fetched; what is handed over is a freshness-ordered sequence of complete representations; and when the
    freshest notification that arrived was served consistently (all its blocks from that one representation),
    that representation is the last one handed over."""
    if res["escaped"]:
        return f"exception escaped into the transport: {res['escaped'][0]}", "bw:escaped"
    if res["loop_errors"]:
        return f"exception reached the event loop: {res['loop_errors'][0]}", "bw:loop-exception"
    seen = res["seen"]
    for x in seen:
        if x[0] in ("eb", "raise") and ":" in x[1]:
            return (f"the application was handed {x[1]} as the error: the end of an observation is an exception "
                    "instance derived from aiocoap's error.Error"), "bw:error-not-instance"
    v, key = oracle_others(sc, res)
    if v:
        return v, key
    v, key = oracle_token_released(sc, res)
    if v:
        return v, key
    if ("oc",) in seen:
        # the application cancelled the observation itself (it may still want the response): nothing is handed to
        # it or signalled afterwards; the response future still completes unless it was given up as well
        k = seen.index(("oc",))
        if seen[k + 1:] and sc["consumer"] == "callbacks":
            # (an `async for` consumer may still fetch what was queued for it before the cancel; what an iteration
            # over an observation its application cancelled does otherwise is not claimed)
            return f"the application cancelled the observation, then was handed {seen[k + 1:]}", "bw:after-cancel"
        if not res["gave_up"] and not any(st[0] == "RC" for st in sc["steps"]) and \
                not any(e[0] in ("X", "F") or (e[0] == "B" and e[3] != "ok") for e in res["served"]) and \
                (res["resp"] is None or res["resp"][0] != "resp"):
            return (f"observation.cancel() must not take the response away: response future {res['resp']}"), \
                "bw:response"
        return "", None
    # (further requests of the application and failures of the other peer are no business of this observation)
    res = dict(res, served=[e for e in res["served"] if e[0] != "O" and not (e[0] == "X" and len(e) > 2 and e[2])])
    steps = sc["steps"]
    if res["gave_up"]:
        # the application's request.response.cancel() found the future pending (it returned True): the request was
        # given up before its response was complete
        if res["resp"] != ("cancelled",):
            return f"response future: cancelled by the application, found {res['resp']}", "bw:response"
        if [x for x in seen if x[0] == "item"]:
            return f"items handed over although the request was given up: {seen}", "bw:after-end"
        if sc["consumer"] == "callbacks":
            if [x[0] for x in seen] != ["eb"]:
                return f"request.response cancelled before the first response: errbacks must fire once, saw {seen}", \
                    "bw:response-cancelled"
        elif res["pending"] or len(seen) != 1 or seen[0][0] not in ("stop", "raise"):
            return (f"request.response cancelled before the first response: the `async for` consumer must end, it "
                    f"{'is still pending' if res['pending'] else 'saw'} {seen}"), "bw:response-cancelled"
        return "", None
    # ---- what the server did, in the order it did it: notifications N / final response F / transport failure X on
    # the observation's token, replies B to block requests
    end = None                 # None | ("final", code) | ("error", name)
    final_body = b"final"      # what the final response carries: the literal, or a representation (block-wise)
    ended_by_fetch = False
    arrived = []               # (rep, obs, position in the log) of the notifications that arrived before the end
    served = []                # (rep served from, block number, how) of the block replies before the end
    for pos, ev in enumerate(res["served"]):
        if ev[0] == "N":
            arrived.append((ev[1], ev[2], pos))
        elif ev[0] == "B":
            served.append(ev[1:])
            if ev[3] == "neterr":
                end, ended_by_fetch = ("error", "NetworkError"), True      # the transport failed during a fetch
        elif ev[0] == "F":
            if is_notification(ev[1], ev[2]):
                raise AssertionError("scenario: F must not be a notification")
            end = ("final", ev[1])
            final_body = ev[3] if len(ev) > 3 else b"final"
        elif ev[0] == "X":
            end = ("error", EXC[ev[1]])
        if end is not None:
            break
    if end is not None and end[0] == "final":
        # the final response arrived while the body of a notification was still being fetched, and then the transport
        # failed under that fetch: two ends, of which the application is told one -- either is taken
        i = res["served"].index(next(e for e in res["served"] if e[0] == "F"))
        later = [("error", "NetworkError") for e in res["served"][i + 1:] if e[0] == "B" and e[3] == "neterr"] + \
                [("error", EXC[e[1]]) for e in res["served"][i + 1:] if e[0] == "X"]
        if later:
            tail_names = [x[1] for x in seen if x[0] in ("eb", "raise")]
            if tail_names and tail_names[0] == later[0][1]:
                end, ended_by_fetch = later[0], True
    # freshness order of the arrivals (all within far less than 128 s; the first response has Observe 1)
    last = 1
    accepted = []
    freshest_pos = None
    for rep, obs, pos in arrived:
        if rfc_fresher(last, 0, obs, 0):
            accepted.append(rep)
            last = obs
            freshest_pos = pos
    # ---- what was handed over
    items, k = [], 0
    while k < len(seen) and seen[k][0] == "item":
        items.append(seen[k][1:])
        k += 1
    tail = seen[k:]
    if any(x[0] == "item" for x in tail):
        return f"something was handed over after the end: {seen}", "bw:after-end"
    notif_items = items
    if end is not None and end[0] == "final" and isinstance(final_body, int) and items \
            and tuple(items[-1]) == (end[1], final_body):
        notif_items = items[:-1]           # the (block-wise) final response is no notification
    full = [x[1] for x in notif_items if x[0] == 69 and isinstance(x[1], int)]
    for code, what in items:
        if code == 69 and not isinstance(what, int):
            # a 2.05 that is none of the server's representations: the bytes of one block handed over as a body
            # happen only where the server itself sent them as a complete response ("noblock2")
            if what == b"final" and end is not None and end[0] == "final":
                continue
            if not any(e[0] == "B" and e[3] == "noblock2" for e in res["served"]):
                return (f"the observation handed over a 2.05 of {len(what)} bytes that is none of the server's "
                        "representations"), "bw:mixed-body"
    j = 0
    for r in full:
        while j < len(accepted) and accepted[j] != r:
            j += 1
        if j == len(accepted):
            return (f"handed over representations {full}: not a freshness-ordered subsequence of the notifications "
                    f"that arrived {[a[:2] for a in arrived]}"), "bw:order"
        j += 1
    cancelled = sc.get("cancel_at") is not None and sc["cancel_at"] in full
    if cancelled:
        if full[-1] != sc["cancel_at"] or items[-1] != (69, sc["cancel_at"]) or tail:
            return (f"the application cancelled from inside its callback on representation {sc['cancel_at']}, then "
                    f"was handed {seen[seen.index(('item', 69, sc['cancel_at'])) + 1:]}"), "bw:after-cancel"
        return "", None
    # ---- how it ended
    if sc["consumer"] == "callbacks":
        ebs = [x[1] for x in tail if x[0] == "eb"]
        if end is None:
            if ebs:
                return (f"the observation was ended by the client itself ({ebs}) although the server sustains it: "
                        f"no final response and no transport failure arrived; server log {served}"), "bw:ended-by-client"
        elif end[0] == "final":
            if ebs != ["ObservationCancelled"]:
                return f"final response arrived: errbacks must get ObservationCancelled once, got {ebs}", "bw:end"
        elif ebs != [end[1]]:
            return f"transport failure: errbacks must get {end[1]} once, got {ebs}", "bw:end"
    else:
        if end is None:
            if tail or not res["pending"]:
                return (f"the observation was ended by the client itself ({tail}) although the server sustains it: "
                        f"no final response and no transport failure arrived; server log {served}"), "bw:ended-by-client"
        elif end[0] == "final":
            if tail != [("stop",)]:
                return f"final response arrived: the iteration must stop, it gave {tail or 'nothing'}", "bw:end"
        elif tail != [("raise", end[1])]:
            return f"transport failure: the iteration must raise {end[1]}, it gave {tail or 'nothing'}", "bw:end"
    if end is not None and end[0] == "final":
        if not items or items[-1][0] != end[1] or items[-1][1] != final_body:
            return f"the final response ({end[1]}) was not the last thing handed over: {items}", "bw:final-lost"
    if ended_by_fetch or end is not None:
        # (the queue between the lower observation and the loop is lossy: a notification not yet fetched when the
        # final response arrives is replaced by it, as an older notification is by a newer one; the final response
        # being handed over last was demanded above)
        return "", None
    # ---- the freshest notification that arrived, if the server let its body through
    if accepted:
        f = accepted[-1]
        spec = sc["reps"][f]
        # its download was consistent iff, after it arrived, every block reply came unharmed ("ok") from
        # representation f and blocks 1..n-1 were all among them (block 0 came with the notification; a reply may
        # still have gone to the fetch of an older notification, which then fails on the ETag -- harmless)
        after = [e[1:] for e in res["served"][freshest_pos + 1:] if e[0] == "B"]
        got = [num for (rep, num, how) in after if rep == f and how == "ok"]
        bad = [(rep, num, how) for (rep, num, how) in after if rep != f or how != "ok"]
        clean = not bad and all(got.count(n) >= 1 for n in range(1, spec[0]))
        if clean and (not full or full[-1] != f):
            return (f"the freshest notification that arrived (representation {f}) was served completely and "
                    f"consistently, but was never handed to the application: it saw {seen}; server log {served}"), \
                "bw:latest-lost"
    return "", None


# ---------------------------------------------------------------------------------------------
# Correspondence with the Lean model of the loop
# ---------------------------------------------------------------------------------------------

def oracle_others(sc, res):
    """the application's other requests: a transport failure reported for a peer (also the one the harness reports
    under a block request: "neterr") fails every request outstanding to that peer, and none to another peer"""
    want = []
    for e in res["served"]:
        if e[0] == "O":
            want.append([e[1], "pending"])
        elif e[0] == "X" or (e[0] == "B" and e[3] == "neterr"):
            failed = e[2] if e[0] == "X" and len(e) > 2 else 0
            name = EXC[e[1]] if e[0] == "X" else "NetworkError"
            for w in want:
                if w[0] == failed and w[1] == "pending":
                    w[1] = "raise:" + name
    if want != res.get("others", []):
        return (f"the application's other requests (peer, state): expected {want}, found {res.get('others')} -- a "
                "transport failure concerns exactly the requests outstanding to the peer it is reported for"), \
            "bw:other-requests"
    return "", None


def oracle_token_released(sc, res):
    """"After the end ... later notifications on that token are rejected like unknown responses": once a response
    that is no notification (final response, or a first response that does not establish the observation) or a
    transport failure of the peer has ended the observation, or the request was given up, nothing that arrives on
    the token is known to the token manager any more.  When the application cancels the observation itself, the
    client notices at the next notification (it has no other occasion: stated allowance, as for the plain API), so at
    most ONE more is still taken; all later ones are rejected."""
    served = res["served"]
    ended_at = None            # position in `served` of what ended the observation
    cancelled_at = None
    for pos, e in enumerate(served):
        if e[0] == "F" or (e[0] == "X" and not (len(e) > 2 and e[2])) or (e[0] == "B" and e[3] == "neterr"):
            ended_at = pos if ended_at is None else ended_at
        elif e[0] == "OC":
            cancelled_at = pos if cancelled_at is None else cancelled_at
    if res["gave_up"]:
        rc = next(pos for pos, e in enumerate(served) if e[0] == "RC")
        if sc["steps"][0] == ["RC"]:
            ended_at = -2       # given up before the first response: nothing is taken on the token any more
        else:
            cancelled_at = rc   # given up while the body of the response was fetched: noticed at the next notification
    taken_after_cancel = 0
    for pos, ok in res.get("matched", []):
        what = served[pos] if pos >= 0 else ("first response",)
        if ended_at is not None and pos > ended_at and ok:
            return (f"{what} arrived on the observation's token after the observation had ended "
                    f"({served[ended_at] if ended_at >= 0 else 'request given up'}) and was still taken by the token "
                    "manager (it would be acknowledged, not rejected)"), "bw:token-not-released"
        if cancelled_at is not None and pos > cancelled_at and ok and pos >= 0:
            taken_after_cancel += 1
            if taken_after_cancel > 1:
                return (f"the application cancelled the observation; {taken_after_cancel} later notifications on its "
                        f"token were still taken by the token manager (the last: {what}) -- the token is never given "
                        "up, every notification keeps being acknowledged"), "bw:token-not-released"
    return "", None


def trace_lines(res):
    """-> (driver line, implementation's canonical string), or None when `_run_observation` never got anything"""
    tr = res["trace"]
    start = res.get("start", "")
    if all(tag == "-" for tag, _ in tr) and not start:
        # the loop was never given anything: what the application's observation was told (if anything) came from
        # the paths of the response itself (`_run` / `_run_outer` / the cancellation handler), judged by the oracle
        return None
    toks, outs = [], []
    for tag, dels in tr:
        if tag == "-":
            # a delivery to the application's observation that no event of the loop accounts for
            toks.append("stop")
            outs.append("unaccounted:" + ",".join(dels))
            continue
        toks.append(tag)
        outs.append(",".join(_canon(d) for d in dels) or ".")
    # has the lower observation been given up at the end?  (asked unless the lower observation has ended while the
    # loop, busy with a fetch, has not come to see it)
    saw_end = any(tag in ("stop", "raise", "cancel") or tag.split(":")[1:2] == ["net"] or tag.endswith(":c")
                  for tag, _ in tr) or bool(start)
    if res.get("lower_cancelled") is not None and (saw_end or res.get("lower_end") is None) \
            and res["resp"] is not None and res["resp"][0] == "resp":
        toks.append("?L")
        outs.append("L+" if res["lower_cancelled"] else "L-")
    if res.get("app_raised"):
        outs.append("!observation.cancel()-raised:" + ",".join(res["app_raised"]))
    return "C07 U " + " ".join(([start] if start else []) + toks), " ".join(outs) or "-"


def _canon(d):
    if d.startswith("eb:"):
        n = d[3:]
        return "eb:" + (n if n in ("NotObservable", "ObservationCancelled") else "T")
    return d


# ---------------------------------------------------------------------------------------------
# Generators
# ---------------------------------------------------------------------------------------------

def boundary_scenarios():
    out = []
    reps = [[2, 5], [3, 7], [2, BS], [1, 9], [4, 1], [2, 3]]
    consumers = [("callbacks", 0), ("iter", 0), ("iter", 3)]
    # one block-wise notification whose fetch misbehaves at block 1 or 2, then the server goes on notifying
    for cons, work in consumers:
        for how in HOWS:
            for at in (0, 1):
                hows = ["ok"] + ["ok"] * at + [how]          # the first "ok" completes the response itself
                for tailsteps in ([["N", 2, 3], ["serve"], ["N", 3, 4], ["serve"]],
                                  [["N", 2, 3], ["serve"]],
                                  [],
                                  [["N", 2, 3], ["serve"], ["F", 132, None]],
                                  [["F", 132, None]],
                                  [["X", 2]]):
                    out.append({"consumer": cons, "work": work, "reps": reps, "hows": list(hows),
                                "steps": [["serve"], ["N", 1, 2], ["serve"]] + tailsteps})
    # a newer notification overtakes the one being fetched; the server serves the new / keeps serving the old state
    for cons, work in consumers:
        for a, b in ((1, 2), (4, 1), (1, 3), (4, 2)):
            out.append({"consumer": cons, "work": work, "reps": reps, "hows": [],
                        "steps": [["serve"], ["N", a, 2], ["N", b, 3], ["serve"]]})
            out.append({"consumer": cons, "work": work, "reps": reps, "hows": [],
                        "steps": [["serve"], ["N", a, 2], ["T", 6], ["N", b, 3], ["serve"], ["N", 5, 4], ["serve"]]})
            # the state changes while a body is fetched and the notification for it is lost / arrives later
            out.append({"consumer": cons, "work": work, "reps": reps, "hows": [],
                        "steps": [["serve"], ["N", a, 2], ["S", b], ["serve"], ["N", b, 3], ["serve"]]})
            out.append({"consumer": cons, "work": work, "reps": reps, "hows": [],
                        "steps": [["serve"], ["N", a, 2], ["S", b], ["serve"]]})
            # an older notification arrives late
            out.append({"consumer": cons, "work": work, "reps": reps, "hows": [],
                        "steps": [["serve"], ["N", a, 5], ["serve"], ["N", b, 3], ["serve"], ["N", 5, 6], ["serve"]]})
    # the observation ends with a final response that is itself block-wise (the server drops the observer of a large
    # resource with a plain 2.05): its body is fetched and handed over, then the end (oracle only)
    for cons, work in consumers:
        for pre in ([], [["N", 1, 2], ["serve"]], [["N", 1, 2]]):
            out.append({"consumer": cons, "work": work, "reps": reps, "hows": [], "oracle_only": True,
                        "steps": [["serve"]] + pre + [["FB", 2], ["serve"]]})
    # error responses carrying an Observe option, in the middle of a fetch and after it
    for cons, work in consumers:
        for code, o in ((132, 9), (132, 1), (160, 9)):
            out.append({"consumer": cons, "work": work, "reps": reps, "hows": [],
                        "steps": [["serve"], ["N", 1, 2], ["F", code, o], ["serve"], ["N", 2, 10], ["serve"]]})
            out.append({"consumer": cons, "work": work, "reps": reps, "hows": [],
                        "steps": [["serve"], ["N", 1, 2], ["serve"], ["F", code, o], ["N", 2, 10], ["serve"]]})
    # the application cancels from inside its callback on a block-wise notification
    for rep in (1, 2, 3):
        out.append({"consumer": "callbacks", "work": 0, "reps": reps, "hows": [], "cancel_at": rep,
                    "steps": [["serve"], ["N", 1, 2], ["serve"], ["N", 2, 3], ["serve"], ["N", 3, 4], ["serve"],
                              ["F", 132, None]]})
    # the errback cancels the observation it is being told the end of: final response, transport failure, network error
    # under a fetch, a given-up request
    for steps, hows in (([["serve"], ["N", 1, 2], ["serve"], ["F", 132, None]], []),
                        ([["serve"], ["N", 1, 2], ["serve"], ["X", 2]], []),
                        ([["serve"], ["N", 1, 2], ["serve"], ["N", 2, 3], ["serve"]], ["ok", "neterr"]),
                        ([["serve"], ["N", 1, 2], ["F", 160, 9], ["serve"]], []),
                        ([["RC"], ["serve"]], [])):
        out.append({"consumer": "callbacks", "work": 0, "reps": reps, "hows": list(hows), "eb_cancels": True,
                    "steps": steps})
    # the application gives the request up while the body of the response itself is being fetched / before
    for cons, work in consumers:
        out.append({"consumer": cons, "work": work, "reps": reps, "hows": [],
                    "steps": [["RC"], ["serve"], ["N", 1, 2], ["serve"]]})
        out.append({"consumer": cons, "work": work, "reps": reps, "hows": [], "steps": [["RC"]]})
        out.append({"consumer": cons, "work": work, "reps": reps, "hows": [],
                    "steps": [["T", 2], ["RC"], ["serve"], ["N", 1, 2], ["serve"]]})
        # ... and once the response is complete, which changes nothing
        out.append({"consumer": cons, "work": work, "reps": reps, "hows": [],
                    "steps": [["serve"], ["RC"], ["N", 1, 2], ["serve"], ["N", 2, 3], ["serve"]]})
    out += round4_scenarios()
    return out


def round4_scenarios():
    out = []
    reps = [[2, 5], [3, 7], [2, BS], [1, 9], [4, 1], [2, 3]]
    reps1 = [[1, 9], [3, 7], [2, BS], [1, 9], [4, 1], [2, 3]]         # the response itself fits one block
    notifs = [["N", 1, 2], ["serve"], ["N", 2, 3], ["serve"], ["N", 3, 4], ["serve"], ["N", 4, 5], ["serve"]]
    # the application cancels the observation itself (request.observation.cancel(); it may still want the response):
    # before the first response, while the body of the first response is being fetched, the moment the response is
    # complete (`await request.response` then cancel), between notifications, during the fetch of a notification --
    # the server goes on notifying: the token has to be given up (oracle only)
    for cons, work in (("callbacks", 0), ("iter", 0)):
        for rp in (reps, reps1):
            for pre in ([["OC"], ["serve"]], [["T", 1], ["OC"], ["serve"]], [["serve"], ["OC"]],
                        [["serve"], ["N", 5, 2], ["OC"], ["serve"]], [["serve"], ["N", 5, 2], ["serve"], ["OC"]],
                        [["OC"], ["T", 3], ["RC"], ["serve"]]):
                for tail in (notifs, notifs[:4] + [["F", 132, None], ["N", 3, 9]], notifs[:2] + [["X", 2], ["N", 3, 9]]):
                    out.append({"consumer": cons, "work": work, "reps": rp, "hows": [], "steps": pre + tail})
            for tail in (notifs, notifs[:4] + [["F", 132, None], ["N", 3, 9]]):
                out.append({"consumer": cons, "work": work, "reps": rp, "hows": [],
                            "cancel_on_response": True, "steps": [["serve"]] + tail})
                out.append({"consumer": cons, "work": work, "reps": rp, "hows": ["ok", "etag"],
                            "cancel_on_response": True, "steps": [["serve"]] + tail})
    # late notifications after every end: the token is given up at once
    for cons, work in (("callbacks", 0), ("iter", 3)):
        for end in (["F", 132, None], ["F", 69, None], ["F", 160, 9], ["X", 1], ["X", 2]):
            out.append({"consumer": cons, "work": work, "reps": reps, "hows": [],
                        "steps": [["serve"], ["N", 1, 2], ["serve"], end, ["N", 2, 3], ["serve"], ["N", 3, 4], ["serve"]]})
            out.append({"consumer": cons, "work": work, "reps": reps, "hows": [],
                        "steps": [["serve"], ["N", 1, 2], end, ["serve"], ["N", 2, 3], ["serve"]]})
    # further requests of the application outstanding (registered before the observing request, while it awaits its
    # first response, later; to the same / another peer) when the transport fails for the observation's peer (also
    # under a block request), for the other peer
    for cons, work in (("callbacks", 0), ("iter", 0)):
        for os_ in ([["O", 1, 0]], [["O", 1, 1]], [["O", 1, 0], ["O", 1, 0]], [["O", 1, 1], ["O", 1, 0]],
                    [["O", -1, 0]], [["O", -1, 1]], [["O", 0, 0]], [["O", 0, 1]], [["O", -1, 1], ["O", 1, 0]]):
            early = [o for o in os_ if o[1] <= 0]
            late = [o for o in os_ if o[1] > 0]
            for fail, hows in (([["X", 2]], []), ([["X", 1]], []), ([["X", 2, 1], ["N", 3, 4], ["serve"]], []),
                               ([["X", 1, 1], ["X", 2]], []), ([["N", 3, 4], ["serve"]], ["ok", "ok", "ok", "neterr"])):
                out.append({"consumer": cons, "work": work, "reps": reps, "hows": list(hows),
                            "steps": [o for o in early if o[1] == -1] + [o for o in early if o[1] == 0] +
                                     [["serve"], ["N", 1, 2], ["serve"]] + late + fail + [["N", 2, 9], ["serve"]]})
    # the request's transport tuning x reordered / duplicated notifications
    from c07_pipe import TUNINGS
    for kind in TUNINGS[1:]:
        for cons, work in (("callbacks", 0), ("iter", 0)):
            out.append({"consumer": cons, "work": work, "reps": reps, "hows": [], "tuning": kind,
                        "steps": [["serve"], ["N", 1, 5], ["serve"], ["N", 2, 3], ["serve"], ["N", 3, 5], ["serve"],
                                  ["N", 4, 6], ["serve"], ["N", 5, 1], ["serve"], ["F", 132, None], ["N", 1, 9]]})
    return out


def random_scenario(rng):
    nrep = rng.randrange(2, 7)
    reps = [[rng.randrange(1, 5), rng.choice([1, 5, BS - 1, BS])] for _ in range(nrep)]
    reps[0][0] = rng.randrange(1, 4)
    steps = [["serve"]]
    obs = 1
    hows = ["ok"] * (reps[0][0] - 1)
    ended = False
    for _ in range(rng.randrange(1, 6)):
        r = rng.random()
        rep = rng.randrange(1, nrep)
        if r < 0.6:
            obs += rng.choice([1, 1, 2, 1, -1, 0])
            obs = max(obs, 0)
            steps.append(["N", rep, obs])
            if rng.random() < 0.75:
                steps.append(["serve"])
            elif rng.random() < 0.5:
                steps.append(["T", rng.randrange(1, 9)])
        elif r < 0.7:
            steps.append(["S", rep])
        elif r < 0.8:
            steps.append(["serve"])
        elif r < 0.9:
            steps.append(["F", rng.choice([132, 160, 69]), rng.choice([None, None, obs + 1, 0])])
            if steps[-1][1] == 69:
                steps[-1][2] = None
            ended = True
        else:
            steps.append(["X", rng.choice([1, 2])])
            ended = True
        if ended:
            if rng.random() < 0.5:
                steps += [["N", rep, obs + 1], ["serve"]]
            break
    for _ in range(12):
        hows.append(rng.choice(HOWS) if rng.random() < 0.2 else "ok")
    cons, work = rng.choice([("callbacks", 0), ("iter", 0), ("iter", 0), ("iter", 3)])
    sc = {"consumer": cons, "work": work, "reps": reps, "hows": hows, "steps": steps}
    if cons == "callbacks" and rng.random() < 0.15:
        sc["cancel_at"] = rng.randrange(1, nrep)
    if cons == "callbacks" and rng.random() < 0.3:
        sc["eb_cancels"] = True
    r = rng.random()
    if r < 0.15:
        from c07_pipe import TUNINGS
        sc["tuning"] = rng.choice(TUNINGS[1:])
    elif r < 0.35:
        # further requests of the application, and failures of the other peer
        pre = []
        for _ in range(rng.randrange(1, 3)):
            k = rng.choice([-1, 0, 1])
            o = ["O", k, rng.randrange(2)]
            if k == 1:
                steps.insert(rng.randrange(1, len(steps) + 1), o)
            else:
                pre.append(o)
        if rng.random() < 0.5:
            steps.insert(rng.randrange(1, len(steps) + 1), ["X", rng.choice([1, 2]), 1])
        steps[:0] = sorted(pre, key=lambda o: o[1])
    elif r < 0.5 and "cancel_at" not in sc and not sc.get("eb_cancels"):
        # the application cancels the observation itself somewhere
        if rng.random() < 0.3:
            sc["cancel_on_response"] = True
        else:
            steps.insert(rng.randrange(0, len(steps) + 1), ["OC"])
        steps += [["N", rng.randrange(1, nrep), obs + 2 + i] for i in range(3)]
    return sc
