"""Script generators for the message-layer checks (C02 C03 C04 C10 C14 C18).

Times are ticks of 2**-20 s.  Generators keep input events on distinct ticks and away from
timer deadlines they know about (a tie is detected by the model and such a run is not compared).
"""
M = 1 << 20

GET, POST, PUT, DELETE, FETCH = 1, 2, 3, 4, 5
CONTENT, CHANGED, NOT_FOUND, ISE = 69, 68, 132, 160


class Clock:
    """hands out strictly increasing, distinct event times"""

    def __init__(self, rng, start=1000):
        self.rng = rng
        self.t = start
        self.used = set()

    def at(self, t):
        while t in self.used:
            t += 1
        self.used.add(t)
        return t

    def after(self, lo, hi):
        self.t = self.at(self.t + self.rng.randrange(lo, hi + 1))
        return self.t


def far_end(events, rules=()):
    t = max([e[1] for e in events] + [0]) + 700 * M
    return ["A", t]


def submit(t, r, remote, *, mtype=None, rel=None, code=GET, observing=False, body=None, maxretr=4,
           mc=False, tuning=None):
    ev = ["S", t, r, remote, mc, observing, mtype, rel, code, None, (100 + r) if body is None else body,
          maxretr]
    if tuning:
        ev.append(tuning)
    return ev


def request_in(t, remote, mid, token, *, mtype="CON", code=GET, obs=None, body=0, mc_local=False):
    return ["R", t, remote, mc_local, mtype, code, mid, token, obs, body]


def respond(t, srv, *, code=CONTENT, body=0, last=True, obs=None, nr=0, mtype=None, rel=None, maxretr=4,
            unsendable=False):
    ev = ["P", t, srv, mtype, rel, code, obs, body, nr, maxretr, last]
    if unsendable:
        ev.append(unsendable)          # True: cannot be serialised; "uncopyable": serialises, cannot be deep-copied
    return ev


# ---------------------------------------------------------------------------------------------
# C03: retransmission
# ---------------------------------------------------------------------------------------------

TUNINGS = [
    # (ACK_TIMEOUT ticks, ACK_RANDOM_FACTOR, MAX_RETRANSMIT)
    (2 * M, 1.5, 4),
    (1 * M, 1.0, 0),
    (M // 2, 2.0, 6),
    (3 * M, 1.25, 1),
    (2 * M, 1.5, 2),
]


def c03_boundary():
    """for each tuning: silence; ACK / RST one tick before and after each retransmission timer;
    wrong-mid and wrong-source ACKs"""
    scripts = []
    for (at, factor, mr) in TUNINGS:
        hi = int(at * factor)
        for T0 in sorted({at, hi, min(hi, (at + hi) // 2 + 3)}):
            base = {"draws": [T0]}
            sub = submit(1000, 0, 0, rel=True, maxretr=mr, tuning=[at, factor])
            scripts.append(dict(base, events=[sub, far_end([sub])], rules=[], tag=f"silent:{at}:{factor}:{mr}"))
            for k in range(1, mr + 2):
                gap = T0 * (2 ** (k - 1))          # time from copy k to the next timer
                for delta in (-1, +1):
                    for do in ("ack", "rst"):
                        rules = [{"remote": 0, "mtype": "CON", "nth": k, "after": gap + delta, "do": do}]
                        scripts.append(dict(base, events=[sub, far_end([sub])], rules=rules,
                                            tag=f"{do}@copy{k}{delta:+d}:{at}:{factor}:{mr}"))
                # a piggy-backed response under the right message id but an unknown token, and one
                # for a request the application has already cancelled: both still are ACKs
                rules = [{"remote": 0, "mtype": "CON", "nth": k, "after": 555, "do": "piggy-badtoken", "body": 3}]
                scripts.append(dict(base, events=[sub, far_end([sub])], rules=rules,
                                    tag=f"piggy-badtoken@copy{k}:{at}:{factor}:{mr}"))
                rules = [{"remote": 0, "mtype": "CON", "nth": k, "after": 555, "do": "piggy", "body": 3}]
                tcancel = 1000 + (T0 * (2 ** (k - 1) - 1) if k > 1 else 0) + 100
                scripts.append(dict(base, events=[sub, ["C", tcancel, 0], far_end([sub])], rules=rules,
                                    tag=f"piggy-after-cancel@copy{k}:{at}:{factor}:{mr}"))
                # Reset / ACK for a request whose pipe has already ended (cancelled by the application),
                # followed by another CON to the same peer: the exchange must still be closed properly
                for do in ("rst", "ack"):
                    rules = [{"remote": 0, "mtype": "CON", "nth": k, "after": 555, "do": do},
                             {"remote": 0, "mtype": "CON", "nth": k + 1, "after": 300, "do": "piggy", "body": 4}]
                    sub2 = submit(tcancel + 2000, 1, 0, rel=True, maxretr=mr, tuning=[at, factor])
                    scripts.append({"draws": [T0, T0], "events": [sub, ["C", tcancel, 0], sub2, far_end([sub, sub2])],
                                    "rules": rules, "tag": f"{do}-after-cancel-then-next@copy{k}:{at}:{factor}:{mr}"})
                for do in ("wrongmid", "wrongsrc"):
                    for ptype in ("ACK", "RST"):
                        rules = [{"remote": 0, "mtype": "CON", "nth": k, "after": 777, "do": do, "ptype": ptype}]
                        scripts.append(dict(base, events=[sub, far_end([sub])], rules=rules,
                                            tag=f"{do}:{ptype}@copy{k}:{at}:{factor}:{mr}"))
    # the two message-ID spaces: the peer has recently used, for a message of its own (request, ping), the very
    # message ID our next CON gets; its ACK / RST for our CON must still be taken as such
    for theirs in ("CON-req", "NON-req", "CON-ping", "dup-req"):
        for do in ("ack", "rst", "sep"):
            for k in (1, 2):
                at, factor, mr = TUNINGS[0]
                ev = []
                if theirs == "CON-ping":
                    ev.append(["R", 300, 0, False, "CON", 0, 4096, "-", None, 0])
                else:
                    ev.append(request_in(300, 0, 4096, "c1", mtype="NON" if theirs == "NON-req" else "CON"))
                    if theirs == "dup-req":
                        ev.append(request_in(340, 0, 4096, "c1", mtype="CON"))
                    ev.append(respond(400, 0, body=9))
                sub = submit(1000, 0, 0, rel=True, maxretr=mr, tuning=[at, factor])
                rules = [{"remote": 0, "mtype": "CON", "nth": k, "after": 500, "do": "ack" if do == "sep" else do}]
                if do == "sep":     # empty ACK, then the response as a message of its own
                    rules.append({"remote": 0, "mtype": "CON", "nth": k, "after": 900, "do": "sep", "pmid": 9000,
                                  "body": 6})
                scripts.append({"draws": [at], "mid": 4096, "events": ev + [sub, far_end([sub])], "rules": rules,
                                "tag": f"mid-collision:{theirs}:{do}@copy{k}"})
    # a message of the peer that belongs to an OLDER token -- a notification of a running observation, the separate
    # response to a request already acknowledged -- arrives while a newer CON to that peer is unacknowledged (its
    # first copy, or its ACK, was lost): that is no acknowledgement of the newer CON, which goes on being retransmitted
    at, factor, mr = TUNINGS[0]
    for kind in ("notif-NON", "notif-CON", "sep-NON", "sep-CON"):
        for k in (1, 2):
            for later in ("silence", "piggy"):
                notif = kind.startswith("notif")
                sub0 = submit(1000, 0, 0, rel=True, observing=notif, maxretr=mr, tuning=[at, factor])
                rules = [{"remote": 0, "mtype": "CON", "nth": 1, "after": 500, "do": "piggy", "obs": 1, "body": 1}
                         if notif else {"remote": 0, "mtype": "CON", "nth": 1, "after": 500, "do": "ack"}]
                t1 = 1000 + 3 * M
                sub1 = submit(t1, 1, 0, rel=True, maxretr=mr, tuning=[at, factor])
                tr = t1 + at * (2 ** (k - 1) - 1) + 500
                ev = [sub0, sub1, ["R", tr, 0, False, kind[-3:], CONTENT, 7000, "21", 2 if notif else None, 9]]
                if later == "piggy":
                    rules.append({"remote": 0, "mtype": "CON", "nth": 1 + k + 1, "after": 300, "do": "piggy", "body": 4})
                scripts.append({"draws": [at, at], "events": ev + [far_end(ev)], "rules": rules,
                                "tag": f"older-token-message-while-in-flight:{kind}@copy{k}:{later}"})
    # remote 5 is sent to under an address with a zone (scope id 1) and heard from with scope id 0, as the kernel
    # reports a non-link-local source: its ACK / RST / piggy-backed response still are "from the same endpoint"
    at, factor, mr = TUNINGS[0]
    for do in ("ack", "rst", "piggy"):
        for k in (1, 2):
            sub = submit(1000, 0, 5, rel=True, maxretr=mr, tuning=[at, factor])
            rules = [{"remote": 5, "mtype": "CON", "nth": k, "after": 500, "do": do, "body": 7}]
            scripts.append({"draws": [at], "events": [sub, far_end([sub])], "rules": rules,
                            "tag": f"zoned-global:{do}@copy{k}"})
    return scripts


def c03_random(rng):
    at, factor, mr = rng.choice(TUNINGS)
    hi = int(at * factor)
    n = rng.randrange(1, 4)
    clock = Clock(rng)
    events, rules, draws = [], [], []
    for r in range(n):
        remote = r            # distinct remotes: exchanges run in parallel
        draws.append(rng.randrange(at, hi + 1))
        events.append(submit(clock.after(1, 3 * M), r, remote, rel=True, maxretr=mr, tuning=[at, factor],
                             code=rng.choice([GET, POST, PUT])))
        k = rng.randrange(1, mr + 3)
        if k <= mr + 1:
            do = rng.choice(["ack", "rst", "piggy", "wrongmid", "wrongsrc", "ack", "piggy", "piggy-badtoken"])
            after = rng.choice([1, 500, rng.randrange(1, at), rng.randrange(1, 40 * M)])
            rule = {"remote": remote, "mtype": "CON", "nth": k, "after": after, "do": do,
                    "body": rng.randrange(1, 50)}
            if do in ("wrongmid", "wrongsrc"):
                rule["ptype"] = rng.choice(["ACK", "RST"])
            rules.append(rule)
    events.append(far_end(events))
    return {"events": events, "rules": rules, "draws": draws, "tag": "random"}


# ---------------------------------------------------------------------------------------------
# C14: NSTART = 1
# ---------------------------------------------------------------------------------------------

def c14_random(rng):
    clock = Clock(rng)
    events, rules, draws = [], [], []
    nrem = rng.randrange(1, 4)
    nreq = rng.randrange(2, 9)
    con_count = {}
    for r in range(nreq):
        remote = rng.randrange(nrem)
        is_con = rng.random() < 0.75
        events.append(submit(clock.after(1, rng.choice([50, 5000, 3 * M])), r, remote,
                             rel=is_con, maxretr=rng.choice([4, 4, 1, 0])))
        if is_con:
            con_count[remote] = con_count.get(remote, 0) + 1
        draws.append(rng.randrange(2 * M, 3 * M + 1))
    # reactions to the first copies of successive CONs (retransmissions shift the count; fine)
    for remote, cnt in con_count.items():
        for k in range(1, cnt + 2):
            c = rng.random()
            if c < 0.45:
                do = "ack"
            elif c < 0.6:
                do = "rst"
            elif c < 0.8:
                do = "piggy"
            else:
                continue
            rules.append({"remote": remote, "mtype": "CON", "nth": k, "do": do,
                          "after": rng.choice([100, 20000, M, 5 * M]), "body": k})
    # the same peers also send us requests that are answered late (separate CON responses compete
    # with our own CON requests for the one exchange per remote)
    if rng.random() < 0.5:
        srv = 0
        for i in range(rng.randrange(1, 3)):
            remote = rng.randrange(nrem)
            t = clock.at(rng.randrange(500, max(1000, clock.t)))
            events.append(request_in(t, remote, 800 + i, "%02x" % (0xe0 + i), mtype="CON", body=i))
            events.append(respond(clock.at(t + 104858 + rng.randrange(10, 3 * M)), srv, body=50 + i))
            draws.append(rng.randrange(2 * M, 3 * M + 1))
            srv += 1
    if rng.random() < 0.3:
        events.append(["E", clock.after(1, 30 * M), rng.randrange(nrem)])
    if rng.random() < 0.2:
        events.append(["C", clock.after(1, 10 * M), rng.randrange(nreq)])
    events.sort(key=lambda e: e[1])
    events.append(far_end(events))
    return {"events": events, "rules": rules, "draws": draws, "tag": "random"}


def c14_sendfail(rng):
    """like c14_random, plus a window in which sendmsg() towards one endpoint raises (a transport
    error reported synchronously, from inside the send); judged by the oracle only"""
    s = c14_random(rng)
    events = [e for e in s["events"] if e[0] not in ("A", "E")]
    used = {e[1] for e in events}
    remotes = sorted({e[3] for e in events if e[0] == "S"})
    remote = rng.choice(remotes)
    t_on = rng.randrange(500, max(1000, events[-1][1] + 6 * M))
    while t_on in used:
        t_on += 1
    t_off = t_on + rng.choice([50, 3 * M, 10 * M, 100 * M])
    while t_off in used:
        t_off += 1
    events += [["F", t_on, remote, True], ["F", t_off, remote, False]]
    events.sort(key=lambda e: e[1])
    events.append(far_end(events))
    return {"events": events, "rules": s["rules"], "draws": s["draws"], "tag": "sendfail",
            "oracle_only": "synchronous-send-error"}


def c14_send_raises():
    """the transport's send() raises for a held-back message when its turn comes (k-th of the queue), at the ACK
    or Reset that releases it: that message's request fails, the ones behind it are still transmitted in order,
    and a response piggy-backed on the releasing ACK is still delivered (oracle only)"""
    scripts = []
    for k in (1, 2, 3):
        for release in ("ack", "rst", "piggy"):
            ev = [submit(1000, 0, 0, rel=True), submit(1010, 1, 0, rel=True), submit(1020, 2, 0, rel=True),
                  submit(1030, 3, 0, rel=True), submit(1040, 4, 1, rel=True)]
            rules = [{"remote": 1, "mtype": "CON", "nth": 1, "do": "ack", "after": 300},
                     {"remote": 0, "mtype": "CON", "nth": 1, "do": release, "after": 5000, "body": 9}]
            rules += [{"remote": 0, "mtype": "CON", "nth": n, "do": "piggy", "after": 5000, "body": 10 + n}
                      for n in (2, 3, 4)]
            ev.append(far_end(ev))
            scripts.append({"events": ev, "rules": rules, "draws": [2 * M + 7 * i for i in range(6)],
                            "send_raises": [100 + k], "oracle_only": "send-raises",
                            "tag": f"send-raises:{k}:{release}"})
    return scripts


def c14_boundary():
    scripts = []
    # three CONs and a NON to A, one CON to B; ACK, RST, silence, error variations
    # a separate CON response and an own CON request to the same peer: one must wait for the other
    for first in ("request", "response"):
        ev = [request_in(1000, 0, 700, "e1", mtype="CON", body=1)]
        if first == "request":
            ev += [submit(150000, 0, 0, rel=True), respond(200000, 0, body=60)]
        else:
            ev += [respond(150000, 0, body=60), submit(200000, 0, 0, rel=True)]
        ev.append(far_end(ev))
        rules = [{"remote": 0, "mtype": "CON", "nth": 1, "do": "ack", "after": 3 * M},
                 {"remote": 0, "mtype": "CON", "nth": 2, "do": "ack", "after": 3 * M}]
        scripts.append({"events": ev, "rules": rules, "draws": [2 * M + 11, 2 * M + 13],
                        "tag": "nstart:separate-response-vs-" + first})
    # A = remote 0, and again A = remote 5: an endpoint named with a zone on a non-link-local address (sent to with
    # scope id 1, heard from with scope id 0) is one endpoint, with one queue
    for A in (0, 5):
      for variant in ("ack-ack-ack", "ack-rst-ack", "silence", "error", "rst-first", "piggy"):
        ev = [submit(1000, 0, A, rel=True), submit(1010, 1, A, rel=True), submit(1020, 2, A, rel=True),
              submit(1030, 3, A, rel=False), submit(1040, 4, 1, rel=True)]
        rules = [{"remote": 1, "mtype": "CON", "nth": 1, "do": "ack", "after": 300}]
        if variant == "ack-ack-ack":
            rules += [{"remote": A, "mtype": "CON", "nth": k, "do": "ack", "after": 5000} for k in (1, 2, 3)]
        elif variant == "ack-rst-ack":
            rules += [{"remote": A, "mtype": "CON", "nth": 1, "do": "ack", "after": 5000},
                      {"remote": A, "mtype": "CON", "nth": 2, "do": "rst", "after": 5000},
                      {"remote": A, "mtype": "CON", "nth": 3, "do": "ack", "after": 5000}]
        elif variant == "error":
            ev.append(["E", 3 * M, A])
        elif variant == "rst-first":
            rules += [{"remote": A, "mtype": "CON", "nth": 1, "do": "rst", "after": 100}]
        elif variant == "piggy":
            rules += [{"remote": A, "mtype": "CON", "nth": k, "do": "piggy", "after": 5000, "body": k}
                      for k in (1, 2, 3)]
        ev.append(far_end(ev))
        scripts.append({"events": ev, "rules": rules, "draws": [2 * M + 7 * i for i in range(6)],
                        "tag": "nstart:" + variant + (":zoned-global" if A else "")})
    # the peer has just used, for requests / pings of its own, the message IDs our next CONs get: its empty ACK or
    # RST still ends our exchange and releases the held-back messages
    for theirs in ("CON", "NON", "ping"):
        for do in ("ack", "rst"):
            ev = []
            for i, mid in enumerate((4096, 4097)):
                if theirs == "ping":
                    ev.append(["R", 300 + 40 * i, 0, False, "CON", 0, mid, "-", None, 0])
                else:
                    ev.append(request_in(300 + 40 * i, 0, mid, "c%d" % i, mtype=theirs))
                    ev.append(respond(500 + 40 * i, i, body=9))
            ev += [submit(1000, 0, 0, rel=True), submit(1010, 1, 0, rel=True), submit(1020, 2, 0, rel=True)]
            rules = [{"remote": 0, "mtype": "CON", "nth": k, "do": do, "after": 5000} for k in (1, 2, 3)]
            ev.append(far_end(ev))
            scripts.append({"events": ev, "rules": rules, "mid": 4096, "draws": [2 * M + 7 * i for i in range(6)],
                            "tag": f"nstart:mid-collision:{theirs}:{do}"})
    return scripts


# ---------------------------------------------------------------------------------------------
# C04 / C10: server side
# ---------------------------------------------------------------------------------------------

def c04_random(rng, cfg):
    """incoming requests with duplicates around handler completion, EMPTY_ACK_DELAY and
    EXCHANGE_LIFETIME; several peers reusing message ids; own outgoing traffic with colliding ids"""
    clock = Clock(rng)
    events, rules = [], []
    EL, EAD = cfg["exchangeLifetime"], cfg["emptyAckDelay"]
    nreq = rng.randrange(1, 5)
    srv = 0
    first_mid = rng.choice([4096, 4096, 4097, 100])
    for i in range(nreq):
        remote = rng.randrange(3)
        mid = rng.choice([first_mid, first_mid + 1, 4096, 4097, 4098])
        mtype = rng.choice(["CON", "CON", "NON"])
        token = rng.choice(["aa", "ab", "0102", "-"])
        t0 = clock.after(1, rng.choice([100, 2 * M, 50 * M]))
        events.append(request_in(t0, remote, mid, token, mtype=mtype, code=rng.choice([GET, POST]), body=i + 1))
        handler = rng.choice(["fast", "slow", "never", "nr", "error", "fast"])
        if handler == "fast":
            tr = t0 + rng.randrange(1, EAD - 1)
        elif handler == "slow":
            tr = t0 + EAD + rng.randrange(1, 5 * M)
        else:
            tr = t0 + rng.choice([rng.randrange(1, EAD - 1), EAD + rng.randrange(1, M)])
        if handler != "never":
            events.append(respond(clock.at(tr), srv, code=ISE if handler == "error" else CONTENT,
                                  body=20 + i, nr=rng.choice([2, 26]) if handler == "nr" else 0))
        srv += 1
        # duplicates
        for _ in range(rng.randrange(0, 4)):
            off = rng.choice([1, EAD - 1, EAD + 1, rng.randrange(1, 3 * M), EL - 1, EL + 1,
                              EL + rng.randrange(2, M), rng.randrange(1, EL)])
            events.append(request_in(clock.at(t0 + off), remote, mid, token, mtype=mtype,
                                     code=events[-1][5] if events[-1][0] == "R" else GET, body=i + 1))
            if off > EL:
                srv += 1        # processed as a new request
    # a transport error reported for one of the peers (an answer bounced with ICMP unreachable, ...): what was
    # received from it before must still be recognised as a duplicate afterwards
    if rng.random() < 0.4:
        tmax = max(e[1] for e in events)
        for _ in range(rng.randrange(1, 3)):
            events.append(["E", clock.at(rng.choice([rng.randrange(1, 3 * M), rng.randrange(1, min(tmax, EL) + 2)])),
                           rng.randrange(3)])
    # own traffic whose message ids collide with the peers'
    if rng.random() < 0.6:
        for r in range(rng.randrange(1, 3)):
            events.append(submit(clock.at(rng.randrange(1, 4 * M)), r, rng.randrange(3),
                                 rel=rng.random() < 0.5))
            rules.append({"remote": events[-1][3], "mtype": "CON", "nth": 1, "do": "piggy",
                          "after": rng.randrange(10, M), "body": 3})
    events.sort(key=lambda e: e[1])
    events.append(far_end(events))
    return {"events": events, "rules": rules, "draws": [], "mid": first_mid, "tag": "random"}


def c04_boundary(cfg):
    """request message IDs at the ends of the 16-bit space (0 is falsy in Python) x how the request was
    acknowledged (piggy-backed, empty ACK of a slow handler, empty ACK of a suppressed response) x CON/NON:
    every copy of a CON gets the acknowledgement that was sent, byte for byte; a NON copy gets nothing"""
    scripts = []
    EAD = cfg["emptyAckDelay"]
    for mid in (0, 1, 0xFFFF):
        for how in ("piggy", "empty", "suppressed"):
            for mtype in ("CON", "NON"):
                t = 5000
                ev = [request_in(t, 0, mid, "b7", mtype=mtype, body=1),
                      respond(t + (1000 if how != "empty" else 2 * EAD), 0, body=22,
                              nr=26 if how == "suppressed" else 0),
                      request_in(t + 5 * EAD, 0, mid, "b7", mtype=mtype, body=1),
                      request_in(t + 3 * M, 0, mid, "b7", mtype=mtype, body=1)]
                ev.append(far_end(ev))
                rules = [{"remote": 0, "mtype": "CON", "nth": 1, "do": "ack", "after": 500}]
                scripts.append({"events": ev, "rules": rules, "draws": [], "tag": f"request-mid:{mid}:{how}:{mtype}"})
    return scripts


def c04_uncopyable(cfg):
    """a piggy-backed response that serialises but cannot be deep-copied (an opaque option set to a memoryview):
    copies of the request still get the acknowledgement that was sent (oracle only: the model has no options)"""
    scripts = []
    EAD = cfg["emptyAckDelay"]
    for speed in ("fast", "slow"):
        t = 5000
        ev = [request_in(t, 0, 4660, "aa", mtype="CON", body=1),
              respond(t + (1000 if speed == "fast" else 2 * EAD), 0, body=21, unsendable="uncopyable"),
              request_in(t + 5 * EAD, 0, 4660, "aa", mtype="CON", body=1),
              request_in(t + 3 * M, 0, 4660, "aa", mtype="CON", body=1)]
        ev.append(far_end(ev))
        rules = [{"remote": 0, "mtype": "CON", "nth": 1, "do": "ack", "after": 500}]
        scripts.append({"events": ev, "rules": rules, "draws": [], "oracle_only": "uncopyable-response",
                        "tag": f"uncopyable-ack:{speed}"})
    return scripts


def c04_alias(rng, cfg):
    """the application hands out ONE response object for all its (quickly answered, confirmable) requests; copies
    of every request arrive afterwards: each still gets the acknowledgement that was sent for it"""
    clock = Clock(rng)
    EAD = cfg["emptyAckDelay"]
    events = []
    reqs = []
    for i in range(rng.randrange(2, 5)):
        remote = rng.randrange(3)
        mid = 4096 + i if rng.random() < 0.7 else 4096
        if (remote, mid) in [(r, m) for (r, m, _, _) in reqs]:
            mid = 5000 + i
        token = "%02x" % (0xa0 + i)
        t0 = clock.after(EAD + 10, 3 * M)
        events.append(request_in(t0, remote, mid, token, mtype="CON", body=i + 1))
        events.append(respond(clock.at(t0 + rng.randrange(1, EAD - 1)), i, body=20 + i,
                              code=rng.choice([CONTENT, CONTENT, NOT_FOUND])))
        reqs.append((remote, mid, token, i + 1))
    t = max(e[1] for e in events) + EAD
    for _ in range(rng.randrange(2, 7)):
        remote, mid, token, body = rng.choice(reqs)
        t = clock.at(t + rng.choice([1, 1000, M, 20 * M]))
        events.append(request_in(t, remote, mid, token, mtype="CON", body=body))
    events.sort(key=lambda e: e[1])
    events.append(far_end(events))
    return {"events": events, "rules": [], "draws": [], "mid": 9000, "tag": "aliased-response-object",
            "alias_responses": True}


CODE_CLASSES = {
    "empty": 0, "request": GET, "request31": 31, "response": CONTENT, "response4": NOT_FOUND,
    "response191": 191, "reserved1": 32, "reserved63": 63, "reserved6": 192, "signalling": 225,
}


def c10_table(cfg=None):
    """incoming type x code class x token known/unknown x unicast/multicast local address"""
    scripts = []
    for mtype in ("CON", "NON", "ACK", "RST"):
        for cname, code in CODE_CLASSES.items():
            for known in (False, True):
                for mc in (False, True, "v4"):
                    ev = []
                    rules = []
                    tok = "-"
                    mid = 900
                    if known:
                        # an outstanding request to remote 0: token counter pinned => token 0x21
                        ev.append(submit(1000, 0, 0, rel=False))
                        tok = "21"
                    t = 5000
                    if code == 0:
                        tok = "-"
                    ev.append(["R", t, 0, mc, mtype, code, mid, tok, None, 4])
                    # the server application answers requests quickly
                    if 1 <= code < 32 and mtype in ("CON", "NON"):
                        ev.append(respond(t + 1000, 0, body=6))
                    ev.append(far_end(ev))
                    scripts.append({"events": ev, "rules": rules, "draws": [],
                                    "tag": f"table:{mtype}:{cname}:{'known' if known else 'unknown'}:{('mc' + (mc if mc == 'v4' else '')) if mc else 'uc'}"})
    # handler speed x No-Response for CON and NON requests
    for mtype in ("CON", "NON"):
        for speed in ("fast", "slow"):
            for nr in (0, 2, 8, 16, 26):
                for code in (CONTENT, NOT_FOUND, ISE):
                    t = 5000
                    ev = [request_in(t, 0, 901, "cc", mtype=mtype, body=1)]
                    tr = t + (50000 if speed == "fast" else 200000)
                    ev.append(respond(tr, 0, code=code, body=6, nr=nr))
                    ev.append(far_end(ev))
                    rules = [{"remote": 0, "mtype": "CON", "nth": 1, "do": "ack", "after": 400}]
                    scripts.append({"events": ev, "rules": rules, "draws": [],
                                    "tag": f"nr:{mtype}:{speed}:{nr}:{code}"})
    # multicast destination
    # message IDs at the ends of the 16-bit space x handler speed x No-Response
    for mid in (0, 1, 0x7FFF, 0x8000, 0xFFFF):
        for speed in ("fast", "slow"):
            for nr in (0, 2, 26):
                for mtype in ("CON", "NON"):
                    t = 5000
                    ev = [request_in(t, 0, mid, "cd", mtype=mtype, body=1)]
                    ev.append(respond(t + (50000 if speed == "fast" else 200000), 0, body=6, nr=nr))
                    ev.append(far_end(ev))
                    rules = [{"remote": 0, "mtype": "CON", "nth": 1, "do": "ack", "after": 700}]
                    scripts.append({"events": ev, "rules": rules, "draws": [],
                                    "tag": f"request-mid:{mid}:{mtype}:{speed}:nr{nr}"})
    # a CON of ours to the peer is still unacknowledged (a separate response, or a request) when a new CON request
    # of that peer is answered quickly: its piggy-backed / empty ACK is not a CON and must not wait in the queue
    for first in ("separate-response", "own-request"):
        for late_ack in (None, 3 * M):
            for nr in (0, 26):
                for speed in ("fast", "slow"):
                    t = 5000
                    ev, srv = [], 0
                    if first == "separate-response":
                        ev += [request_in(t, 0, 901, "c1", mtype="CON", body=1), respond(t + 200000, 0, body=5)]
                        srv = 1
                    else:
                        ev.append(submit(t + 200000, 0, 0, rel=True))
                    tb = t + 400000
                    ev.append(request_in(tb, 0, 902, "c2", mtype="CON", body=2))
                    ev.append(respond(tb + (1000 if speed == "fast" else 200000), srv, body=6, nr=nr))
                    ev.append(far_end(ev))
                    rules = []
                    if late_ack:
                        rules.append({"remote": 0, "mtype": "CON", "nth": 1, "do": "ack", "after": late_ack})
                        rules.append({"remote": 0, "mtype": "CON", "nth": 2, "do": "ack", "after": 900})
                    scripts.append({"events": ev, "rules": rules, "draws": [2 * M + 5, 2 * M + 9],
                                    "tag": f"ack-behind-open-exchange:{first}:{late_ack}:nr{nr}:{speed}"})
    for rel in (True, None, False):
        for mtype in (None, "CON", "NON"):
            ev = [submit(1000, 0, 9, rel=rel, mc=True, mtype=mtype)]
            ev.append(far_end(ev))
            scripts.append({"events": ev, "rules": [], "draws": [], "tag": f"to-multicast:{rel}:{mtype}"})
    scripts += c10_token_reuse((cfg or {}).get("emptyAckDelay", 104857)) + c10_on_exchange()
    # the handler's response cannot be serialised: the request still is acknowledged exactly once under its message
    # ID, and what the application sends instead (a bare 5.00) is a message of its own (oracle only)
    for mtype in ("CON", "NON"):
        for speed in ("fast", "slow"):
            t = 5000
            ev = [request_in(t, 0, 310, "d1", mtype=mtype, body=1)]
            ev.append(respond(t + (50000 if speed == "fast" else 200000), 0, body=6, unsendable=True))
            ev.append(request_in(t + 2 * M, 0, 310, "d1", mtype=mtype, body=1))        # the peer's retransmission
            ev.append(far_end(ev))
            rules = [{"remote": 0, "mtype": "CON", "nth": 1, "do": "ack", "after": 400}]
            scripts.append({"events": ev, "rules": rules, "draws": [], "oracle_only": "unsendable-response",
                            "tag": f"unsendable:{mtype}:{speed}"})
    # a NON request under the message ID of an earlier, acknowledged CON request of that peer (piggy-backed, empty,
    # or the empty ACK of a suppressed response): whatever the duplicate table does, a NON is never acknowledged
    for how in ("piggy", "empty", "suppressed"):
        for tok2 in ("c9", "ca"):
            t = 5000
            ev = [request_in(t, 0, 300, "c9", mtype="CON", body=1)]
            ev.append(respond(t + (1000 if how != "empty" else 300000), 0, body=5, nr=26 if how == "suppressed" else 0))
            ev.append(request_in(t + 600000, 0, 300, tok2, mtype="NON", body=2))
            ev.append(request_in(t + 700000, 1, 300, tok2, mtype="NON", body=3))     # another peer: not a copy
            ev.append(respond(t + 701000, 1, body=6))
            ev.append(far_end(ev))
            rules = [{"remote": r, "mtype": "CON", "nth": 1, "do": "ack", "after": 700} for r in (0, 1)]
            scripts.append({"events": ev, "rules": rules, "draws": [], "tag": f"non-under-con-mid:{how}:{tok2}"})
    return scripts


def c10_token_reuse(EAD):
    """a second request on the token of a confirmable request that is not acknowledged yet (the client re-used
    the token, e.g. after a restart): the first one still has to be acknowledged exactly once under its own
    message ID, the response to the second one must not leave under the first one's ID; the client goes on
    retransmitting the first request"""
    scripts = []
    for second in ("CON", "NON"):
        for gap in (1000, EAD - 1000, EAD + 1000):
            for speed in ("fast", "slow", "never"):
                for other_remote in (False, True):
                    t = 5000
                    ev = [request_in(t, 0, 100, "aa", mtype="CON", body=1)]
                    ev.append(request_in(t + gap, 1 if other_remote else 0, 101, "aa", mtype=second, body=2))
                    if speed != "never":
                        ev.append(respond(t + gap + (2000 if speed == "fast" else 3 * EAD), 1, body=7))
                    # the peer retransmits the first request
                    for k, dt in enumerate((2 * M, 6 * M)):
                        ev.append(request_in(t + dt, 0, 100, "aa", mtype="CON", body=1))
                    ev.sort(key=lambda e: e[1])
                    ev.append(far_end(ev))
                    rules = [{"remote": r, "mtype": "CON", "nth": 1, "do": "ack", "after": 700} for r in (0, 1)]
                    scripts.append({"events": ev, "rules": rules, "draws": [],
                                    "tag": f"token-reuse:{second}:{gap}:{speed}:{'other' if other_remote else 'same'}"})
    return scripts


def is_misfit(mtype, code):
    """RFC 7252 table 1: which code classes may travel on which message type"""
    if code == 0:
        return mtype == "NON"
    if 1 <= code < 32:
        return mtype in ("ACK", "RST")
    if 64 <= code < 192:
        return mtype == "RST"
    return True


def c10_on_exchange():
    """every type x code class aimed at the message ID of a confirmable request of ours that is in flight (and,
    for the duplicate table, followed by a genuine confirmable request of the peer under that very ID): what does
    not fit must change nothing -- props/C10.py also runs each script without its misfits and compares"""
    scripts = []
    for mtype in ("CON", "NON", "ACK", "RST"):
        for cname, code in CODE_CLASSES.items():
            for tok in ("21", "77"):
                for follow in (False, True):
                    ev = [submit(1000, 0, 0, rel=True)]
                    t = 500000
                    ev.append(["R", t, 0, False, mtype, code, 4096, "-" if code == 0 else tok, None, 4])
                    srv = 0
                    if 1 <= code < 32 and mtype in ("CON", "NON"):
                        ev.append(respond(t + 1000, srv, body=6))
                        srv += 1
                    if follow:
                        ev.append(request_in(t + 300000, 0, 4096, "c7", mtype="CON", body=3))
                        ev.append(respond(t + 301000, srv, body=8))
                    ev.append(far_end(ev))
                    scripts.append({"events": ev, "rules": [], "mid": 4096, "draws": [2 * M + 11],
                                    "tag": f"on-exchange:{mtype}:{cname}:{tok}:{'follow' if follow else 'alone'}"})
    return scripts


def c10_shared_response(cfg):
    """the application hands out ONE response object for all its requests (a pre-built representation), which are of
    different kinds in turn -- fast CON (piggy-backed), slow CON (separate response after the empty ACK), NON: the
    type each answer goes out with is chosen for that answer, not left over from the previous one"""
    EAD = cfg["emptyAckDelay"]
    scripts = []
    kinds = {"fast-CON": ("CON", 5000), "slow-CON": ("CON", EAD + 200000), "NON": ("NON", 5000)}
    names = list(kinds)
    for a in names:
        for b in names:
            for c in (None,) + tuple(names):
                seq = [a, b] + ([c] if c else [])
                ev, t = [], 1000
                for i, k in enumerate(seq):
                    mtype, delay = kinds[k]
                    ev.append(request_in(t, 0, 900 + i, "%02x" % (0xa0 + i), mtype=mtype, body=i + 1))
                    ev.append(respond(t + delay, i, body=20 + i))
                    t += EAD + 400000
                ev.append(far_end(ev))
                scripts.append({"events": ev, "rules": [{"remote": 0, "mtype": "CON", "nth": n, "do": "ack", "after": 300}
                                                        for n in (1, 2, 3)],
                                "draws": [2 * M, 2 * M, 2 * M], "mid": 9000, "alias_responses": True,
                                "tag": "shared-response-object:" + ">".join(seq)})
    return scripts


def c10_random(rng, cfg):
    clock = Clock(rng)
    events, rules = [], []
    nsub = rng.randrange(0, 3)
    for r in range(nsub):
        events.append(submit(clock.after(1, M), r, rng.randrange(2), rel=rng.random() < 0.5,
                             observing=rng.random() < 0.3))
    srv = 0
    for i in range(rng.randrange(1, 6)):
        mtype = rng.choice(["CON", "NON", "ACK", "RST"])
        code = rng.choice(list(CODE_CLASSES.values()))
        tok = rng.choice(["21", "22", "23", "-", "77"])
        if code == 0:
            tok = "-"
        t = clock.after(1, 3 * M)
        events.append(["R", t, rng.randrange(2), rng.random() < 0.2, mtype, code, 900 + i, tok,
                       rng.choice([None, None, 5]), i])
        if 1 <= code < 32 and mtype in ("CON", "NON"):
            if rng.random() < 0.8:
                dt = rng.choice([rng.randrange(1, cfg["emptyAckDelay"] - 1),
                                 cfg["emptyAckDelay"] + rng.randrange(1, M)])
                events.append(respond(clock.at(t + dt), srv, body=i, nr=rng.choice([0, 0, 2, 8, 16, 26]),
                                      code=rng.choice([CONTENT, NOT_FOUND, ISE])))
            srv += 1
    events.sort(key=lambda e: e[1])
    events.append(far_end(events))
    for remote in range(2):
        rules.append({"remote": remote, "mtype": "CON", "nth": 1, "do": rng.choice(["ack", "rst", "piggy"]),
                      "after": rng.randrange(10, 2 * M)})
    return {"events": events, "rules": rules, "draws": [], "tag": "random"}


# ---------------------------------------------------------------------------------------------
# C02 / C18: concurrent clients, forged responses, shutdown
# ---------------------------------------------------------------------------------------------

def c02_copied_messages():
    """requests built as `.copy()` of the Message of an earlier request (the "same request again" idiom): while the
    earlier one is still outstanding to the same endpoint, after it completed with a duplicated / late response
    still to come, and to another endpoint -- tokens stay pairwise different and every response reaches its own
    request (oracle only: the model has no message objects)"""
    scripts = []
    for rel in (False, True):
        for second_remote in (0, 1):
            for answer_first in ("older", "newer"):
                ev = [submit(1000, 0, 0, rel=rel), submit(300000, 1, second_remote, rel=rel, body=101)]
                mt = "CON" if rel else "NON"
                if rel:
                    rules = [{"remote": 0, "mtype": "CON", "nth": 1, "do": "ack", "after": 500},
                             {"remote": second_remote, "mtype": "CON", "nth": 2 if second_remote == 0 else 1,
                              "do": "ack", "after": 500}]
                else:
                    rules = []
                d0, d1 = (2 * M, 3 * M) if answer_first == "older" else (3 * M, 2 * M)
                rules.append({"remote": 0, "mtype": mt, "nth": 1, "do": "sep", "ptype": "NON", "pmid": 9001,
                              "after": d0, "body": 200})
                rules.append({"remote": second_remote, "mtype": mt, "nth": 2 if second_remote == 0 else 1,
                              "do": "sep", "ptype": "NON", "pmid": 9002, "after": d1, "body": 201})
                ev.append(far_end(ev))
                scripts.append({"events": ev, "rules": rules, "draws": [2 * M + 3, 2 * M + 5], "copy_of": {"1": 0},
                                "oracle_only": "copied-message",
                                "tag": f"copied-message:{mt}:{second_remote}:{answer_first}"})
    # poll loop: the earlier request completed; its response is duplicated by the network and the copy arrives
    # while the next poll (a copy of the first message) is outstanding
    for rel in (False, True):
        mt = "CON" if rel else "NON"
        ev = [submit(1000, 0, 0, rel=rel), submit(4 * M, 1, 0, rel=rel, body=101)]
        rules = [{"remote": 0, "mtype": mt, "nth": 1, "do": "sep", "ptype": "NON", "pmid": 9001, "after": M, "body": 200},
                 {"remote": 0, "mtype": mt, "nth": 1, "do": "sep", "ptype": "NON", "pmid": 9001, "after": 5 * M, "body": 200},
                 {"remote": 0, "mtype": mt, "nth": 2, "do": "sep", "ptype": "NON", "pmid": 9002, "after": 3 * M, "body": 201}]
        if rel:
            rules += [{"remote": 0, "mtype": "CON", "nth": k, "do": "ack", "after": 500} for k in (1, 2)]
        ev.append(far_end(ev))
        scripts.append({"events": ev, "rules": rules, "draws": [2 * M + 3, 2 * M + 5], "copy_of": {"1": 0},
                        "oracle_only": "copied-message", "tag": f"copied-message:poll:{mt}"})
    return scripts


def c02_random(rng, cfg, with_shutdown=None):
    clock = Clock(rng)
    events, rules, draws = [], [], []
    nreq = rng.randrange(1, 6)
    token0 = 32
    for r in range(nreq):
        remote = rng.randrange(3)
        is_con = rng.random() < 0.6
        t = clock.after(1, rng.choice([100, M, 5 * M]))
        events.append(submit(t, r, remote, rel=is_con, observing=rng.random() < 0.2,
                             maxretr=rng.choice([4, 2, 0])))
        draws.append(rng.randrange(2 * M, 3 * M + 1))
        tok = "%02x" % (token0 + 1 + r)
        # network decisions for the answer
        c = rng.random()
        if c < 0.15:
            pass                                     # lost for good
        else:
            n = 2 if rng.random() < 0.25 else 1      # duplicated?
            for _ in range(n):
                kind = rng.choice(["piggy", "sep-con", "sep-non"]) if is_con else "sep-non"
                delay = rng.choice([200, M, 4 * M, 30 * M])
                if kind == "piggy":
                    rules.append({"remote": remote, "mtype": "CON", "nth": len([x for x in rules if x["remote"] == remote and x["do"] == "piggy"]) + 1,
                                  "do": "piggy", "after": delay, "body": 200 + r})
                else:
                    events.append(["R", clock.at(t + delay), remote, False, "CON" if kind == "sep-con" else "NON",
                                   CONTENT, 3000 + 10 * r + _, tok, None, 200 + r])
        # forged responses: guessed token, sniffed token from another address, retired token
        if rng.random() < 0.5:
            forged_from = rng.choice([remote, (remote + 1) % 3, 3])
            forged_tok = rng.choice([tok, "%02x" % (token0 + 1 + rng.randrange(nreq)), "99", "-"])
            events.append(["R", clock.at(t + rng.randrange(1, 40 * M)), forged_from, rng.random() < 0.15,
                           rng.choice(["CON", "NON", "ACK"]), CONTENT, 5000 + r, forged_tok, None, 666])
    if rng.random() < 0.25:
        events.append(["E", clock.at(rng.randrange(1, 60 * M)), rng.randrange(3)])
    if rng.random() < 0.25:
        # a multicast request stays outstanding (it is not tied to one responding endpoint) while transport
        # errors and time-outs for other requests are reported
        events.append(submit(clock.at(rng.randrange(1, 5 * M)), 40, 9, rel=False, mc=True))
        if rng.random() < 0.5:
            events.append(["R", clock.at(rng.randrange(6 * M, 20 * M)), rng.randrange(3), False, "NON", CONTENT, 7000,
                           "%02x" % (token0 + 1 + nreq), None, 240])
    if rng.random() < 0.15:
        victim = rng.randrange(nreq)
        tsub = [e[1] for e in events if e[0] == "S" and e[2] == victim][0]
        events.append(["C", clock.at(tsub + rng.randrange(1, 20 * M)), victim])
    shut = rng.random() < 0.4 if with_shutdown is None else with_shutdown
    events.sort(key=lambda e: e[1])
    if shut:
        ts = clock.at(rng.randrange(1, events[-1][1] + 10 * M))
        events.append(["X", ts])
        if rng.random() < 0.5:
            events.append(submit(clock.at(ts + rng.randrange(1, M)), nreq, 0, rel=True))
        if rng.random() < 0.5:
            # a request submitted while the shutdown is in progress (same tick, k loop iterations later): it, too,
            # completes exactly once with the shutdown error
            ev = submit(ts, nreq + 1, rng.randrange(3), rel=rng.random() < 0.5)
            ev += [None, rng.randrange(0, 7)]
            events.append(ev)
        events.sort(key=lambda e: e[1])
    events.append(far_end(events))
    return {"events": events, "rules": rules, "draws": draws, "tag": "random"}


def c18_random(rng, cfg):
    """busy both-sided scenario, shutdown at a random instant"""
    clock = Clock(rng)
    s = c02_random(rng, cfg, with_shutdown=False)
    events = [e for e in s["events"] if e[0] != "A"]
    used = {e[1] for e in events}
    clock.used = used
    srv = 0
    for i in range(rng.randrange(1, 4)):
        t = clock.at(rng.randrange(1, 20 * M))
        mtype = rng.choice(["CON", "CON", "NON"])
        events.append(request_in(t, rng.randrange(3), 700 + i, "%02x" % (0xd0 + i), mtype=mtype,
                                 obs=rng.choice([None, 0]), body=i))
        c = rng.random()
        if c < 0.5:
            events.append(respond(clock.at(t + rng.choice([50000, 200000, 3 * M])), srv, body=i,
                                  last=rng.random() < 0.6, obs=rng.choice([None, 1])))
        srv += 1
        if rng.random() < 0.3:
            # the same peer issues a new request on the same token (renewed observation, recycled token) while the
            # first one is still being served
            prev = events[-1] if events[-1][0] == "R" else events[-2]
            events.append(request_in(clock.at(t + rng.choice([7, 150000, 4 * M])), prev[2], 760 + i, prev[7],
                                     mtype=mtype, obs=rng.choice([None, 0]), body=20 + i))
            srv += 1
    events.sort(key=lambda e: e[1])
    horizon = events[-1][1] + 2 * M
    ts = clock.at(rng.choice([rng.randrange(1, horizon), events[rng.randrange(len(events))][1] + rng.choice([1, 1000, 104858 - 1, 104858 + 1])]))
    events.append(["X", ts])
    if rng.random() < 0.5:
        events.append(submit(clock.at(ts + rng.randrange(1, 3 * M)), 50, 0, rel=True))
    if rng.random() < 0.3:
        # a request submitted while the shutdown is in progress: same tick, k loop iterations later
        ev = submit(ts, 51, rng.randrange(3), rel=rng.random() < 0.5)
        ev += [None, rng.randrange(0, 7)]
        events.append(ev)
    if rng.random() < 0.5:
        events.append(respond(clock.at(ts + rng.randrange(1, 3 * M)), 0, body=1))
    events.sort(key=lambda e: e[1])
    events.append(far_end(events))
    return {"events": events, "rules": s["rules"], "draws": s["draws"], "tag": "random"}


def c18_twice(rng, cfg):
    """the application calls shutdown() a second time: from another task while the first call is still in
    progress (same tick), or later (clean-up code that does not know it has run already)"""
    s = c18_random(rng, cfg)
    ts = [e[1] for e in s["events"] if e[0] == "X"][0]
    events = [e for e in s["events"] if e[0] != "A"]
    used = {e[1] for e in events}
    if rng.random() < 0.5:
        events.append(["X", ts, False, True])                 # concurrent
        kind = "concurrent"
    else:
        t2 = ts + rng.choice([1, 1000, 2 * M, 10 * M])
        while t2 in used:
            t2 += 1
        events.append(["X", t2])
        kind = "later"
    events.sort(key=lambda e: e[1])
    events.append(far_end(events))
    return dict(s, events=events, tag="shutdown-twice:" + kind)


def c18_handler(rng):
    """a served request whose handler awaits a request of its own through the same context (as the
    forward proxy does); shutdown while it waits.  Oracle-only."""
    clock = Clock(rng)
    events = []
    n = rng.randrange(1, 3)
    for i in range(n):
        t = clock.after(100, 2 * M)
        events.append(request_in(t, i, 600 + i, "%02x" % (0xc0 + i), mtype=rng.choice(["CON", "NON"]), body=i))
        events.append(["H", clock.at(t + rng.randrange(10, 300000)), i, 70 + i, 3])
    if rng.random() < 0.5:
        events.append(submit(clock.after(1, M), 0, 1, rel=rng.random() < 0.5))
    events.sort(key=lambda e: e[1])
    ts = clock.at(events[-1][1] + rng.choice([1, 1000, 3 * M]))
    events.append(["X", ts])
    events.append(far_end(events))
    return {"events": events, "rules": [], "draws": [], "tag": "handler-request",
            "oracle_only": "handler-awaits-own-request", "second_context": True}


def c18_obs_cancelled(rng):
    """observing requests whose observation the application cancels (before the first response, or after it),
    other requests outstanding, then shutdown.  Oracle-only (the model has no ClientObservation objects)."""
    clock = Clock(rng)
    events, rules = [], []
    n = rng.randrange(1, 4)
    for r in range(n):
        t = clock.after(100, M)
        observing = r == 0 or rng.random() < 0.5
        events.append(submit(t, r, r % 3, rel=rng.random() < 0.7, observing=observing))
        if observing and (r == 0 or rng.random() < 0.7):
            events.append(["O", clock.at(t + rng.choice([1, 500, 3 * M])), r])
        if rng.random() < 0.4:
            rules.append({"remote": r % 3, "mtype": None, "nth": 1, "after": rng.choice([300, 2 * M]),
                          "do": "piggy" if events[-1][0] != "O" and rng.random() < 0.5 else "ack",
                          "obs": rng.choice([None, 5]), "body": 7})
    events.sort(key=lambda e: e[1])
    ts = clock.at(events[-1][1] + rng.choice([1, 1000, 3 * M]))
    events.append(["X", ts])
    if rng.random() < 0.6:
        events.append(submit(clock.at(ts + rng.randrange(1, 3 * M)), 50, 0, rel=True))
    events.sort(key=lambda e: e[1])
    events.append(far_end(events))
    return {"events": events, "rules": rules, "draws": [], "tag": "observation-cancelled",
            "oracle_only": "application-cancelled-observation", "second_context": True}


def c18_obs_consumer(rng):
    """an established observation the application iterates over with `async for`; notifications arrive around --
    and in the very loop iteration of -- the shutdown call.  Oracle-only."""
    clock = Clock(rng)
    events = []
    tok = "21"          # first token of the pinned counter (script token 32 -> 0x21)
    events.append(submit(1000, 0, 0, rel=True, observing=True))
    rules = [{"remote": 0, "mtype": "CON", "nth": 1, "after": 500, "do": "piggy", "obs": 1, "body": 1}]
    t = 1000 + 500
    mid = 5000
    quiet = rng.random() < 0.15           # established, and no notification ever arrives
    for i in range(0 if quiet else rng.randrange(0, 4)):
        t = clock.at(t + rng.choice([1, 1000, M]))
        events.append(["R", t, 0, False, "NON", CONTENT, mid, tok, 2 + i, 2 + i])
        mid += 1
    ts = clock.at(t + rng.choice([1, 1000, 2 * M]))
    note = ["R", ts, 0, False, rng.choice(["NON", "CON"]), CONTENT, mid, tok, 50, 50]
    k = 5 if quiet else rng.randrange(6)
    if k == 0:
        # the application calls shutdown(); the datagram is dispatched later in the same loop iteration
        events.append(["N", ts, [["X", ts, rng.random() < 0.7], note]])
    elif k == 1:
        events.append(["N", ts, [note, ["X", ts, rng.random() < 0.7]]])
    elif k == 2:
        events += [["N", ts, [note]], ["X", ts + 1]]
    elif k == 3:
        events += [["X", ts], ["N", ts + 1, [note]]]
    elif k == 4:
        events.append(["N", ts, [note, ["R", ts, 0, False, "NON", CONTENT, mid + 1, tok, 51, 51],
                                 ["X", ts, rng.random() < 0.7]]])
    else:
        events.append(["X", ts])
    tag = "observation-consumer"
    if rng.random() < 0.35:
        # the application stops the task that iterates (worker cancelled, wait_for around the iteration timed out)
        # some time before it shuts the context down; another request is outstanding and must still be failed
        tk = clock.at(max(1600, ts - rng.choice([1, 1000, M])))
        if tk < ts:
            events.append(["K", tk, 0])
            events.append(submit(clock.at(max(1700, tk - 50)), 1, 1, rel=False))
            tag = "observation-consumer-cancelled"
    consume = True
    if tag == "observation-consumer" and rng.random() < (0.7 if quiet else 0.25):
        # the application starts iterating only after its shutdown() has returned (it awaited the response, did
        # something else): it must be told the end, whether or not a notification had arrived before
        consume, tag = "late", "observation-consumer-late"
    events.sort(key=lambda e: e[1])
    events.append(far_end(events))
    return {"events": events, "rules": rules, "draws": [], "tag": tag, "consume": consume,
            "oracle_only": "application-iterates-observation", "second_context": True}


def c18_blockwise(rng):
    """shutdown in the middle of a block-wise transfer through the default API (BlockwiseRequest): a Block2 download,
    a Block1 upload, a block-wise observation; the peer answers block by block.  Oracle-only."""
    clock = Clock(rng)
    kind = rng.choice(["download", "upload", "observe"])
    nblocks = rng.randrange(2, 5)
    blk = lambda num, more: "%02x" % ((num << 4) | (8 if more else 0))        # szx 0: 16-byte blocks
    rules = []
    events = []
    if kind == "upload":
        events.append(submit(1000, 0, 0, rel=True, code=POST))
        bw = {"0": {"szx": 0, "upload": 16 * (nblocks - 1) + rng.choice([1, 9, 16])}}
        for k in range(nblocks):
            last = k == nblocks - 1
            rules.append({"remote": 0, "mtype": "CON", "nth": k + 1, "after": rng.choice([300, M // 2]), "do": "piggy",
                          "code": 68 if last else 95, "opts": [[27, blk(k, not last)]], "payload_hex": ""})
    else:
        events.append(submit(1000, 0, 0, rel=True, observing=(kind == "observe")))
        bw = {"0": {"szx": 0}}
        for k in range(nblocks):
            last = k == nblocks - 1
            rules.append({"remote": 0, "mtype": "CON", "nth": k + 1, "after": rng.choice([300, M // 2]), "do": "piggy",
                          "code": 69, "obs": 1 if (kind == "observe" and k == 0) else None,
                          "opts": [[23, blk(k, not last)]], "payload_hex": ("%02x" % (65 + k)) * (16 if not last else 5)})
    if rng.random() < 0.3:
        rules = rules[:rng.randrange(1, len(rules) + 1)]        # the peer falls silent in the middle
    if rng.random() < 0.5:
        events.append(submit(clock.at(1500), 1, 1, rel=rng.random() < 0.5))      # a neighbour
    ts = clock.at(1000 + rng.choice([1, 200, 350, M // 2 + 50, M, 2 * M, rng.randrange(1, 4 * M)]))
    events.append(["X", ts])
    if rng.random() < 0.5:
        events.append(submit(clock.at(ts + rng.randrange(1, M)), 50, 0, rel=True))
    events.sort(key=lambda e: e[1])
    events.append(far_end(events))
    return {"events": events, "rules": rules, "draws": [], "tag": "blockwise:" + kind, "blockwise": bw,
            "oracle_only": "blockwise-transfer", "second_context": True}


def c02_boundary():
    """token counter at byte boundaries and at the 64-bit wrap; a long run in which the counter passes
    0x100 while the request with token 01 is still outstanding"""
    scripts = []
    for start in (0xFE, 0xFFFE, 0xFFFFFE, 2 ** 64 - 3):
        ev = []
        toks = []
        for i in range(4):
            ev.append(submit(1000 + 10 * i, i, 0, rel=False))
            n = (start + 1 + i) % (2 ** 64)
            toks.append(n.to_bytes(8, "big").lstrip(b"\0").hex() or "-")
        for i in range(4):
            ev.append(["R", 5000 + 10 * i, 0, False, "NON", CONTENT, 3000 + i, toks[3 - i], None, 200 + (3 - i)])
        ev.append(far_end(ev))
        scripts.append({"events": ev, "rules": [], "draws": [], "token": start, "tag": f"token-boundary:{start:x}"})
    ev = []
    for i in range(257):
        ev.append(submit(1000 + 10 * i, i, 0, rel=False))
    # answers for the first and the 256th request (tokens 01 and 0100), in reverse order
    ev.append(["R", 10000, 0, False, "NON", CONTENT, 3000, "0100", None, 455])
    ev.append(["R", 10010, 0, False, "NON", CONTENT, 3001, "01", None, 200])
    ev.append(far_end(ev))
    scripts.append({"events": ev, "rules": [], "draws": [], "token": 0, "tag": "token-long-run"})
    # message IDs of the PEER's responses: a response is matched by token and source, never by the message ID it
    # happens to come under.  (a) a second copy of a separate CON response that has completed its request finds the
    # token retired: Reset; (b) an unmatched (forged / stray) response, then the genuine one under the same message
    # ID: the first is Reset (CON) / ignored (NON), the second completes the request
    for rq in ("CON", "NON"):
        for mt in ("CON", "NON"):
            for gap in (1000, 3 * M):
                sub = submit(1000, 0, 0, rel=(rq == "CON"))
                rules = [{"remote": 0, "mtype": "CON", "nth": 1, "after": 300, "do": "ack"}] if rq == "CON" else []
                ev = [sub, ["R", 5000, 0, False, mt, CONTENT, 9100, "21", None, 201],
                      ["R", 5000 + gap, 0, False, mt, CONTENT, 9100, "21", None, 201]]
                scripts.append({"events": ev + [far_end(ev)], "rules": rules, "draws": [2 * M], "tag":
                                f"peer-mid:response-duplicate:{rq}:{mt}:{gap}"})
                ev = [sub, ["R", 5000, 0, False, mt, CONTENT, 9100, "7f", None, 666],
                      ["R", 5000 + gap, 0, False, mt, CONTENT, 9100, "21", None, 201]]
                scripts.append({"events": ev + [far_end(ev)], "rules": rules, "draws": [2 * M], "tag":
                                f"peer-mid:unmatched-then-genuine:{rq}:{mt}:{gap}"})
    return scripts


def c02_sendfail(rng, cfg):
    """c02_random plus a window in which sendmsg() to one endpoint raises; oracle-only"""
    s = c02_random(rng, cfg, with_shutdown=False)
    events = [e for e in s["events"] if e[0] != "A"]
    used = {e[1] for e in events}
    subs = [e for e in events if e[0] == "S"]
    victim = rng.choice(subs)
    t_on = victim[1] - rng.choice([1, 5, 50])
    while t_on in used or t_on < 1:
        t_on += 1 if t_on >= 1 else 2
    t_off = victim[1] + rng.choice([1, 500, 3 * M, 50 * M])
    while t_off in used:
        t_off += 1
    events += [["F", t_on, victim[3], True], ["F", t_off, victim[3], False]]
    events.sort(key=lambda e: e[1])
    events.append(far_end(events))
    return {"events": events, "rules": s["rules"], "draws": s["draws"], "tag": "sendfail",
            "oracle_only": "synchronous-send-error"}
