"""C06 helpers: a socket-less virtual-clock event loop and the runner that drives the real
`Resource.render_to_pipe` / `TimeoutDict` with scripted requests.

Time is counted in integer ticks of 2**-10 s; the loop's `time()` is `ticks / 1024.0`, which
is exact in binary floating point, as is every `time() + timeout` the code computes as long as
the timeout itself is a whole number of ticks (checked by `ticks_of`).
"""
import asyncio
import logging

from common import HarnessError

TICK = 1.0 / 1024


def ticks_of(seconds):
    t = seconds / TICK
    if t != int(t):
        raise HarnessError(f"timeout {seconds!r} s is not a whole number of 2^-10 s ticks")
    return int(t)


class _NullSelector:
    def select(self, timeout=None):
        return []

    def close(self):
        pass


class VLoop(asyncio.BaseEventLoop):
    """asyncio loop without selector/sockets whose clock only moves when told to."""

    def __init__(self):
        super().__init__()
        self._vticks = 0
        self._selector = _NullSelector()

    def time(self):
        return self._vticks * TICK

    def _process_events(self, event_list):
        pass

    def _write_to_self(self):
        pass

    @property
    def ticks(self):
        return self._vticks

    def _next_timer(self):
        live = [h._when for h in self._scheduled if not h._cancelled]   # read-only scan
        return min(live) if live else None

    def advance(self, dticks):
        """Move the clock forward, running every timer callback at exactly its deadline."""
        if dticks:
            self.run_until_complete(self.aadvance(dticks))

    async def aadvance(self, dticks):
        """`advance` from inside a coroutine running on this loop.  After the clock is set to a
        deadline the coroutine yields twice: in the first loop iteration its own resumption runs
        before the due timer callbacks, in the second it resumes after them."""
        target = self._vticks + dticks
        while True:
            w = self._next_timer()
            if w is None or w > target * TICK:
                break
            wt = w / TICK
            if wt != int(wt):
                raise HarnessError(f"timer deadline {w!r} is not on the tick grid")
            self._vticks = max(self._vticks, int(wt))
            await asyncio.sleep(0)
            await asyncio.sleep(0)
            if self._next_timer() == w:
                raise HarnessError("a due timer did not run")
        self._vticks = target

    def cancel_all(self):
        for h in list(self._scheduled):
            h.cancel()


async def _noop():
    return None


LOG = logging.getLogger("verif-c06")
__import__("common").quiet(LOG)
LOG.propagate = False


def blk_str(b):
    if b is None:
        return "-"
    return f"{int(b.block_number)}/{1 if b.more else 0}/{int(b.size_exponent)}"


def opts_of(msg):
    """All options except Block1/Block2 as (number, encoded value), in option_list order."""
    out = []
    for o in msg.opt.option_list():
        n = int(o.number)
        if n in (23, 27):
            continue
        out.append((n, bytes(o.encode())))
    return out


def opts_str(opts):
    if not opts:
        return "_"
    return ";".join(f"{n}={v.hex() if v else '-'}" for n, v in opts)


def hexs(b):
    return b.hex() if b else "-"


def blk_raw(msg, number):
    """The block option's value as the integer on the wire, from the parsed message."""
    for o in msg.opt.option_list():
        if int(o.number) == number:
            return str(int.from_bytes(o.encode(), "big"))
    return "-"


# where the resources of a World are registered when a script goes through a `Site`: (resource index,
# path).  Resources 0 and 3 are reachable under more than one path (an alias, and for 0 also through a
# nested site), so that one resource object -- one spool, one cache -- serves several URIs.
SITE_PATHS = [(0, ("r0",)), (0, ("alias", "of", "r0")), (0, ("sub", "r0")),
              (1, ("r1",)), (2, ("r2",)), (2, ("sub", "r2")), (3, ("r3",)), (3, ("r3", "again"))]


class Held:
    """A request whose handler has been invoked and is suspended (or a request that is answered)."""

    def __init__(self):
        self.task = None
        self.events = []
        self.raised = []
        self.release = None       # future the handler waits for
        self.wake = None          # future of the harness: something happened
        self.seen = []
        self.entry = "-"
        self.entered = None       # the request as the resource got it
        self.direct_result = None
        self.wake2 = None
        self.res_index = None
        self.obs_call = None


class World:
    """The implementation side of one script: resources of the tree under test on a VLoop."""

    def __init__(self, aiocoap, n_resources=4):
        from aiocoap import resource
        from aiocoap.transports.udp6 import UDP6EndpointAddress
        self.aiocoap = aiocoap
        self.loop = VLoop()
        world = self

        class Remote(UDP6EndpointAddress):
            _mps = 1124

            @property
            def maximum_payload_size(self):
                return self._mps

        class Iface:
            pass

        class TestResource(resource.Resource):
            def __init__(self):
                super().__init__()
                self.assemble = True

            async def needs_blockwise_assembly(self, request):
                return self.assemble

            async def render_to_pipe(self, pipe):
                world.entries.append((self, pipe.request))
                return await super().render_to_pipe(pipe)

            async def render(self, request):
                world.seen.append(request)
                world.seen_snap.append(
                    (int(request.code), request.opt.block1, request.opt.block2,
                     opts_of(request), bytes(request.payload)))
                # what this invocation answers is fixed when it begins
                script_response = world.script_response
                cur = world.current
                if cur is not None and world.hold:
                    # the handler suspends (it waits for a back end, say) until the script lets it go on
                    cur.release = world.loop.create_future()
                    if not cur.wake.done():
                        cur.wake.set_result("entered")
                    await cur.release
                hcode, hopts, hpayload = script_response[:3]
                if len(script_response) > 3 and script_response[3]:
                    if script_response[3].startswith("ret:"):
                        # the handler returns something that is not a message
                        return {"ret:None": None, "ret:str": "no message", "ret:int": 205}[script_response[3]]
                    raise world.exception_of(script_response[3])
                from aiocoap import Message
                from aiocoap.numbers.optionnumbers import OptionNumber
                m = Message(code=aiocoap.Code(hcode), payload=hpayload)
                for n, v in hopts:
                    on = OptionNumber(n)
                    o = on.create_option(decode=v)
                    m.opt.add_option(o)
                return m

        class TestObservable(resource.ObservableResource):
            """An `ObservableResource` (its own `_render_to_pipe`); `accepts` says whether
            `add_observation` accepts the observation.  Every call of `add_observation` is
            recorded: it tells which way the request took."""

            def __init__(self, accepts):
                super().__init__()
                self.assemble = True
                self.accepts = accepts

            async def needs_blockwise_assembly(self, request):
                return self.assemble

            async def render_to_pipe(self, pipe):
                world.entries.append((self, pipe.request))
                return await super().render_to_pipe(pipe)

            async def add_observation(self, request, serverobservation):
                world.obs_calls.append(
                    (int(request.code), request.opt.block1, request.opt.block2, bytes(request.payload)))
                if self.accepts:
                    serverobservation.accept(lambda: world.obs_cancelled.append(1))

            render = TestResource.render

        self.Remote = Remote
        self.iface = Iface()
        self.seen = []
        self.seen_snap = []
        self.obs_calls = []
        self.obs_cancelled = []
        self.entries = []
        self.script_response = None
        self.current = None
        self.hold = False
        self.tasks = []
        asyncio.set_event_loop(None)
        # resources 0 and 1 are plain, 2 is an observable resource that declines observations, 3 one
        # that accepts them
        makers = [TestResource, TestResource, lambda: TestObservable(False), lambda: TestObservable(True)]
        self.resources = [makers[i % 4]() for i in range(n_resources)]
        self.observable = [i % 4 >= 2 for i in range(n_resources)]
        self.site = None
        if n_resources >= 4:
            self.site = resource.Site()
            subs = {}
            for ri, path in SITE_PATHS:
                if path[0] == "sub":
                    if "sub" not in subs:
                        subs["sub"] = resource.Site()
                        self.site.add_resource(["sub"], subs["sub"])
                    subs["sub"].add_resource(list(path[1:]), self.resources[ri])
                else:
                    self.site.add_resource(list(path), self.resources[ri])

    def close(self):
        for t in self.tasks:
            if not t.done():
                t.cancel()
        pend = [t for t in self.tasks if not t.done()]
        if pend and not self.loop.is_closed():
            self.loop.run_until_complete(asyncio.gather(*pend, return_exceptions=True))
        self.loop.cancel_all()
        self.loop.close()

    def exception_of(self, name):
        """The exception a scripted handler raises: a class of aiocoap.error (a RenderableError)
        or a builtin exception, by name."""
        import builtins
        from aiocoap import error
        cls = getattr(error, name, None)
        if cls is None:
            cls = getattr(builtins, name, None)
        if not (isinstance(cls, type) and issubclass(cls, Exception)):
            raise HarnessError(f"unknown exception {name!r} in a script")
        return cls() if cls is not KeyError else cls("scripted")

    def remote(self, ep):
        """ep = (sockaddr tuple, pktinfo bytes or None, mps, mszx) -> fresh address object"""
        sockaddr, pktinfo, mps, mszx = ep
        r = self.Remote(tuple(sockaddr), self.iface, pktinfo=pktinfo)
        r._mps = mps
        r.maximum_block_size_exp = mszx
        return r

    def incoming(self, ep, code, opts, b1, b2, payload, mid):
        """Build the request as a peer would (own Message, encode) and parse it like the
        transport does (`Message.decode(data, remote)`)."""
        aiocoap = self.aiocoap
        from aiocoap import Message
        from aiocoap.numbers.optionnumbers import OptionNumber
        m = Message(code=aiocoap.Code(code), payload=payload)
        for n, v in opts:
            m.opt.add_option(OptionNumber(n).create_option(decode=v))
        if b1 is not None:
            m.opt.block1 = tuple(b1)
        if b2 is not None:
            m.opt.block2 = tuple(b2)
        m.mtype = aiocoap.CON
        m.mid = mid & 0xFFFF
        m.token = bytes([mid & 0xFF, (mid >> 8) & 0xFF])
        wire = m.encode()
        return Message.decode(wire, self.remote(ep))

    def make_direct(self, n):
        """bare Block1Spool / Block2Cache pairs (no Resource around them)"""
        from aiocoap.blockwise import Block1Spool, Block2Cache
        self.direct = [(Block1Spool(), Block2Cache()) for _ in range(n)]

    # -- one request: `arrive` runs it until it is answered or its handler is suspended (only when
    # `hold` is set); `finish` lets a suspended handler go on and collects the answer.

    async def _arrive(self, h, coro, script_response, hold):
        self.script_response = script_response
        self.current = h
        self.hold = hold
        n_before = len(self.seen_snap)
        h.wake = self.loop.create_future()
        h.task = self.loop.create_task(coro)
        self.tasks.append(h.task)
        h.task.add_done_callback(lambda t: h.wake.done() or h.wake.set_result("done"))
        await h.wake
        self.current = None
        self.hold = False
        h.seen = self.seen_snap[n_before:]
        return h.release is not None and not h.task.done() and not h.events and h.direct_result is None

    async def arrive_direct(self, res_index, assemble, msg, script_response, hold=False):
        """The request against a bare spool/cache pair, wired as `_render_blockwise` wires them;
        exceptions are reported by class and rendered with their own `to_message`.
        Returns (Held, pending?)."""
        from aiocoap import Message, error
        spool, cache = self.direct[res_index]
        render = self.resources[0].render
        h = Held()

        async def go():
            try:
                if assemble:
                    req = spool.feed_and_take(msg)
                    res = await cache.extract_or_insert(req, lambda: render(req))
                    res.opt.block1 = req.opt.block1
                else:
                    res = await render(msg)
                h.direct_result = (res, None)
            except error.RenderableError as e:
                h.direct_result = (e.to_message(), type(e).__name__)
            except Exception as e:
                h.direct_result = (Message(code=self.aiocoap.Code(160)), "escaped:" + type(e).__name__)

        pending = await self._arrive(h, go(), script_response, hold)
        return h, pending

    async def arrive(self, res_index, assemble, msg, script_response, hold=False, site=False):
        """One request through the real `render_to_pipe` (of the resource, or of the `Site` the
        resources are registered at) behind the real `error_to_message`.  Returns (Held, pending?);
        `h.entry`: `-` for a plain resource, `o` / `p` for an observable one (`add_observation` called
        or not); `h.entered`: the request as the resource was handed it."""
        from aiocoap.pipe import Pipe, error_to_message
        h = Held()
        n_obs = len(self.obs_calls)
        n_ent = len(self.entries)
        if site:
            target = self.site
            for r in self.resources:       # `needs_blockwise_assembly` is asked of the resource
                r.assemble = assemble
        else:
            target = self.resources[res_index]
            target.assemble = assemble

        def on_event(e):
            h.events.append(e)
            if not h.wake.done():
                h.wake.set_result("event")
            if h.wake2 is not None and not h.wake2.done():
                h.wake2.set_result("event")
            return not e.is_last

        async def go():
            outer = Pipe(msg, LOG)
            outer.on_event(on_event)
            inner = error_to_message(outer, LOG)
            try:
                await target.render_to_pipe(inner)
            except Exception as e:        # what run_driving_pipe does with it
                h.raised.append(e)
                inner.add_exception(e)

        pending = await self._arrive(h, go(), script_response, hold)
        ents = self.entries[n_ent:]
        if len(ents) > 1:
            raise HarnessError("one request entered more than one resource")
        if ents:
            h.entered = ents[0][1]
            h.res_index = self.resources.index(ents[0][0])
        else:
            h.entered = None
            h.res_index = None
        n_calls = len(self.obs_calls) - n_obs
        if n_calls > 1:
            raise HarnessError("add_observation called more than once for one request")
        if h.res_index is None:
            h.entry = "-"
        else:
            h.entry = "-" if not self.observable[h.res_index] else ("o" if n_calls else "p")
        h.obs_call = self.obs_calls[-1] if n_calls else None
        return h, pending

    async def finish(self, h, release=False):
        """Collect the answer of a request; `release`: its handler is suspended and goes on now.
        Returns (response message, exception class name or None, open?)."""
        if release:
            h.wake2 = self.loop.create_future()
            h.task.add_done_callback(lambda t: h.wake2.done() or h.wake2.set_result("done"))
            h.release.set_result(None)
            await h.wake2
        if not h.task.done():
            if not h.events:
                raise HarnessError("request neither answered nor suspended in its handler")
            # an observation was set up: the pipe stays open for notifications; end it here
            h.task.cancel()
        await asyncio.gather(h.task, return_exceptions=True)
        if h.direct_result is not None:
            res, exc = h.direct_result
            return res, exc, False
        msgs = [e for e in h.events if e.message is not None]
        if len(msgs) != 1:
            raise HarnessError(f"expected exactly one response, got {h.events!r}")
        exc = [x for x in h.raised if x is not None]
        return msgs[0].message, (type(exc[0]).__name__ if exc else None), not msgs[0].is_last
