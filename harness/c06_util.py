"""C06 helpers: a socket-less virtual-clock event loop and the runner that drives the real
`Resource.render_to_pipe` / `TimeoutDict` with scripted requests.

Time is counted in integer ticks of 2**-10 s; the loop's `time()` is `ticks / 1024.0`, which
is exact in binary floating point, as is every `time() + timeout` the code computes as long as
the timeout itself is a whole number of ticks (checked by `ticks_of`).
"""
import asyncio
import logging

from common import HarnessError

TICK = 1.0 / 1024


def ticks_of(seconds):
    t = seconds / TICK
    if t != int(t):
        raise HarnessError(f"timeout {seconds!r} s is not a whole number of 2^-10 s ticks")
    return int(t)


class _NullSelector:
    def select(self, timeout=None):
        return []

    def close(self):
        pass


class VLoop(asyncio.BaseEventLoop):
    """asyncio loop without selector/sockets whose clock only moves when told to."""

    def __init__(self):
        super().__init__()
        self._vticks = 0
        self._selector = _NullSelector()

    def time(self):
        return self._vticks * TICK

    def _process_events(self, event_list):
        pass

    def _write_to_self(self):
        pass

    @property
    def ticks(self):
        return self._vticks

    def _next_timer(self):
        live = [h._when for h in self._scheduled if not h._cancelled]   # read-only scan
        return min(live) if live else None

    def advance(self, dticks):
        """Move the clock forward, running every timer callback at exactly its deadline."""
        if dticks:
            self.run_until_complete(self.aadvance(dticks))

    async def aadvance(self, dticks):
        """`advance` from inside a coroutine running on this loop.  After the clock is set to a
        deadline the coroutine yields twice: in the first loop iteration its own resumption runs
        before the due timer callbacks, in the second it resumes after them."""
        target = self._vticks + dticks
        while True:
            w = self._next_timer()
            if w is None or w > target * TICK:
                break
            wt = w / TICK
            if wt != int(wt):
                raise HarnessError(f"timer deadline {w!r} is not on the tick grid")
            self._vticks = max(self._vticks, int(wt))
            await asyncio.sleep(0)
            await asyncio.sleep(0)
            if self._next_timer() == w:
                raise HarnessError("a due timer did not run")
        self._vticks = target

    def cancel_all(self):
        for h in list(self._scheduled):
            h.cancel()


async def _noop():
    return None


LOG = logging.getLogger("verif-c06")
__import__("common").quiet(LOG)
LOG.propagate = False


def blk_str(b):
    if b is None:
        return "-"
    return f"{int(b.block_number)}/{1 if b.more else 0}/{int(b.size_exponent)}"


def opts_of(msg):
    """All options except Block1/Block2 as (number, encoded value), in option_list order."""
    out = []
    for o in msg.opt.option_list():
        n = int(o.number)
        if n in (23, 27):
            continue
        out.append((n, bytes(o.encode())))
    return out


def opts_str(opts):
    if not opts:
        return "_"
    return ";".join(f"{n}={v.hex() if v else '-'}" for n, v in opts)


def hexs(b):
    return b.hex() if b else "-"


def blk_raw(msg, number):
    """The block option's value as the integer on the wire, from the parsed message."""
    for o in msg.opt.option_list():
        if int(o.number) == number:
            return str(int.from_bytes(o.encode(), "big"))
    return "-"


class World:
    """The implementation side of one script: resources of the tree under test on a VLoop."""

    def __init__(self, aiocoap, n_resources=4):
        from aiocoap import resource
        from aiocoap.transports.udp6 import UDP6EndpointAddress
        self.aiocoap = aiocoap
        self.loop = VLoop()
        world = self

        class Remote(UDP6EndpointAddress):
            _mps = 1124

            @property
            def maximum_payload_size(self):
                return self._mps

        class Iface:
            pass

        class TestResource(resource.Resource):
            def __init__(self):
                super().__init__()
                self.assemble = True

            async def needs_blockwise_assembly(self, request):
                return self.assemble

            async def render(self, request):
                world.seen.append(request)
                world.seen_snap.append(
                    (int(request.code), request.opt.block1, request.opt.block2,
                     opts_of(request), bytes(request.payload)))
                hcode, hopts, hpayload = world.script_response[:3]
                if len(world.script_response) > 3 and world.script_response[3]:
                    raise world.exception_of(world.script_response[3])
                from aiocoap import Message
                from aiocoap.numbers.optionnumbers import OptionNumber
                from aiocoap.optiontypes import OpaqueOption
                m = Message(code=aiocoap.Code(hcode), payload=hpayload)
                for n, v in hopts:
                    on = OptionNumber(n)
                    o = on.create_option(decode=v)
                    m.opt.add_option(o)
                return m

        class TestObservable(resource.ObservableResource):
            """An `ObservableResource` (its own `_render_to_pipe`); `accepts` says whether
            `add_observation` accepts the observation.  Every call of `add_observation` is
            recorded: it tells which way the request took."""

            def __init__(self, accepts):
                super().__init__()
                self.assemble = True
                self.accepts = accepts

            async def needs_blockwise_assembly(self, request):
                return self.assemble

            async def add_observation(self, request, serverobservation):
                world.obs_calls.append(
                    (int(request.code), request.opt.block1, request.opt.block2, bytes(request.payload)))
                if self.accepts:
                    serverobservation.accept(lambda: world.obs_cancelled.append(1))

            render = TestResource.render

        self.Remote = Remote
        self.iface = Iface()
        self.seen = []
        self.seen_snap = []
        self.obs_calls = []
        self.obs_cancelled = []
        self.script_response = None
        asyncio.set_event_loop(None)
        # resources 0 and 1 are plain, 2 is an observable resource that declines observations, 3 one
        # that accepts them
        makers = [TestResource, TestResource, lambda: TestObservable(False), lambda: TestObservable(True)]
        self.resources = [makers[i % 4]() for i in range(n_resources)]
        self.observable = [i % 4 >= 2 for i in range(n_resources)]

    def close(self):
        self.loop.cancel_all()
        self.loop.close()

    def exception_of(self, name):
        """The exception a scripted handler raises: a class of aiocoap.error (a RenderableError)
        or a builtin exception, by name."""
        import builtins
        from aiocoap import error
        cls = getattr(error, name, None)
        if cls is None:
            cls = getattr(builtins, name, None)
        if not (isinstance(cls, type) and issubclass(cls, Exception)):
            raise HarnessError(f"unknown exception {name!r} in a script")
        return cls() if cls is not KeyError else cls("scripted")

    def remote(self, ep):
        """ep = (sockaddr tuple, pktinfo bytes or None, mps, mszx) -> fresh address object"""
        sockaddr, pktinfo, mps, mszx = ep
        r = self.Remote(tuple(sockaddr), self.iface, pktinfo=pktinfo)
        r._mps = mps
        r.maximum_block_size_exp = mszx
        return r

    def incoming(self, ep, code, opts, b1, b2, payload, mid):
        """Build the request as a peer would (own Message, encode) and parse it like the
        transport does (`Message.decode(data, remote)`)."""
        aiocoap = self.aiocoap
        from aiocoap import Message
        from aiocoap.numbers.optionnumbers import OptionNumber
        m = Message(code=aiocoap.Code(code), payload=payload)
        for n, v in opts:
            m.opt.add_option(OptionNumber(n).create_option(decode=v))
        if b1 is not None:
            m.opt.block1 = tuple(b1)
        if b2 is not None:
            m.opt.block2 = tuple(b2)
        m.mtype = aiocoap.CON
        m.mid = mid & 0xFFFF
        m.token = bytes([mid & 0xFF, (mid >> 8) & 0xFF])
        wire = m.encode()
        return Message.decode(wire, self.remote(ep))

    def make_direct(self, n):
        """bare Block1Spool / Block2Cache pairs (no Resource around them)"""
        from aiocoap.blockwise import Block1Spool, Block2Cache
        self.direct = [(Block1Spool(), Block2Cache()) for _ in range(n)]

    async def request_direct(self, res_index, assemble, msg, script_response):
        """The same request against a bare spool/cache pair, wired as `_render_to_pipe` wires
        them; exceptions are reported by class and rendered with their own `to_message`."""
        from aiocoap import Message, error
        spool, cache = self.direct[res_index]
        self.script_response = script_response
        n_before = len(self.seen_snap)
        render = self.resources[0].render

        async def go():
            try:
                if assemble:
                    req = spool.feed_and_take(msg)
                    res = await cache.extract_or_insert(req, lambda: render(req))
                    res.opt.block1 = req.opt.block1
                else:
                    res = await render(msg)
                return res, None
            except error.RenderableError as e:
                return e.to_message(), type(e).__name__
            except Exception as e:
                return Message(code=self.aiocoap.Code(160)), "escaped:" + type(e).__name__

        res, exc = await go()
        self.last_entry = "-"
        self.last_open = False
        return res, exc, self.seen_snap[n_before:]

    async def request(self, res_index, assemble, msg, script_response):
        """One request through the real `render_to_pipe` behind the real `error_to_message`.
        Returns (response message, exception class name or None, list of handler snapshots).
        `self.last_entry` afterwards: `-` for a plain resource, `o` / `p` for an observable one
        (`add_observation` called or not); `self.last_open`: the first response was not marked as
        the last one (an accepted observation; the rendering task is then cancelled)."""
        from aiocoap.pipe import Pipe, error_to_message
        res = self.resources[res_index]
        res.assemble = assemble
        self.script_response = script_response
        n_before = len(self.seen_snap)
        n_obs = len(self.obs_calls)
        events = []
        raised = []
        first = self.loop.create_future()

        def on_event(e):
            events.append(e)
            if not first.done():
                first.set_result(None)
            return not e.is_last

        async def go():
            outer = Pipe(msg, LOG)
            outer.on_event(on_event)
            inner = error_to_message(outer, LOG)
            try:
                await res.render_to_pipe(inner)
            except Exception as e:        # what run_driving_pipe does with it
                raised.append(e)
                inner.add_exception(e)

        task = self.loop.create_task(go())
        task.add_done_callback(lambda t: first.done() or first.set_result(None))
        await first
        if not task.done():
            # an observation was set up: the pipe stays open for notifications; end it here
            task.cancel()
        await asyncio.gather(task, return_exceptions=True)
        msgs = [e for e in events if e.message is not None]
        if len(msgs) != 1:
            raise HarnessError(f"expected exactly one response, got {events!r}")
        n_calls = len(self.obs_calls) - n_obs
        if n_calls > 1:
            raise HarnessError("add_observation called more than once for one request")
        self.last_entry = "-" if not self.observable[res_index] else ("o" if n_calls else "p")
        self.last_open = not msgs[0].is_last
        exc = [x for x in raised if x is not None]
        return msgs[0].message, (type(exc[0]).__name__ if exc else None), self.seen_snap[n_before:]
