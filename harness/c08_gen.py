"""Script generators for C08: the boundary table (enumerated in full) and random scripts."""

S = 1 << 20
DRAWS = [2 * S + 1009 * i + 13 for i in range(64)]
TOK = ["aa", "bb", "cc", "aa"]


def T(x):
    """seconds -> a tick that does not fall on a round value (timers do)"""
    return int(x * S) + 7


def script(tag, events, rules=(), renders=(), decline=(), mid=4096, tail=150, slow_add=(), draws=None):
    last = max(ev[1] for ev in events)
    sc = {"tag": tag, "events": events, "rules": list(rules), "renders": list(renders),
          "decline": list(decline), "draws": draws or DRAWS, "mid": mid, "end": last + tail * S + 11}
    if slow_add:
        sc["slow_add"] = list(slow_add)
    return sc


def reg(t, remote=0, mt="CON", mid=100, tok="aa", obs=0):
    return ["R", T(t), remote, mt, mid, tok, obs]


def acks(remote, frm=1, to=12, after=0.05):
    return [{"remote": remote, "mtype": "CON", "nth": k, "after": int(after * S) + 3, "do": "ack"}
            for k in range(frm, to + 1)]


IMM = ["i", 69, 0]


def slow_add():
    """a resource whose add_observation suspends after it has accepted (it persists the subscription, say):
    every way the registration can end inside that window, and after it.  Judged by the oracle only."""
    out = []
    for mt in ("CON", "NON"):
        enders = {
            "get": [["R", T(0.5), 0, mt, 101, "aa", None]],
            "rereg": [["R", T(0.5), 0, mt, 101, "aa", 0]],
            "dereg": [["R", T(0.5), 0, mt, 101, "aa", 1]],
            "error": [["E", T(0.5), 0]],
            "shutdown": [["X", T(0.5)]],
            "none": [],
        }
        for name, evs in enders.items():
            for when in ("inside", "after", "never-returns"):
                ev = [reg(0.01, mt=mt)]
                if when == "inside":
                    ev += evs + [["O", T(0.9), 0]]
                elif when == "after":
                    ev += [["O", T(0.2), 0]] + evs
                else:
                    ev += evs
                ev += [["U", T(1.5), None], ["U", T(2.5), None]]
                slow = [0, 1] if name == "rereg" else [0]
                if name == "rereg":
                    ev.append(["O", T(1.2), 1])
                sc = script(f"slow-add:{mt}:{name}:{when}", ev, acks(0), slow_add=slow)
                out.append(sc)
    return out


def first_response():
    out = []
    for mt in ("CON", "NON"):
        for first in ("imm", "s50", "s200"):
            for acc in (True, False):
                ev = [reg(0.01, mt=mt)]
                renders = []
                if first != "imm":
                    renders = ["s"]
                    ev.append(["L", T(0.06 if first == "s50" else 0.21), 0, 69, 0])
                ev += [["U", T(1.0), None], ["U", T(2.0), None]]
                out.append(script(f"first:{mt}:{first}:{'acc' if acc else 'decline'}", ev, acks(0), renders,
                                  decline=[] if acc else [0]))
    return out


def trigger_offsets():
    """a second change at every offset relative to transmission / acknowledgement of a CON notification"""
    out = []
    n1 = 4096
    ack = ["M", 0, 0, "ACK", 0, n1, "-"]
    for acked in (True, False):
        for plan2 in ("imm", "susp"):
            variants = {
                "same-callback": [["&", T(1.0), [["U", 0, None], ["U", 0, None]]]],
                "tick-after-send": [["U", T(1.0), None], ["U", T(1.0) + 1, None]],
                "before-ack": [["U", T(1.0), None], ["U", T(1.15), None]],
                "with-ack-before": [["U", T(1.0), None], ["&", T(1.3), [["U", 0, None], ack]]],
                "with-ack-after": [["U", T(1.0), None], ["&", T(1.3), [ack, ["U", 0, None]]]],
                "tick-after-ack": [["U", T(1.0), None], ["U", T(1.3) + 1, None]],
                "after-ack": [["U", T(1.0), None], ["U", T(2.0), None]],
            }
            for name, evs in variants.items():
                ev = [reg(0.01)] + evs
                has_ack = any(e[0] == "&" and ack in e[2] for e in evs)
                if acked and not has_ack:
                    ev.append(["M", T(1.3), 0, "ACK", 0, n1, "-"])
                renders = [IMM, IMM] + (["s"] if plan2 == "susp" else [])
                if plan2 == "susp":
                    ev.append(["L", T(2.4), 0, 69, 0])
                rules = acks(0, frm=2) if acked else []
                if not acked and has_ack:
                    continue
                out.append(script(f"offset:{name}:{'acked' if acked else 'silent'}:{plan2}", ev, rules, renders))
    return out


def bursts():
    out = []
    for mt in ("CON", "NON"):
        for k in (2, 3, 5):
            base = [reg(0.01, mt=mt)]
            out.append(script(f"burst:one-callback:{mt}:{k}",
                              base + [["&", T(1.0), [["U", 0, None]] * k], ["U", T(3.0), None]], acks(0)))
            out.append(script(f"burst:ticks:{mt}:{k}",
                              base + [["U", T(1.0) + i, None] for i in range(k)] + [["U", T(3.0), None]], acks(0)))
            out.append(script(f"burst:during-render:{mt}:{k}",
                              base + [["U", T(1.0), None]] + [["U", T(1.1) + 1000 * i, None] for i in range(k)] +
                              [["L", T(1.5), 0, 69, 0], ["U", T(3.0), None]], acks(0), [IMM, "s"]))
            out.append(script(f"burst:during-first-render:{mt}:{k}",
                              base + [["U", T(0.02) + 1000 * i, None] for i in range(k)] +
                              [["L", T(0.3), 0, 69, 0], ["U", T(3.0), None]], acks(0), ["s"]))
        for i, mix in enumerate(([69, None], [None, 69], [69, 69], [None, 69, None], [69, None, 69])):
            out.append(script(f"burst:explicit-mix:{mt}:{i}",
                              [reg(0.01, mt=mt), ["&", T(1.0), [["U", 0, c] for c in mix]], ["U", T(2.0), 69],
                               ["U", T(3.0), None]], acks(0)))
    return out


def reactions():
    """every observer reaction x the phase the render task is in when it arrives"""
    out = []
    for mt in ("CON", "NON"):
        n1 = 4096 if mt == "CON" else 4097
        reacts = {
            "ack": ["M", 0, 0, "ACK", 0, n1, "-"],
            "rst": ["M", 0, 0, "RST", 0, n1, "-"],
            "silence": None,
            "rereg": ["R", 0, 0, mt, 101, "aa", 0],
            "dereg": ["R", 0, 0, mt, 101, "aa", 1],
            "get": ["R", 0, 0, mt, 101, "aa", None],
            "other-token": ["R", 0, 0, mt, 101, "ab", 0],
        }
        for rname, rev in reacts.items():
            if mt == "NON" and rname in ("ack", "silence"):
                continue
            for phase in ("idle", "rendering", "woken", "woken-after", "queued"):
                ev = [reg(0.01, mt=mt), ["U", T(1.0), None]]
                renders = [IMM, IMM]
                tr = T(1.5)
                r_at = None if rev is None else [rev[0], tr] + rev[2:]
                if phase == "idle":
                    if r_at:
                        ev.append(r_at)
                elif phase == "rendering":
                    ev.append(["U", T(1.4), None])
                    renders.append("s")
                    if r_at:
                        ev.append(r_at)
                    ev.append(["L", T(1.6), 0, 69, 0])
                elif phase == "woken":
                    if not r_at:
                        continue
                    ev.append(["&", tr, [["U", 0, None], r_at]])
                elif phase == "woken-after":
                    if not r_at:
                        continue
                    ev.append(["&", tr, [r_at, ["U", 0, None]]])
                else:
                    ev.append(["U", T(1.2), None])
                    if r_at:
                        ev.append(r_at)
                ev += [["U", T(2.5), None], ["U", T(4.0), None]]
                rules = [] if rname == "silence" else acks(0, frm=2)
                out.append(script(f"react:{mt}:{rname}:{phase}", ev, rules, renders))
    return out


def kth_copy():
    out = []
    for k in range(1, 7):
        ev = [reg(0.01), ["U", T(1.0), None], ["U", T(5.0), None], ["U", T(40.0), None]]
        rules = [{"remote": 0, "mtype": "CON", "nth": k, "after": int(0.01 * S) + 3, "do": "ack"}] + acks(0, frm=k + 1)
        out.append(script(f"copy:{k}", ev, rules if k <= 5 else []))
    return out


def errors_and_shutdown():
    out = []
    configs = {
        "one": [reg(0.01)],
        "two-tokens": [reg(0.01), reg(0.02, mid=101, tok="bb")],
        "two-remotes": [reg(0.01), reg(0.02, remote=1, mid=200, tok="aa", mt="NON")],
        "three": [reg(0.01), reg(0.02, remote=1, mid=200, tok="bb", mt="NON"), reg(0.03, mid=102, tok="cc")],
    }
    for cname, regs in configs.items():
        for cause in ("E", "X"):
            cev = ["E", 0, 0] if cause == "E" else ["X", 0]
            for phase in ("idle", "rendering", "woken", "queued"):
                ev = list(regs) + [["U", T(1.0), None]]
                n = len(regs)
                renders = [IMM] * (2 * n)
                tr = T(1.5)
                c_at = [cev[0], tr] + cev[2:]
                if phase == "idle":
                    ev.append(c_at)
                elif phase == "rendering":
                    ev.append(["U", T(1.4), None])
                    renders += ["s"] * n
                    ev.append(c_at)
                    ev += [["L", T(1.6) + 1000 * i, i, 69, 0] for i in range(n)]
                elif phase == "woken":
                    ev.append(["&", tr, [["U", 0, None], c_at]])
                else:
                    ev += [["U", T(1.2), None], c_at]
                ev += [["U", T(2.5), None]]
                out.append(script(f"{'error' if cause == 'E' else 'shutdown'}:{cname}:{phase}", ev, [], renders))
    return out


def several_observers():
    out = []
    regs = [reg(0.01), reg(0.02, remote=1, mid=200, tok="bb", mt="NON"), reg(0.03, mid=102, tok="cc"),
            reg(0.04, remote=2, mid=300, tok="aa")]
    for n in (2, 3, 4):
        rs = regs[:n]
        rules = acks(0) + acks(2, after=0.07)
        out.append(script(f"multi:{n}:changes", rs + [["U", T(1.0), None], ["U", T(1.5), None],
                                                       ["&", T(2.0), [["U", 0, None], ["U", 0, None]]]], rules))
        out.append(script(f"multi:{n}:explicit-silent", rs + [["U", T(1.0), 69], ["U", T(1.5), 69],
                                                               ["U", T(100.0), None]], []))
        out.append(script(f"multi:{n}:explicit-acked", rs + [["U", T(1.0), 69], ["U", T(1.5), None],
                                                              ["U", T(2.0), 69]], rules))
        out.append(script(f"multi:{n}:rst-one", rs + [["U", T(1.0), None], ["M", T(1.2), 0, "RST", 0, 4096, "-"],
                                                       ["M", T(1.2) + 5, 0, "RST", 0, 4097, "-"],
                                                       ["M", T(1.2) + 9, 0, "RST", 0, 4098, "-"],
                                                       ["U", T(2.0), None], ["U", T(3.0), None]], acks(2, after=0.07)))
        out.append(script(f"multi:{n}:suspended-renders",
                          rs + [["U", T(1.0), None]] + [["L", T(1.2) + 1000 * i, i, 69, 0] for i in range(n)] +
                          [["U", T(1.1), None], ["U", T(3.0), None]], rules, [IMM] * n + ["s"] * n))
        out.append(script(f"multi:{n}:single-triggers",
                          rs + [["T", T(1.0), 0, None, 0], ["T", T(1.1), n - 1, 69, 0], ["T", T(1.2), 1, None, 1],
                                ["U", T(2.0), None]], rules))
    return out


def finals():
    out = []
    for mt in ("CON", "NON"):
        for code, exc in ((129, 0), (160, 1), (132, 1), (163, 1), (128, 1)):
            bad = ["i", code, exc]
            out.append(script(f"final:first:{mt}:{code}:{exc}", [reg(0.01, mt=mt), ["U", T(1.0), None]], acks(0), [bad]))
            out.append(script(f"final:first-susp:{mt}:{code}:{exc}",
                              [reg(0.01, mt=mt), ["L", T(0.3), 0, code, exc], ["U", T(1.0), None]], acks(0), ["s"]))
            out.append(script(f"final:notification:{mt}:{code}:{exc}",
                              [reg(0.01, mt=mt), ["U", T(1.0), None], ["U", T(2.0), None], ["U", T(3.0), None]],
                              acks(0), [IMM, IMM, bad]))
            out.append(script(f"final:notification-susp:{mt}:{code}:{exc}",
                              [reg(0.01, mt=mt), ["U", T(1.0), None], ["U", T(1.1), None], ["L", T(1.5), 0, code, exc],
                               ["U", T(3.0), None]], acks(0), [IMM, "s"]))
        out.append(script(f"final:explicit-unsuccessful:{mt}",
                          [reg(0.01, mt=mt), ["U", T(1.0), None], ["U", T(2.0), 132], ["U", T(3.0), None]], acks(0)))
        out.append(script(f"final:trigger-last:{mt}",
                          [reg(0.01, mt=mt), ["U", T(1.0), None], ["T", T(2.0), 0, None, 1], ["U", T(3.0), None]], acks(0)))
        out.append(script(f"final:trigger-last-explicit:{mt}",
                          [reg(0.01, mt=mt), ["T", T(2.0), 0, 69, 1], ["U", T(3.0), None]], acks(0)))
        out.append(script(f"final:early-deregister:{mt}",
                          [reg(0.01, mt=mt), ["D", T(0.1), 0], ["L", T(0.3), 0, 69, 0], ["U", T(1.0), None]], acks(0), ["s"]))
        out.append(script(f"final:late-deregister-once:{mt}",
                          [reg(0.01, mt=mt), ["U", T(1.0), None], ["D", T(1.5), 0], ["U", T(2.0), None]], acks(0)))
        out.append(script(f"final:late-deregister-twice:{mt}",
                          [reg(0.01, mt=mt), ["U", T(1.0), None], ["D", T(1.5), 0], ["D", T(1.6), 0],
                           ["U", T(2.0), None]], acks(0)))
    return out


def last_triggers():
    """`trigger(..., is_last=True)` x the phase of the render task when it arrives (idle; rendering = the previous
    change's render is suspended; woken = a trigger is pending and the task has not run yet; queued = earlier
    notifications are still in the message layer; during the first render; during the final render itself) x
    rendered (None) / explicit (a 2.05 message handed to trigger) x CON / NON; then further changes, which must
    not produce anything."""
    out = []
    for mt in ("CON", "NON"):
        for code, kind in ((None, "rendered"), (69, "explicit")):
            last = lambda t, sv=0: ["T", t, sv, code, 1]
            tail = [["U", T(4.0), None], ["T", T(5.0), 0, None, 0]]
            tag = f"last:{mt}:{kind}:"
            out.append(script(tag + "idle", [reg(0.01, mt=mt), ["U", T(1.0), None], last(T(2.0))] + tail, acks(0)))
            # the render of the previous change is suspended when the last-marked change arrives
            for prev in ("update", "trigger"):
                pev = ["U", T(1.4), None] if prev == "update" else ["T", T(1.4), 0, None, 0]
                for ren in ("imm", "susp"):
                    renders = [IMM, IMM, "s"] + (["s"] if ren == "susp" else [])
                    ev = [reg(0.01, mt=mt), ["U", T(1.0), None], pev, last(T(1.5)), ["L", T(1.6), 0, 69, 0]]
                    if ren == "susp":
                        ev.append(["L", T(1.8), 0, 69, 0])
                    out.append(script(tag + f"rendering:{prev}:final-render-{ren}", ev + tail, acks(0), renders))
            # ... and the suspended render fails / is unsuccessful: that ends the registration by itself
            for bad, exc in ((132, 1), (129, 0)):
                out.append(script(tag + f"rendering:fails:{bad}",
                                  [reg(0.01, mt=mt), ["U", T(1.0), None], ["U", T(1.4), None], last(T(1.5)),
                                   ["L", T(1.6), 0, bad, exc]] + tail, acks(0), [IMM, IMM, "s"]))
            # two last-marked changes / a last-marked and a plain one while the render is suspended
            out.append(script(tag + "rendering:last-then-plain",
                              [reg(0.01, mt=mt), ["U", T(1.0), None], ["U", T(1.4), None], last(T(1.5)),
                               ["U", T(1.55), None], ["L", T(1.6), 0, 69, 0]] + tail, acks(0), [IMM, IMM, "s"]))
            out.append(script(tag + "rendering:plain-then-last",
                              [reg(0.01, mt=mt), ["U", T(1.0), None], ["U", T(1.4), None], ["U", T(1.45), None],
                               last(T(1.5)), ["L", T(1.6), 0, 69, 0]] + tail, acks(0), [IMM, IMM, "s"]))
            # a change while the FINAL render is suspended (the resource goes on after it said "last")
            for code2 in (None, 69):
                out.append(script(tag + f"during-final-render:{'rendered' if code2 is None else 'explicit'}",
                                  [reg(0.01, mt=mt), ["U", T(1.0), None], last(T(1.5)), ["T", T(1.55), 0, code2, 0],
                                   ["L", T(1.6), 0, 69, 0], ["L", T(1.8), 0, 69, 0]] + tail, acks(0),
                                  [IMM, IMM, "s", "s"]))
            # woken: another trigger is pending and the task has not run yet
            out.append(script(tag + "woken:update-then-last",
                              [reg(0.01, mt=mt), ["U", T(1.0), None], ["&", T(1.5), [["U", 0, None], last(0)]]] + tail,
                              acks(0)))
            out.append(script(tag + "woken:last-then-update",
                              [reg(0.01, mt=mt), ["U", T(1.0), None], ["&", T(1.5), [last(0), ["U", 0, None]]]] + tail,
                              acks(0)))
            out.append(script(tag + "woken:last-then-explicit",
                              [reg(0.01, mt=mt), ["U", T(1.0), None], ["&", T(1.5), [last(0), ["U", 0, 69]]]] + tail,
                              acks(0)))
            # queued: earlier notifications are still in the message layer (unacknowledged / in the backlog)
            for ack in ("acked-late", "silent"):
                rules = [] if ack == "silent" else acks(0, after=0.9)
                out.append(script(tag + f"queued:{ack}",
                                  [reg(0.01, mt=mt), ["U", T(1.0), None], ["U", T(1.2), None], last(T(1.5))] + tail,
                                  rules))
            # during the first render, and right after the first response
            out.append(script(tag + "first-render",
                              [reg(0.01, mt=mt), last(T(0.1)), ["L", T(0.3), 0, 69, 0]] + tail, acks(0), ["s"]))
            out.append(script(tag + "first-render:final-render-susp",
                              [reg(0.01, mt=mt), last(T(0.1)), ["L", T(0.3), 0, 69, 0], ["U", T(0.4), None],
                               ["L", T(0.5), 0, 69, 0]] + tail, acks(0), ["s", "s"]))
            # two observers: only one is told that this is the last change
            out.append(script(tag + "two-observers",
                              [reg(0.01, mt=mt), reg(0.02, remote=1, mid=200, tok="bb", mt=mt), ["U", T(1.0), None],
                               ["U", T(1.4), None], last(T(1.5), 1), ["L", T(1.6), 1, 69, 0], ["L", T(1.7), 0, 69, 0]]
                              + [["U", T(4.0), None]], acks(0) + acks(1), [IMM] * 4 + ["s", "s"]))
    return out


def misc():
    out = []
    # Reset of a non-confirmable notification (RFC 7641 4.5 expects the observer to be removed)
    out.append(script("misc:rst-of-non", [reg(0.01, mt="NON"), ["U", T(1.0), None],
                                          ["M", T(1.2), 0, "RST", 0, 4097, "-"], ["U", T(2.0), None],
                                          ["U", T(3.0), None]]))
    # replaced before the task started; duplicates; noise
    out.append(script("misc:replaced-fresh", [["&", T(0.01), [reg(0, mid=100)[:1] + [0] + reg(0, mid=100)[2:],
                                                              reg(0, mid=101)[:1] + [0] + reg(0, mid=101)[2:]]],
                                              ["U", T(1.0), None]], acks(0)))
    out.append(script("misc:duplicate-registration", [reg(0.01), reg(0.5), ["U", T(1.0), None], reg(1.5)], acks(0)))
    out.append(script("misc:noise", [reg(0.01), ["U", T(1.0), None], ["M", T(1.1), 0, "ACK", 0, 4099, "-"],
                                     ["M", T(1.2), 1, "RST", 0, 4096, "-"], ["M", T(1.3), 0, "CON", 0, 555, "-"],
                                     ["M", T(1.4), 0, "RST", 0, 4199, "-"], ["M", T(1.5), 0, "ACK", 69, 4096, "aa"],
                                     ["U", T(2.0), None]], acks(0, frm=2)))
    out.append(script("misc:ack-then-rst", [reg(0.01), ["U", T(1.0), None], ["M", T(1.2), 0, "ACK", 0, 4096, "-"],
                                            ["M", T(1.3), 0, "RST", 0, 4096, "-"], ["U", T(2.0), None]], acks(0, frm=2)))
    out.append(script("misc:plain-get-only", [reg(0.01, obs=None), reg(0.5, mid=101, obs=1), reg(0.6, mid=102, obs=5),
                                              ["U", T(1.0), None]], acks(0)))
    out.append(script("misc:plain-get-suspended", [reg(0.01, obs=None), reg(0.05, mid=101, obs=None),
                                                   ["L", T(0.3), 1, 69, 0], ["L", T(0.4), 0, 69, 0]], acks(0), ["s", "s"]))
    out.append(script("misc:release-and-cancel-together",
                      [reg(0.01), ["U", T(1.0), None], ["&", T(1.5), [["L", 0, 0, 69, 0], ["M", 0, 0, "RST", 0, 4096, "-"]]],
                       ["U", T(1.2), None], ["U", T(2.0), None]], [], [IMM, IMM, "s"]))
    out.append(script("misc:rereg-keeps-count", [reg(0.01), ["U", T(1.0), None], reg(1.5, mid=101), ["U", T(2.0), None],
                                                 reg(2.5, mid=102), ["U", T(3.0), None]], acks(0)))
    return out


def sync_errors():
    """a transport error reported SYNCHRONOUSLY, from inside the send of a datagram (udp6: sendmsg() raises ->
    error_received -> dispatch_error before send() returns): x which datagram (the first response - a piggy-backed
    ACK, a separate CON or a NON -, a notification, a last-marked / unsuccessful / explicit notification, the
    response to a deregistration or plain GET on the token) x what the render task still has to do in that step
    (nothing; a trigger arrived while it rendered: it renders again - immediately, suspending, raising, for a
    last-marked or an explicit unsuccessful trigger) x CON / NON x other registrations of the same endpoint (none, a
    second token, another endpoint) - then further changes, which must produce nothing for the endpoint, and a
    new registration of it.  Also failures that hit the message layer's own transmissions (a retransmission, a
    notification leaving the backlog, an empty ACK): judged by the oracle only."""
    out = []
    F = lambda t, remote=0, n=1: ["F", T(t), remote, n]
    for mt in ("CON", "NON"):
        for others in ("alone", "second-token", "other-endpoint"):
            regs = [reg(0.01, mt=mt)]
            if others == "second-token":
                regs.append(reg(0.02, mid=101, tok="bb", mt=mt))
            elif others == "other-endpoint":
                regs.append(reg(0.02, remote=1, mid=200, tok="bb", mt=mt))
            n = len(regs)
            rules = acks(0) + acks(1)
            tail = [["U", T(4.0), None], ["U", T(5.0), None], reg(6.0, mid=150, mt=mt), ["U", T(7.0), None]]
            tag = f"sync-error:{mt}:{others}:"
            # the notification of a change
            out.append(script(tag + "notification", regs + [["U", T(1.0), None], F(1.9), ["U", T(2.0), None]] + tail, rules))
            # the very first notification / the first response
            out.append(script(tag + "first-notification", regs + [F(0.9), ["U", T(1.0), None]] + tail, rules))
            out.append(script(tag + "first-response", [F(0.001)] + regs + [["U", T(1.0), None]] + tail, rules))
            out.append(script(tag + "first-response-separate",
                              [regs[0], F(0.2), ["L", T(0.3), 0, 69, 0]] + regs[1:] + [["U", T(1.0), None]] + tail,
                              rules, ["s"]))
            # a trigger arrived while the failing notification was being rendered: the task goes on in that step
            for nxt, plan in (("imm", IMM), ("susp", "s"), ("raises", ["i", 132, 1]), ("unsuccessful", ["i", 129, 0])):
                ev = regs + [["U", T(1.0), None], ["U", T(1.4), None], ["U", T(1.45), None], F(1.5),
                             ["L", T(1.6), 0, 69, 0]]
                if nxt == "susp":
                    ev.append(["L", T(1.8), 0, 69, 0])
                out.append(script(tag + f"then-renders-again:{nxt}", ev + tail, rules,
                                  [IMM] * (2 * n) + ["s"] + [IMM] * (n - 1) + [plan]))
            out.append(script(tag + "then-last-marked",
                              regs + [["U", T(1.0), None], ["U", T(1.4), None], ["T", T(1.45), 0, None, 1], F(1.5),
                                      ["L", T(1.6), 0, 69, 0]] + tail, rules, [IMM] * (2 * n) + ["s"]))
            out.append(script(tag + "then-explicit-unsuccessful",
                              regs + [["U", T(1.0), None], ["U", T(1.4), None], ["T", T(1.45), 0, 132, 0], F(1.5),
                                      ["L", T(1.6), 0, 69, 0]] + tail, rules, [IMM] * (2 * n) + ["s"]))
            # the failing datagram is the registration's final one
            out.append(script(tag + "last-marked", regs + [["U", T(1.0), None], F(1.9), ["T", T(2.0), 0, None, 1]] + tail, rules))
            out.append(script(tag + "explicit", regs + [["U", T(1.0), None], F(1.9), ["U", T(2.0), 69]] + tail, rules))
            out.append(script(tag + "unsuccessful", regs + [["U", T(1.0), None], F(1.9), ["U", T(2.0), None]] + tail,
                              rules, [IMM] * (2 * n) + [["i", 129, 0]]))
            out.append(script(tag + "render-raises", regs + [["U", T(1.0), None], F(1.9), ["U", T(2.0), None]] + tail,
                              rules, [IMM] * (2 * n) + [["i", 163, 1]]))
            # the answer to a new request on the token (the registration is over by then)
            for obs in (1, None, 0):
                out.append(script(tag + f"answer-to-request:{obs}",
                                  regs + [["U", T(1.0), None], F(1.9), ["R", T(2.0), 0, mt, 120, "aa", obs]] + tail, rules))
            # two sends in a row fail (the second registration's turn comes in the same tick)
            out.append(script(tag + "twice", regs + [["U", T(1.0), None], F(1.9, n=2), ["U", T(2.0), None],
                                                       ["U", T(2.5), None]] + tail, rules))
            # the error is for the OTHER endpoint / armed and disarmed again
            out.append(script(tag + "unrelated-endpoint", regs + [["U", T(1.0), None], F(1.9, remote=2), ["U", T(2.0), None]]
                              + tail, rules))
            out.append(script(tag + "disarmed", regs + [["U", T(1.0), None], F(1.9), F(1.95, n=0), ["U", T(2.0), None]]
                              + tail, rules))
            # shutdown afterwards (nothing may be left behind)
            out.append(script(tag + "then-shutdown", regs + [["U", T(1.0), None], F(1.9), ["U", T(2.0), None],
                                                               ["U", T(3.0), None], ["X", T(3.5)]], rules))
        # failures that hit the message layer's own transmissions (oracle only)
        out.append(script(f"sync-error:{mt}:retransmission", [reg(0.01, mt=mt), ["U", T(1.0), None], F(1.5),
                                                              ["U", T(9.0), None]], []))
        out.append(script(f"sync-error:{mt}:backlog", [reg(0.01, mt=mt), ["U", T(1.0), None], ["U", T(1.1), None], F(1.2),
                                                       ["U", T(9.0), None]], acks(0, after=0.5)))
        out.append(script(f"sync-error:{mt}:empty-ack", [reg(0.01, mt=mt), F(0.05), ["L", T(0.5), 0, 69, 0],
                                                         ["U", T(2.0), None]], acks(0), ["s"]))
    return out


LONG_DRAWS = [2 * S + 1009 * i + 13 for i in range(400)]
BURST_SIZES = [8, 9, 10, 15, 16, 17, 18, 19, 20, 24, 25, 31, 32, 33, 40, 41, 50, 64, 65, 100]


def long_bursts(sizes=BURST_SIZES):
    """long bursts of separately rendered changes while the observer's acknowledgement is late (sizes around powers of
    two and round decimal numbers: wherever an implementation may bound what it holds back for an endpoint); then
    the acknowledgements arrive, the resource is quiet, and the last state must have been sent.  With a second
    observer that acknowledges at once / a second registration of the same endpoint (two tokens share the endpoint's
    backlog) / a NON observer next to it; the late acknowledgement is that of the first copy (1.5 s) or of the
    retransmission (the first copy or its ACK was lost)."""
    out = []
    for k in sizes:
        changes = [["U", T(1.0) + 20011 * i, None] for i in range(k + 1)]       # k changes after the unacknowledged one
        for late in ("slow-ack", "ack-of-retransmission"):
            first = {"remote": 0, "mtype": "CON", "nth": 1 if late == "slow-ack" else 2,
                     "after": (int(1.9 * S) if late == "slow-ack" else int(0.05 * S)) + 3, "do": "ack"}
            others = [{"remote": 0, "mtype": "CON", "nth": n, "after": int(0.01 * S) + 3, "do": "ack"}
                      for n in range(first["nth"] + 1, 2 * k + 12)]
            variants = {
                "alone": ([reg(0.01)], []),
                "prompt-observer": ([reg(0.01), reg(0.02, remote=1, mid=200, tok="bb")], acks(1, to=k + 5, after=0.005)),
                "second-token": ([reg(0.01), reg(0.02, mid=101, tok="bb")], []),
                "non-observer": ([reg(0.01), reg(0.02, remote=1, mid=200, tok="bb", mt="NON")], []),
            }
            for name, (regs, more) in variants.items():
                if late == "ack-of-retransmission" and name not in ("alone", "prompt-observer"):
                    continue
                out.append(script(f"long-burst:{k}:{late}:{name}", regs + changes, [first] + others + more,
                                  tail=60, draws=LONG_DRAWS))
    return out


def boundary_table():
    return (first_response() + trigger_offsets() + bursts() + reactions() + kth_copy() +
            errors_and_shutdown() + several_observers() + finals() + last_triggers() + misc() + slow_add() +
            sync_errors() + long_bursts())


def random_script(rng, i):
    nobs = rng.choice([1, 1, 2, 2, 3])
    ev = []
    mids = {0: 100, 1: 200, 2: 300}
    keys = []
    for k in range(nobs):
        remote = rng.choice([0, 0, 1, 2])
        tok = rng.choice(["aa", "bb", "cc"])
        mt = rng.choice(["CON", "CON", "NON"])
        keys.append((remote, tok, mt))
        ev.append(["R", T(0.01 + 0.05 * k) + rng.randrange(100), remote, mt, mids[remote], tok, 0])
        mids[remote] += 1
    n = rng.randrange(3, 11)
    times = sorted(rng.sample(range(T(0.5), T(30.0)), n))
    renders = []
    for _ in range(rng.randrange(0, 12)):
        x = rng.random()
        renders.append("s" if x < 0.3 else ["i", rng.choice([129, 160, 132]), rng.choice([0, 1, 1])] if x < 0.38 else IMM)
    renders = [["i", 129, 0] if (isinstance(p, list) and p[1] == 129) else
               (["i", p[1], 1] if isinstance(p, list) and p[1] in (160, 132) else p) for p in renders]
    for t in times:
        x = rng.random()
        if x < 0.45:
            one = ["U", t, None]
        elif x < 0.55:
            one = ["U", t, rng.choice([69, 69, 132])]
        elif x < 0.60:
            one = ["T", t, rng.randrange(0, nobs + 1), rng.choice([None, 69]), rng.choice([0, 0, 1])]
        elif x < 0.63:
            one = ["D", t, rng.randrange(0, nobs)]
        elif x < 0.75:
            one = ["L", t, rng.randrange(0, nobs + 2), 69, 0]
        elif x < 0.765:
            one = ["F", t, rng.choice([0, 0, 1, 2]), rng.choice([1, 1, 1, 2])]
        elif x < 0.78:
            one = ["E", t, rng.choice([0, 1, 2])]
        elif x < 0.79:
            one = ["X", t]
        elif x < 0.89:
            remote, tok, mt = rng.choice(keys)
            one = ["R", t, remote, mt, mids[remote], rng.choice([tok, tok, "dd"]), rng.choice([0, 0, 1, None])]
            mids[remote] += 1
        else:
            remote = rng.choice([0, 1, 2])
            one = ["M", t, remote, rng.choice(["ACK", "RST", "RST"]), 0, 4096 + rng.randrange(0, 6), "-"]
        if rng.random() < 0.15 and one[0] != "X":
            two = ["U", 0, None]
            one = ["&", t, [one[:1] + [0] + one[2:], two] if rng.random() < 0.5 else [two, one[:1] + [0] + one[2:]]]
        ev.append(one)
    rules = []
    for remote in {k[0] for k in keys}:
        mode = rng.random()
        for nth in range(1, 14):
            y = rng.random()
            if mode < 0.6:
                do = "ack" if y < 0.85 else rng.choice(["rst", "rereg", "dereg", "get", None])
            elif mode < 0.8:
                do = "ack" if y < 0.4 else None
            else:
                do = None
            if do:
                rule = {"remote": remote, "mtype": "CON", "nth": nth, "after": rng.randrange(1000, S) | 1, "do": do}
                if do in ("rereg", "dereg", "get"):
                    rule["pmid"] = 900 + nth + 20 * remote
                rules.append(rule)
    decline = [0] if rng.random() < 0.05 else []
    return script(f"random:{i}", ev, rules, renders, decline, mid=rng.choice([4096, 65530, 17]), tail=150)
