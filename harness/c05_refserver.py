"""Independent RFC 7959 reference server for the C05 harness.

Written from RFC 7959 (§2.3 late negotiation, §2.4 Block2, §2.5 Block1, §2.9 response codes);
shares no code with aiocoap (nothing is imported from it) nor with the Lean model.  Requests
and replies are plain tuples:

    request  (block1, block2, payload)      blockN = None | (num, more, szx)
    reply    Reply(code, block1, block2, etag, payload)

The server holds one resource with the fixed representation `rep` (ETag `etag`), reassembles
Block1 request bodies by byte offset `num * 2**(szx+4)`, hands a completed body to the resource
(`recorded`) and serves `rep` in Block2 slices.  In every exchange it may ask for / use any
size exponent not larger than the request's (`choice`), so size reductions can happen at any
block.  A request of the upload phase may carry the client's size hint Block2 = (0, _, szx): the
first block of the representation is then served at an exponent not above it (section 2.4).
Size exponent 7 (BERT, RFC 8323 section 6; a client whose remote has maximum_block_size_exp 7 sends it) is
understood in requests: offsets count in 1024-byte units and a non-final block carries a positive multiple of
1024 bytes.  The server's OWN exponents are 0..6 unless it is created with `bert=k` (a BERT peer: exponent 7 is
echoed / used, its Block2 blocks carry k KiB).
`mis` optionally makes it deviate once (two kinds, `hollow` and `confused`, deviate for good): violate a sequencing rule (MUST_ERROR), behave
unusually but correctly (MUST_SUCCEED), or end the transfer itself with ONE response that is
complete in CoAP terms (EXACT_REPLY: the caller must get exactly that response).  What
`ignore_block1` amounts to depends on the block it hits and on the code (see there): the server
says which class applies (`klass`).
"""
import collections
import hashlib

Reply = collections.namedtuple("Reply", "code block1 block2 etag payload observe", defaults=(None,))

CONTINUE = 95          # 2.31
CHANGED = 68           # 2.04
BAD_REQUEST = 128      # 4.00
NOT_FOUND = 132        # 4.04
INCOMPLETE = 136       # 4.08
TOO_LARGE = 141        # 4.13

# the server violates a sequencing rule the property names -> the client must end with an error
#   continue_no_block1  a 2.31 Continue WITHOUT Block1 option (to a non-final block, the final block or an
#                       unfragmented request): a 2.31 is never a final response
#   b2_szx_grows        a Block2 block with a larger size exponent than the request asked for (RFC 7959 2.4)
#   first_above_hint    the FIRST block of the representation comes at a larger size exponent than the size hint
#                       Block2 = (0, 0, szx) of the request asked for (with or without the more flag)
#   ignore_block1       (when it hits a NON-final block with a SUCCESSFUL code, see below)
MUST_ERROR = {"wrongnum1", "more_on_final", "continue_on_final", "b1_unfrag_more",
              "b1_unfrag_wrongnum", "etag_change", "short_block", "long_block", "gap", "dup",
              "unscaled", "first_nonzero", "first_late_final", "code_change",
              "continue_no_block1", "b2_szx_grows", "first_above_hint", "hollow", "confused"}
#   hollow              from the n-th Block2 response on, EVERY Block2 response says "more to come" and carries
#                       no payload at all (missing payload bytes): a client that accepts such a block makes no
#                       progress and asks for the same block for ever
#   confused            the payload lengths disagree with the announced size for good: the server cuts the
#                       representation into pieces of `mult` x the announced block size and numbers the PIECES
#                       (piece i is labelled NUM=i): a client that takes "a whole number of blocks" for valid
#                       asks for piece 2, 4, 6 ... and returns a body with holes
# unusual but harmless behaviour -> the transfer must still deliver both bodies
#   observe_continue    an Observe option in an intermediate 2.31 (the client asked to observe the result): the
#                       client drops that erroneous observation and goes on
MUST_SUCCEED = {None, "stateless_acks", "grow_szx", "observe_continue"}
# The server itself ends the transfer with ONE response that is complete in CoAP terms; the caller must get
# EXACTLY that response (code, ETag, payload) -- never a combination with blocks received before, and no further
# block may be uploaded after it.  What each one is:
#   ignore_block1   a Block1 block is answered as if it were a whole request: final (non-2.31) code `mis["code"]`
#                   (default: the server's code), NO Block1 option.  Three situations, told apart by the server
#                   (`klass`):
#                     - a SUCCESSFUL code to a NON-final block (more flag set): Block1 is a critical option, a server
#                       that does not know it answers 4.02 and one that does echoes it; the server has seen only a
#                       part of the body, so this is a sequencing violation -> class "error" (the request must
#                       end with an aiocoap error; reporting success would be "a truncated body reported as
#                       success").  Until round 4 the verification had exempted this ("server ignored Block1,
#                       the caller gets the server's answer"): a mistake, withdrawn.
#                     - a successful code to the FINAL (or only) block: the whole body was sent and reassembled,
#                       only the echo is missing -> class "exact": the caller gets (code, ETag, representation),
#                       and the server has recorded the payload
#                     - an UNSUCCESSFUL code (4.08, 4.13, 5.00 ...) to whatever block, with a diagnostic payload:
#                       the request failed and the caller is told so -> class "exact": exactly that response,
#                       nothing more is uploaded
#   fail_mid        a non-final block is acknowledged 4.08 with Block1 (n, M=0): the upload failed (RFC 7959 2.9.2)
#   fail_mid_noopt  a non-final block is answered 4.08 / 4.13 without any Block1 option
#   hint_413        a 4.13 with a Block1 size hint to an unfragmented request (RFC 7959 2.9.3)
#   drop_block2     a follow-up block of a download comes WITHOUT Block2 option: by itself a complete response
#   mid_404         the request for a follow-up block is answered 4.04 (the resource went away)
EXACT_REPLY = {"ignore_block1", "fail_mid", "fail_mid_noopt", "hint_413", "drop_block2", "mid_404"}
ENDS_UPLOAD = {"ignore_block1", "fail_mid", "fail_mid_noopt", "hint_413"}
KINDS = sorted(MUST_ERROR | EXACT_REPLY | {"stall", "stateless_acks", "grow_szx", "observe_continue"})


def is_successful(code):
    return 64 <= code < 96


def usize(szx):
    """bytes per unit of the block number: 2**(szx+4), and 1024 for BERT (szx 7)"""
    return 16 << min(szx, 6)


def pattern(n, seed):
    """n bytes in which every 16-byte block is different"""
    return hashlib.shake_128(b"c05:%d" % seed).digest(n) if n else b""


class RefServer:
    def __init__(self, rep, etag, code, choices, default_choice, limit=None, mis=None, observe_final=None,
                 bert=None):
        self.rep, self.etag, self.code = rep, etag, code
        self.bert = bert            # None: the server's own exponents are 0..6; k: a BERT peer, blocks of k KiB
        self.persistent = False     # hollow / confused: the deviation has begun and goes on
        self.observe_final = observe_final   # Observe value of the response that carries (block 0 of) rep
        self.expected = None        # EXACT_REPLY: (code, etag, payload) the caller must get
        self.klass = None           # "error" / "exact": what a deviation amounts to where that depends on what it hit
        self.hit_final = None       # ignore_block1: did it hit the final (or only) block?
        self.trigger_index = None   # index of the exchange that was tampered with
        self.choices, self.default_choice, self.limit = choices, default_choice, limit
        self.mis = mis or {}
        self.kind = self.mis.get("kind")
        self.buf = b""
        self.recorded = []          # every request body handed to the resource
        self.exchanges = 0
        self.eligible = 0
        self.triggered = False
        self.used_choices = []
        self.other = bytes(b ^ 0x5A for b in rep)   # a different representation, same length

    # ---- conforming behaviour ------------------------------------------------------------
    def _slice(self, off, szx, ack, rep=None, etag="same"):
        size = 1024 * self.bert if szx == 7 else 16 << szx
        rep = self.rep if rep is None else rep
        return Reply(self.code, ack, (off // usize(szx), off + size < len(rep), szx),
                     self.etag if etag == "same" else etag, rep[off:off + size])

    def _cap(self, cszx, reqszx):
        """the exponent used in a response: the server's choice, never above the request's, never above the
        server's own maximum"""
        return min(cszx, reqszx, 7 if self.bert else 6)

    def _respond(self, body, ack, reqb2, choice):
        self.responded = True
        self.buf = b""
        self.recorded.append(body)
        cszx, explicit = choice
        szx = self._cap(cszx, reqb2[2] if reqb2 is not None else 7)
        if len(self.rep) > (1024 * self.bert if szx == 7 else 16 << szx) or explicit:
            return self._slice(0, szx, ack)._replace(observe=self.observe_final)
        return Reply(self.code, ack, None, self.etag, self.rep, self.observe_final)

    def _honest(self, req, choice):
        b1, b2, payload = req
        cszx, _ = choice
        if b2 is not None and b2[0] != 0:
            num, _, szx = b2
            off = num * usize(szx)
            if off >= len(self.rep):
                return Reply(BAD_REQUEST, None, None, None, b"")
            return self._slice(off, self._cap(cszx, szx), None)
        if b1 is None:
            return self._respond(payload, None, b2, choice)
        num, more, szx = b1
        if more and (len(payload) != (16 << szx) if szx < 7 else (not payload or len(payload) % 1024)):
            return Reply(BAD_REQUEST, None, None, None, b"")
        buf = b"" if num == 0 else self.buf
        if num * usize(szx) != len(buf):
            self.buf = b""
            return Reply(INCOMPLETE, None, None, None, b"")
        ack = (num, more, self._cap(cszx, szx))
        if more:
            self.buf = buf + payload
            return Reply(CONTINUE, ack, None, None, b"")
        return self._respond(buf + payload, ack, b2, choice)

    # ---- protocol violations -------------------------------------------------------------
    def _hit(self):
        """the n-th eligible exchange is the one that is tampered with"""
        n = self.mis.get("n", 0)
        mine = self.eligible == n
        self.eligible += 1
        if mine:
            self.triggered = True
            self.trigger_index = self.exchanges - 1
        return mine

    def _exact(self, reply):
        """the server ends the transfer with this one response"""
        self.expected = (reply.code, reply.etag, reply.payload)
        return reply

    def _misbehave(self, req, rep, choice):
        k = self.kind
        b1, b2, payload = req
        cont = b2 is not None and b2[0] != 0      # continuation of a Block2 download
        if k is None or k == "stall":
            return rep
        if k == "hollow":
            if rep.block2 is not None and (self.persistent or self._hit()):
                self.persistent = True
                return rep._replace(block2=(rep.block2[0], True, rep.block2[2]), payload=b"")
            return rep
        if k == "confused":
            if rep.block2 is not None and rep.block2[2] < 7 and rep.code == self.code:
                szx = rep.block2[2]
                piece = (16 << szx) * self.mis.get("mult", 2)
                num = b2[0] if cont else 0
                off = num * piece
                if off < len(self.rep) and (off + piece < len(self.rep) or cont):
                    self.triggered = True
                    if self.trigger_index is None:
                        self.trigger_index = self.exchanges - 1
                    return rep._replace(block2=(num, off + piece < len(self.rep), szx),
                                        payload=self.rep[off:off + piece])
            return rep
        if k == "stateless_acks":                 # RFC 7959 §2.3: block-by-block processing
            if rep.block1 is not None and rep.block1[1]:
                self.triggered = True
                return rep._replace(code=CHANGED, block1=(rep.block1[0], False, rep.block1[2]))
            return rep
        if k == "grow_szx":                        # asks for larger blocks than it was sent
            if rep.block1 is not None and b1 is not None and b1[2] < 6:
                self.triggered = True
                return rep._replace(block1=(rep.block1[0], rep.block1[1], min(6, b1[2] + self.mis.get("by", 1))))
            return rep
        if k == "wrongnum1":
            if rep.block1 is not None and self._hit():
                d = self.mis.get("delta", 1)
                num = rep.block1[0] + d if rep.block1[0] + d >= 0 else rep.block1[0] + 1
                return rep._replace(block1=(num,) + rep.block1[1:])
        elif k == "more_on_final":
            if rep.block1 is not None and not rep.block1[1] and self._hit():
                return rep._replace(block1=(rep.block1[0], True, rep.block1[2]))
        elif k == "continue_on_final":
            if rep.block1 is not None and not rep.block1[1] and self._hit():
                return rep._replace(code=CONTINUE)
        elif k == "observe_continue":              # Observe in intermediate acknowledgements
            if rep.code == CONTINUE and rep.block1 is not None and rep.block1[1] \
                    and (self.mis.get("all") or self._hit()):
                self.triggered = True
                return rep._replace(observe=self.mis.get("oval", 7))
        elif k == "continue_no_block1":
            # to a non-final block (the acknowledgement loses its option), to the final block or to an
            # unfragmented request (the final response is replaced)
            if not cont and self._hit():
                return Reply(CONTINUE, None, None, None, b"")
        elif k == "ignore_block1":
            # every response that would carry a Block1 option is eligible: acknowledgements of non-final blocks
            # and the response to the final / only block
            if rep.block1 is not None and self._hit():
                code = self.mis.get("code", self.code)
                final = not rep.block1[1]
                self.hit_final = final
                if not is_successful(code):
                    if final:
                        self.recorded.pop()          # the resource did not take the body
                    self.buf = b""
                    self.klass = "exact"
                    return self._exact(Reply(code, None, None, None, b"refused"[:self.mis.get("diag", 7)]))
                self.code = code                      # ... also for the later blocks of the representation
                if final:
                    self.klass = "exact"
                    self.expected = (self.code, self.etag, self.rep)
                    return rep._replace(block1=None, code=code)
                self.buf = b""
                self.klass = "error"
                return self._respond(payload, None, b2, choice)
        elif k == "fail_mid":
            if rep.block1 is not None and rep.block1[1] and self._hit():
                return self._exact(rep._replace(code=INCOMPLETE, block1=(rep.block1[0], False, rep.block1[2])))
        elif k == "fail_mid_noopt":
            if rep.block1 is not None and rep.block1[1] and self._hit():
                return self._exact(Reply(self.mis.get("code", INCOMPLETE), None, None, None,
                                         b"incomplete"[:self.mis.get("diag", 10)]))
        elif k == "hint_413":                      # RFC 7959 §2.9.3: size hint to a plain request
            if b1 is None and not cont and self._hit():
                self.recorded.pop()
                return self._exact(Reply(TOO_LARGE, (0, False, choice[0]), None, None, b""))
        elif k == "b1_unfrag_more":
            if b1 is None and not cont and self._hit():
                return rep._replace(block1=(0, True, choice[0]))
        elif k == "b1_unfrag_wrongnum":
            if b1 is None and not cont and self._hit():
                return rep._replace(block1=(1 + self.mis.get("delta", 0), False, choice[0]))
        elif k == "etag_change":
            if cont and rep.block2 is not None and self._hit():
                num, more, szx = rep.block2
                # the changed representation's ETag: another value, or none at all ("none"; an ETag is optional)
                e = self.mis.get("etag", "ee")
                return self._slice(num * usize(szx), szx, None, rep=self.other,
                                   etag=None if e == "none" else bytes.fromhex(e))
        elif k == "short_block":
            if rep.block2 is not None and rep.block2[1] and self._hit():
                cut = 1 + self.mis.get("cut", 0) % len(rep.payload)
                if rep.block2[2] == 7 and cut < len(rep.payload) and (len(rep.payload) - cut) % 1024 == 0:
                    cut += 1                          # a shorter whole number of KiB is a valid BERT block
                return rep._replace(payload=rep.payload[:-cut])
        elif k == "long_block":
            # (the last block of a BERT transfer may have any length: nothing to violate there)
            if rep.block2 is not None and (rep.block2[1] or (cont and rep.block2[2] < 7)) and self._hit():
                size = 16 << rep.block2[2] if rep.block2[2] < 7 else len(rep.payload)
                extra = size - len(rep.payload) + 1 + self.mis.get("extra", 0)
                if rep.block2[2] == 7 and (len(rep.payload) + extra) % 1024 == 0:
                    extra += 1                        # a longer whole number of KiB is a valid BERT block
                return rep._replace(payload=rep.payload + b"\xAA" * extra)
        elif k == "gap":
            if cont and rep.block2 is not None and rep.block2[1] and self._hit():
                num, more, szx = rep.block2
                return self._slice(num * usize(szx) + max(len(rep.payload), usize(szx)), szx, None)
        elif k == "dup":
            if cont and rep.block2 is not None and self._hit():
                num, more, szx = rep.block2
                return self._slice((num - 1) * usize(szx), szx, None)
        elif k == "unscaled":
            if cont and rep.block2 is not None and usize(rep.block2[2]) < usize(b2[2]) and self._hit():
                return rep._replace(block2=(b2[0],) + rep.block2[1:])
        elif k == "first_nonzero":
            if not cont and rep.block2 is not None and rep.block2[1] and self._hit():
                return rep._replace(block2=(1 + self.mis.get("delta", 0),) + rep.block2[1:])
        elif k == "first_late_final":
            # the answer to the plain request is labelled as a later, last block (tail of the body)
            if not cont and self.responded and self._hit():
                szx = rep.block2[2] if rep.block2 is not None else min(choice[0], 6)
                num = 1 + self.mis.get("delta", 0)
                tail = self.rep[num * usize(szx):][:usize(szx)] or self.rep[-usize(szx):] or b"tail"
                return rep._replace(block2=(num, False, szx), payload=tail)
        elif k == "code_change":
            # a continuation block arrives with another response code than the first block
            if cont and rep.block2 is not None and self._hit():
                code = self.mis.get("code", 132)
                if code == self.code:
                    code = 132 if self.code != 132 else 160
                if self.mis.get("diag", True):
                    return rep._replace(code=code, block2=(rep.block2[0], False, rep.block2[2]),
                                        payload=b"it is gone"[:16 << rep.block2[2]])
                return rep._replace(code=code)
        elif k == "drop_block2":
            if cont and rep.block2 is not None and self._hit():
                return self._exact(rep._replace(block2=None))
        elif k == "mid_404":
            if cont and rep.block2 is not None and self._hit():
                return self._exact(Reply(NOT_FOUND, None, None, None, b"gone"))
        elif k == "first_above_hint":
            # the request carries the client's size hint and the first block comes larger than that
            if not cont and b2 is not None and rep.block2 is not None and b2[2] < 6 and self._hit():
                szx = min(6, b2[2] + self.mis.get("by", 1))
                return self._slice(0, szx, rep.block1)._replace(observe=rep.observe)
        elif k == "b2_szx_grows":
            # only where the larger block is aligned with the requested offset, so that nothing but the
            # exponent is wrong with it
            top = 7 if self.bert else 6
            if cont and rep.block2 is not None and b2[2] < top:
                szx = min(top, b2[2] + self.mis.get("by", 1))
                off = b2[0] * usize(b2[2])
                if off % usize(szx) == 0 and self._hit():
                    return self._slice(off, szx, None)
        else:
            raise ValueError("unknown misbehaviour %r" % (k,))
        return rep

    # ---- entry point ---------------------------------------------------------------------
    def handle(self, req):
        """Answer one request; None = the server stays silent."""
        idx = self.exchanges
        if self.limit is not None and idx >= self.limit:
            self.triggered = True
            return None
        self.exchanges += 1
        choice = tuple(self.choices[idx]) if idx < len(self.choices) else tuple(self.default_choice)
        self.used_choices.append(choice)
        self.responded = False
        rep = self._honest(req, choice)
        return self._misbehave(req, rep, choice)
