"""C07 level (c): the application's view through `Context.request()`.

The real `Context` + `TokenManager` + `Request` and — by default — `BlockwiseRequest` on top of it,
over a token interface of the harness (no message layer, no sockets): responses are handed to
`TokenManager.process_response`, transport failures to `TokenManager.dispatch_error`.  What the
application sees is recorded at the interface the property names: callbacks / errbacks registered on
`request.observation`, or `async for` over it, plus the response future.

A scenario (JSON-able):
    {"blockwise": bool,                 # handle_blockwise (True = the default API)
     "consumer": "callbacks" | "iter",
     "open": n,                          # "iter": event-loop iterations the application lets pass
                                         # between `await request.response` and `async for`
     "work": k,                          # "iter": loop iterations spent in the loop body per item
     "cancel_at": id,                    # "callbacks": the callback calls request.observation.cancel() when it is
                                         # handed the message with this id (from inside the callback)
     "eb_cancels": bool,                 # "callbacks": the errback calls request.observation.cancel()
     "rc": i,                            # the application gives the request up -- request.response.cancel(), what
                                         # asyncio.wait_for does on time-out -- just before arrival i (0 = before
                                         # the first response; later the future is complete and nothing changes)
     "oc": i,                            # the application calls request.observation.cancel() (it may still want the
                                         # response) just before arrival i (0 = before the first response)
     "cancel_on_response": bool,         # the application only wanted the response: a task of it does
                                         # `await request.response; request.observation.cancel()`
     "tuning": kind,                     # the request's transport_tuning as the application passes it
                                         # (c07_pipe.TUNINGS: none, instance, the classes Reliable / Unreliable, ...)
     "at": [ticks, ...],                 # harness clock (standing in for `time` inside aiocoap.protocol) at each
                                         # arrival, in ticks of 2**-20 s; default: the clock stands still
     "others": [[when, remote], ...],    # further requests of the application (plain GETs, never answered) to the
                                         # observation's peer (remote 0) or to another one (remote 1), registered
                                         # just before arrival `when` (0 = while the observing request awaits its
                                         # first response; -1 = before the observing request itself, which then is
                                         # the NEWEST entry of the token manager)
     "arrivals": [[gap, "M", code, obs|None, id] | [gap, "X", k(, remote)]]}
`gap` = event-loop iterations the harness yields before that arrival (0 = back to back with the
previous one, i.e. while nobody else has run); `k`: 0 = the message layer reports a Reset of the
request (MessageError), 1 = ConRetransmitsExceeded, 2 = NetworkError through `dispatch_error`, for the
observation's peer or (remote = 1) for the other peer.
This level is judged by the oracle only.
"""
import asyncio

from c07_pipe import (EXC_NAMES, RFC_RESET_TICKS, TICK, Clock, rfc_fresher, is_notification, make_tuning,
                      tuned_reset_ticks)


class FakeRemote:
    is_multicast = False
    is_multicast_locally = False
    hostinfo = "peer.example"
    hostinfo_local = "me.example"
    scheme = "coap"
    maximum_block_size_exp = 6
    maximum_payload_size = 1124
    blockwise_key = "k"
    uri_base = "coap://peer.example"

    def as_response_address(self):
        return self


class FakeTokenInterface:
    def __init__(self):
        self.sent = []
        self.monitors = []

    def send_message(self, message, messageerror_monitor):
        self.sent.append(message)
        self.monitors.append(messageerror_monitor)
        return None

    async def recognize_remote(self, message):
        return True

    async def determine_remote(self, message):
        return None

    async def shutdown(self):
        pass


def _name(e, Error=None):
    """name of the exception the application was handed; marked when it is not what the property promises --
    an exception class instead of an instance, an exception that is not derived from aiocoap's error.Error"""
    if isinstance(e, type):
        return "class:" + e.__name__
    if Error is not None and not isinstance(e, Error):
        return "not-an-aiocoap-error:" + type(e).__name__
    return type(e).__name__


class AppBench:
    def __init__(self, aiocoap):
        from aiocoap import error
        from aiocoap.tokenmanager import TokenManager
        self.A, self.error, self.TokenManager = aiocoap, error, TokenManager
        import common
        import logging
        for n in ("coap", "coap-server"):
            common.quiet(logging.getLogger(n))

    def make_exc(self, k):
        e = self.error
        return {1: e.ConRetransmitsExceeded(), 2: e.NetworkError("harness")}[k]

    async def run(self, sc):
        import aiocoap.protocol as P
        clock = Clock()
        saved_time = P.time
        P.time = clock
        try:
            return await self._run(sc, clock)
        finally:
            P.time = saved_time

    async def _run(self, sc, clock):
        A = self.A
        loop = asyncio.get_running_loop()
        loop_errors = []
        old_handler = loop.get_exception_handler()
        # ("... exception was never retrieved" is the garbage collector's report about a future nobody asked -- whenever
        # it runs, possibly about a future of an earlier case; it is no exception raised in the event loop)
        loop.set_exception_handler(lambda l, c: "was never retrieved" in str(c.get("message")) or loop_errors.append(
            "%s: %r" % (c.get("message"), c.get("exception"))))
        ctx = A.Context(loop=loop, serversite=None)
        tman = self.TokenManager(ctx)
        ti = FakeTokenInterface()
        tman.token_interface = ti
        ctx.request_interfaces.append(tman)
        remote = FakeRemote()
        remotes = [remote, FakeRemote()]
        remotes[1].hostinfo, remotes[1].uri_base, remotes[1].blockwise_key = "other.example", "coap://other.example", "o"
        others = []                      # [remote index, request] of the application's further requests

        def start_others(when):
            for w, rem in sc.get("others") or []:
                if w == when:
                    m2 = A.Message(code=A.GET, uri_path=("other", str(len(others))))
                    m2.remote = remotes[rem]
                    r2 = ctx.request(m2, handle_blockwise=False)
                    r2.response.add_done_callback(lambda f: f.cancelled() or f.exception())
                    others.append([rem, r2])

        start_others(-1)
        msg = A.Message(code=A.GET, observe=0, uri_path=("obs",), transport_tuning=make_tuning(A, sc.get("tuning")))
        msg.remote = remote
        req = ctx.request(msg, handle_blockwise=sc["blockwise"])
        seen = []          # ("item", id) | ("stop",) | ("raise", name) | ("eb", name)
        escaped = []
        work = sc.get("work", 0)

        Error = self.error.Error
        cancel_at = sc.get("cancel_at")
        in_callback = []

        def app_callback(m):
            n = int(m.payload or b"0")
            seen.append(("item", n))
            if n == cancel_at:
                in_callback.append(n)
                req.observation.cancel()

        if sc["consumer"] == "callbacks":
            req.observation.register_callback(app_callback, _suppress_deprecation=True)
            def app_errback(e):
                seen.append(("eb", _name(e, Error)))
                if sc.get("eb_cancels"):
                    req.observation.cancel()

            req.observation.register_errback(app_errback, _suppress_deprecation=True)

        async def consume():
            try:
                async for m in req.observation:
                    seen.append(("item", int(m.payload or b"0")))
                    for _ in range(work):
                        await asyncio.sleep(0)
                seen.append(("stop",))
            except Exception as e:
                seen.append(("raise", _name(e, Error)))

        async def consume_polling():
            # an application that polls: each wait for the next notification is bounded (`asyncio.wait_for`), and a
            # wait that timed out -- which cancels the `__anext__` call -- is simply followed by the next one
            it = req.observation.__aiter__()
            waiter = None
            try:
                while True:
                    # (what asyncio.wait_for does, with the time-out counted in loop iterations)
                    waiter = asyncio.ensure_future(it.__anext__())
                    for _ in range(2):
                        if waiter.done():
                            break
                        await asyncio.sleep(0)
                    if not waiter.done():
                        waiter.cancel()
                        await asyncio.gather(waiter, return_exceptions=True)
                        if not waiter.cancelled():
                            pass                      # it completed after all: take what it has
                        else:
                            await asyncio.sleep(0)
                            continue
                    try:
                        m = waiter.result()
                    except StopAsyncIteration:
                        seen.append(("stop",))
                        return
                    except asyncio.CancelledError:
                        seen.append(("raise", "CancelledError"))       # the wait was not cancelled by anybody
                        return
                    seen.append(("item", int(m.payload or b"0")))
                    for _ in range(work):
                        await asyncio.sleep(0)
            except asyncio.CancelledError:
                if not getattr(consume_polling, "by_harness", False):
                    seen.append(("raise", "CancelledError"))      # nobody cancelled this task: a spurious one
                if waiter is not None and not waiter.done():
                    waiter.cancel()                               # (as asyncio.wait_for does with its inner task)
                raise
            except Exception as e:
                seen.append(("raise", _name(e)))

        async def turn(n):
            for _ in range(n):
                await asyncio.sleep(0)

        await turn(6)                       # BlockwiseRequest sends from its task
        if not ti.sent:
            raise RuntimeError("request was not sent")
        mine = [i for i, m in enumerate(ti.sent) if m.opt.observe == 0]
        if len(mine) != 1:
            raise RuntimeError("observing request not found among what was sent")
        sent = ti.sent[mine[0]]
        consumer = None
        resp = None
        pending = None
        snapshot = []
        other_states = []
        after_shutdown = None
        open_delay = sc.get("open", 0)

        async def opener():
            # the usual application: `await request.response`, (something else), then `async for`
            try:
                await req.response
            except Exception:
                pass
            except asyncio.CancelledError:
                if not req.response.cancelled():
                    raise                   # (this task is being cancelled, not the response future)
            for _ in range(open_delay):
                await asyncio.sleep(0)
            await (consume_polling() if sc["consumer"] == "poll" else consume())

        matched = []
        oc_at, n_x = [], [0]             # before which arrival the application's cancel ran
        settled = []
        only = None
        if sc.get("cancel_on_response"):
            async def only_the_response():
                try:
                    await req.response
                except Exception:
                    return
                seen.append(("oc",))
                oc_at.append(len(matched) + n_x[0])
                try:
                    req.observation.cancel()
                except Exception:
                    pass            # (raised into the application's own call: not judged at this level)
            only = loop.create_task(only_the_response())
        try:
            if sc.get("rc") is not None and sc["consumer"] in ("iter", "poll"):
                # the application iterates from the start (and waits for the response elsewhere)
                consumer = loop.create_task(opener() if sc["rc"] else
                                            (consume_polling() if sc["consumer"] == "poll" else consume()))
                await turn(2)
            for idx, a in enumerate(sc["arrivals"] + [None]):
                if sc.get("rc") == idx:
                    if idx:
                        await turn(8)
                    req.response.cancel()
                    await turn(3)
                if sc.get("oc") == idx:
                    seen.append(("oc",))
                    oc_at.append(idx)
                    try:
                        req.observation.cancel()
                    except Exception:
                        pass        # (raised into the application's own call: not judged at this level)
                    await turn(3)
                if a is None:
                    break
                await turn(a[0])
                if a[0] and idx >= 1 and (("oc",) in seen or in_callback) and not settled:
                    # the application has cancelled and the library's tasks get a quiet moment before this arrival
                    await turn(8)
                    settled.append(idx)
                if any(w == idx for w, _ in sc.get("others") or []):
                    start_others(idx)
                    await turn(2)
                if sc.get("at"):
                    clock.now = 1000.0 + sc["at"][idx] * TICK
                try:
                    if a[1] == "M":
                        m = A.Message(code=A.Code(a[2]), payload=str(a[4]).encode())
                        if a[3] is not None:
                            m.opt.observe = a[3]
                        m.token = sent.token
                        m.remote = remote
                        # (whether the token manager knew the token: what makes a message layer acknowledge or reject)
                        matched.append([idx, None])
                        matched[-1][1] = tman.process_response(m)
                    elif a[2] == 0:
                        n_x[0] += 1
                        ti.monitors[mine[0]]()       # the message layer reports a Reset of the request
                    else:
                        n_x[0] += 1
                        tman.dispatch_error(self.make_exc(a[2]), remotes[a[3] if len(a) > 3 else 0])
                except Exception as e:
                    escaped.append((idx, type(e).__name__))
                if consumer is None and sc["consumer"] in ("iter", "poll"):
                    consumer = loop.create_task(opener())
            await turn((3 + work) * (len(sc["arrivals"]) + 4) + 12)
            if req.response.done() and not req.response.cancelled():
                e = req.response.exception()
                resp = ("raise", _name(e)) if e is not None else ("resp", int(req.response.result().payload or b"0"))
            elif req.response.cancelled():
                resp = ("cancelled",)
            if consumer is not None:
                pending = not consumer.done()
                if pending:
                    consume_polling.by_harness = True
                    consumer.cancel()
                await asyncio.gather(consumer, return_exceptions=True)
            snapshot = list(seen)         # what follows is the harness cleaning up
            if only is not None and not only.done():
                only.cancel()
            other_states = []
            for rem, r2 in others:
                f = r2.response
                other_states.append([rem, "pending" if not f.done() else "cancelled" if f.cancelled() else
                                     "raise:" + _name(f.exception(), Error) if f.exception() is not None else "resp"])
        finally:
            try:
                await ctx.shutdown()
            except Exception as e:        # noqa
                escaped.append(("shutdown", type(e).__name__))
            await turn(8)
            after_shutdown = seen[len(snapshot):]
            loop.set_exception_handler(old_handler)
        return {"seen": snapshot, "resp": resp, "escaped": escaped, "loop_errors": loop_errors,
                "pending": pending, "after_shutdown": after_shutdown, "others": other_states, "matched": matched,
                "oc_at": oc_at[0] if oc_at else None, "settled_at": settled[0] if settled else None}


# ---------------------------------------------------------------------------------------------
# Oracle: the property, read over the arrivals and over what the application saw.
# ---------------------------------------------------------------------------------------------

def oracle_others(sc, res):
    """the application's other requests: a transport failure reported for a peer fails every request outstanding
    to THAT peer (once: a future completes once) and leaves the requests to other peers alone; a Reset of the
    observing request concerns nobody else; nothing that happens on the observation's token touches them"""
    if not sc.get("others"):
        return "", None
    want = {}
    order = []
    for idx in [-1] + list(range(len(sc["arrivals"]))):
        for w, rem in sc["others"]:
            if w == idx:
                order.append(len(order))
                want[order[-1]] = [rem, "pending"]
        if idx >= 0:
            a = sc["arrivals"][idx]
            if a[1] == "X" and a[2] != 0:
                failed = a[3] if len(a) > 3 else 0
                for k in want:
                    if want[k][0] == failed and want[k][1] == "pending":
                        want[k][1] = "raise:" + EXC_NAMES[a[2]]
    got = res["others"]
    exp = [want[k] for k in sorted(want)]
    if sc.get("rc") is None and got != exp:
        return (f"the application's other requests (peer, state): expected {exp}, found {got} -- a transport failure "
                "concerns exactly the requests outstanding to the peer it is reported for"), "app:other-requests"
    return "", None


def oracle_token_released(sc, res, arr, end):
    """"After the end ... later notifications on that token are rejected like unknown responses": once the
    observation has ended -- not observable, final response, transport failure of its peer -- nothing that arrives
    on the token is known to the token manager any more.  When the application cancels the observation itself
    (observation.cancel() somewhere, or from inside its callback) the client notices at the next notification --
    it has no other occasion: stated allowance -- so at most ONE more is still taken, all later ones are rejected.
    With the default API the block-wise layer reacts to the cancel in its task: what arrives in the same burst (before
    the event loop ran the library's tasks) does not count.
    (`arr`: the arrivals that concern this observation's peer, `end`: how the oracle says it ends.)"""
    ended_at = None
    if end is not None:
        for i, a in enumerate(arr):
            if a[1] == "X" or not is_notification(a[2], a[3]):
                ended_at = sc["arrivals"].index(a)
                break
    cancelled_at = res.get("oc_at")
    if sc.get("cancel_at") is not None and ("item", sc["cancel_at"]) in res["seen"]:
        at = next(i for i, a in enumerate(sc["arrivals"]) if a[1] == "M" and a[4] == sc["cancel_at"]) + 1
        cancelled_at = at if cancelled_at is None else min(at, cancelled_at)
    if cancelled_at is not None and sc["blockwise"]:
        cancelled_at = res.get("settled_at")
    taken = 0
    for idx, ok in res.get("matched", []):
        if ended_at is not None and idx > ended_at and ok:
            return (f"arrival {idx} {sc['arrivals'][idx][1:]} on the observation's token was still taken by the token "
                    f"manager after the observation had ended at arrival {ended_at} {sc['arrivals'][ended_at][1:]} (it "
                    "would be acknowledged, not rejected)"), "app:token-not-released"
        if cancelled_at is not None and idx >= max(cancelled_at, 1) and ok:
            taken += 1
            if taken > 1:
                return (f"the application cancelled the observation before arrival {cancelled_at}; {taken} later "
                        f"notifications on its token were still taken by the token manager (the last: arrival {idx}) "
                        "-- the token is never given up, every notification keeps being acknowledged"), \
                    "app:token-not-released"
    return "", None


def oracle_app(sc, res):
    """-> (verdict, key)"""
    if res["escaped"]:
        return f"exception escaped into the transport: {res['escaped'][0]}", "app:escaped"
    if res["loop_errors"]:
        return f"exception reached the event loop: {res['loop_errors'][0]}", "app:loop-exception"
    arr = sc["arrivals"]
    seen = res["seen"]
    for x in seen:
        if x[0] in ("eb", "raise") and ":" in x[1]:
            return (f"the application was handed {x[1]} as the error: the end of an observation is an exception "
                    "instance derived from aiocoap's error.Error"), "app:error-not-instance"
    if sc.get("rc") == 0:
        # the request was given up before its first response: the observation is ended, once, with an error
        # (whoever iterates over it would wait for ever otherwise); nothing is handed over
        if res["resp"] != ("cancelled",):
            return f"response future: cancelled by the application, found {res['resp']}", "app:response"
        if [x for x in seen if x[0] == "item"]:
            return f"items handed over although the request was given up: {seen}", "app:after-end"
        if sc["consumer"] == "callbacks":
            if [x[0] for x in seen] != ["eb"]:
                return (f"request.response cancelled before the first response: errbacks must fire once, "
                        f"saw {seen}"), "app:response-cancelled"
        elif res["pending"] or len(seen) != 1 or seen[0][0] not in ("stop", "raise"):
            return (f"request.response cancelled before the first response: the `async for` consumer of "
                    f"request.observation must end, it {'is still pending' if res['pending'] else 'saw'} "
                    f"{seen}"), "app:response-cancelled"
        return "", None
    v, key = oracle_others(sc, res)
    if v:
        return v, key
    # a transport failure reported for ANOTHER peer says nothing about this observation
    at = sc.get("at") or [0] * len(arr)
    at = [t for t, a in zip(at, arr) if not (a[1] == "X" and len(a) > 3 and a[3] != 0)]
    arr = [a for a in arr if not (a[1] == "X" and len(a) > 3 and a[3] != 0)]
    reset = tuned_reset_ticks(sc.get("tuning"), RFC_RESET_TICKS)
    # what the property allows / demands, from the arrivals and the clock alone
    first = arr[0]
    accepted = []        # ids of notifications fresher than the last accepted, in order (after the first)
    end = None           # None | "NotObservable" | "ObservationCancelled" | exception name
    final = None         # id of the final response
    want_resp = None
    if first[1] == "X":
        end = EXC_NAMES[first[2]]
        want_resp = ("raise", end)
    else:
        want_resp = ("resp", first[4])
        if not is_notification(first[2], first[3]):
            # "not observable if the first response carries no Observe option" (as every non-2.xx one)
            end = "NotObservable"
        else:
            last, tlast = first[3], at[0]
            for a, t in zip(arr[1:], at[1:]):
                if a[1] == "X":
                    end = EXC_NAMES[a[2]]
                    break
                if not is_notification(a[2], a[3]):
                    end, final = "ObservationCancelled", a[4]
                    break
                if rfc_fresher(last, tlast, a[3], t, reset):
                    accepted.append(a[4])
                    last, tlast = a[3], t
    if res["resp"] != want_resp:
        return f"response future: expected {want_resp}, got {res['resp']}", "app:response"
    v, key = oracle_token_released(sc, res, arr, end)
    if v:
        return v, key
    allowed = accepted + ([final] if final is not None else [])
    if ("oc",) in seen:
        # the application cancelled the observation itself: nothing is handed to its callbacks or signalled afterwards
        # (what it got before is judged like everything else); the response future was judged above
        k = seen.index(("oc",))
        if seen[k + 1:]:
            return f"the application cancelled the observation, then was handed {seen[k + 1:]}", "app:after-cancel"
        seen = seen[:k]
        if all(x[0] == "item" for x in seen):
            # cancelled while it ran
            j = 0
            for x in seen:
                while j < len(allowed) and allowed[j] != x[1]:
                    j += 1
                if j == len(allowed):
                    return f"handed over {seen}: not a freshness-ordered subsequence (allowed {allowed})", "app:order"
                j += 1
            return "", None
        # (it had ended before: the cancel changes nothing)
    items = []
    k = 0
    while k < len(seen) and seen[k][0] == "item":
        items.append(seen[k][1])
        k += 1
    tail = seen[k:]
    if any(x[0] == "item" for x in tail):
        return f"something was handed over after the end: {seen}", "app:after-end"
    j = 0
    for n in items:
        while j < len(allowed) and allowed[j] != n:
            j += 1
        if j == len(allowed):
            return (f"handed over {items}: not a freshness-ordered subsequence of the arrivals "
                    f"(allowed {allowed})"), "app:order"
        j += 1
    direct = not sc["blockwise"] and sc["consumer"] == "callbacks"
    if sc.get("cancel_at") is not None and sc["cancel_at"] in items:
        # the application cancelled from inside its callback: nothing is delivered after that
        if items[-1] != sc["cancel_at"] or tail:
            return (f"the application cancelled the observation from inside its callback at #{sc['cancel_at']}, "
                    f"then was handed {seen[items.index(sc['cancel_at']) + 1:]}"), "app:after-cancel"
        if direct and items != allowed[:len(items)]:
            return f"callbacks got {items}, expected every fresher notification {allowed}", "app:fresh-dropped"
        return "", None
    if direct and items != allowed:
        return f"callbacks got {items}, expected every fresher notification {allowed}", "app:fresh-dropped"
    if allowed and (not items or items[-1] != allowed[-1]):
        what = "final response" if final is not None else "freshest notification"
        return (f"the {what} (#{allowed[-1]}) was never handed to the application; it saw {seen} "
                f"({'default BlockwiseRequest' if sc['blockwise'] else 'handle_blockwise=False'}, "
                f"{sc['consumer']})"), "app:latest-lost"
    # how it ended
    if sc["consumer"] == "callbacks":
        ebs = [x[1] for x in tail if x[0] == "eb"]
        if end is None:
            if ebs:
                return f"errback {ebs} although the observation runs", "app:end"
            # the harness then shuts the context down: "ends ... with a network error on transport failure" has its
            # sibling in C18 -- the observation is told LibraryShutdown, once (and nothing escapes: checked above)
            if res.get("after_shutdown") is not None and res["after_shutdown"] != [("eb", "LibraryShutdown")]:
                return (f"Context.shutdown() with the observation running: errbacks must get LibraryShutdown once, "
                        f"saw {res['after_shutdown']}"), "app:shutdown-end"
        elif ebs != [end]:
            return f"observation must end once with {end}, errbacks got {ebs}", "app:end"
    else:
        kinds = [x for x in tail]
        if end is None:
            if kinds or not res["pending"]:
                return f"iteration ended ({kinds}) although the observation runs", "app:end"
        elif end in ("NotObservable", "ObservationCancelled"):
            if kinds != [("stop",)]:
                return f"observation ended with {end}; the iteration gave {kinds or 'nothing'}", "app:end"
        elif kinds != [("raise", end)]:
            return f"observation failed with {end}; the iteration gave {kinds or 'nothing'}", "app:end"
    return "", None
