"""C13 harness: run event histories on the real FilesystemSecurityContext with crash injection.

The file-system effects of `_store` are intercepted *as seen from aiocoap.oscore* (the module
attributes `tempfile`, `io`, `os`, `secrets` are replaced by delegating proxies for the
duration of a run; nothing global is patched and the implementation carries no hook):

    mkstemp   tempfile.mkstemp returned
    write     the data reached the OS (the temp file is opened unbuffered by the proxy)
    fsync     os.fsync returned
    replace   os.replace returned

An operation run with `crash_after = j` raises `Crash` (a BaseException, so no `except
Exception` in the implementation can swallow it) right after its j-th effect (before the first
for j = 0).  The dead object is then left as a killed process leaves it: `__del__` must not run
a clean shutdown (`lockfile = None`) and the OS would have dropped the lock (lock file removed).
"""
import io
import json
import os
import secrets
import tempfile


class Crash(BaseException):
    """The simulated process dies here."""


class _Proxy:
    def __init__(self, real, **over):
        self.__dict__["_real"] = real
        self.__dict__.update(over)

    def __getattr__(self, name):
        return getattr(self._real, name)


class _TmpFile:
    """Unbuffered stand-in for the object `io.open(fd, "wb")` returns."""

    def __init__(self, fx, fd, mode):
        self.fx = fx
        self.f = io.open(fd, mode, buffering=0)

    def write(self, data):
        n = self.f.write(data)
        self.fx.effect("write")
        return n

    def flush(self):
        pass

    def fileno(self):
        return self.f.fileno()

    def close(self):
        self.f.close()

    def __enter__(self):
        return self

    def __exit__(self, *a):
        self.f.close()
        return False


class Effects:
    """Interception state; `install(oscore)` / `uninstall(oscore)` around a run."""

    def __init__(self):
        self.total = 0
        self.in_op = 0
        self.crash_after = None
        self.temp_names = []
        self.oplog = []
        self.echo = b"\0" * 8
        self._saved = None

    # -- per operation
    def begin(self, crash_after):
        self.in_op = 0
        self.crash_after = crash_after
        self.oplog = []

    def end(self):
        self.crash_after = None

    def effect(self, name):
        self.total += 1
        self.in_op += 1
        self.oplog.append(name)
        if self.crash_after is not None and self.in_op == self.crash_after:
            raise Crash(name)

    # -- wrappers
    def _mkstemp(self, *a, **k):
        if self.crash_after == 0 and self.in_op == 0:
            raise Crash("before mkstemp")
        fd, name = tempfile.mkstemp(*a, **k)
        self.temp_names.append(name)
        try:
            self.effect("mkstemp")
        except Crash:
            os.close(fd)          # a dead process holds no descriptors
            raise
        return fd, name

    def _open(self, file, mode="r", *a, **k):
        if isinstance(file, int) and "w" in mode and "b" in mode:
            return _TmpFile(self, file, mode)
        return io.open(file, mode, *a, **k)

    def _fsync(self, fd):
        os.fsync(fd)
        self.effect("fsync")

    def _replace(self, src, dst, **k):
        os.replace(src, dst, **k)
        self.effect("replace")

    def _token_bytes(self, n=None):
        return self.echo[: n or 8]

    def install(self, oscore):
        self._saved = (oscore.tempfile, oscore.io, oscore.os, oscore.secrets)
        oscore.tempfile = _Proxy(tempfile, mkstemp=self._mkstemp)
        oscore.io = _Proxy(io, open=self._open)
        oscore.os = _Proxy(os, fsync=self._fsync, replace=self._replace)
        oscore.secrets = _Proxy(secrets, token_bytes=self._token_bytes)

    def uninstall(self, oscore):
        if self._saved:
            oscore.tempfile, oscore.io, oscore.os, oscore.secrets = self._saved
            self._saved = None


def canon_seqfile(text):
    """Canonical form of the contents of sequence.json / a temp file (`e` = empty)."""
    if text == "":
        return "e"
    try:
        data = json.loads(text)
    except ValueError:
        return "?garbled"
    if not isinstance(data, dict) or sorted(data) != ["next-to-send", "received"]:
        return "?keys"
    nxt, rec = data["next-to-send"], data["received"]
    if not isinstance(nxt, int) or isinstance(nxt, bool):
        return "?next"
    if rec == "unknown":
        return f"{nxt}:u"
    if isinstance(rec, dict) and sorted(rec) == ["bitfield", "index"]:
        i, b = rec["index"], rec["bitfield"]
        if i is None and b is None:
            return f"{nxt}:n"
        if isinstance(i, int) and isinstance(b, int):
            return f"{nxt}:{i}:{b}"
    return "?received"


def snapshot(basedir, fx):
    """`<sequence.json>;<temp>,<temp>…` (temps newest first), `+name` for anything unexpected."""
    names = set(os.listdir(basedir))
    try:
        with open(os.path.join(basedir, "sequence.json")) as f:
            seq = canon_seqfile(f.read())
    except FileNotFoundError:
        seq = "-"
    temps = []
    known = {"settings.json", "lock", "sequence.json"}
    for path in reversed(fx.temp_names):
        n = os.path.basename(path)
        if n in names:
            known.add(n)
            with open(path) as f:
                temps.append(canon_seqfile(f.read()))
    extra = sorted(names - known)
    return seq + ";" + ",".join(temps) + "".join("+" + n for n in extra)


def dir_stamp(basedir):
    out = []
    for p in (basedir, os.path.join(basedir, "sequence.json")):
        try:
            st = os.stat(p)
            out.append((st.st_mtime_ns, st.st_size, st.st_ino))
        except FileNotFoundError:
            out.append(None)
    return tuple(out)
