"""File-system jail for the C19 check.

While a `Jail` is active (`with jail:`), every entry point of `os`, `io`/`builtins` and
`shutil` through which Python code names a file-system object is replaced by a wrapper
that

* records the call (function name, the path(s) exactly as asked, their absolute lexically
  normalised form, and the exception class if the call raised), and
* refuses the call -- raising `Refused`, a BaseException, before anything is touched -- when
  a path lies outside the scratch directory the jail was created for.

`pathlib` and `tempfile` reach the operating system through these module attributes
(`os.stat`, `os.listdir`, `io.open`, `os.open`, `os.rename`, `os.unlink`, ...), looked up at
call time, so their accesses are seen too.  The scratch directory contains no symbolic
links (it is created by the harness from a real path), so lexical normalisation is the same
as resolution by the kernel.
"""
import builtins
import io
import os
import posixpath
import shutil

# function name -> number of leading positional arguments that are paths
OS_FUNCS = {
    "stat": 1, "lstat": 1, "listdir": 1, "scandir": 1, "unlink": 1, "remove": 1, "mkdir": 1,
    "makedirs": 1, "rmdir": 1, "removedirs": 1, "chmod": 1, "lchmod": 1, "chown": 1, "lchown": 1,
    "readlink": 1, "truncate": 1, "utime": 1, "access": 1, "mkfifo": 1, "mknod": 1, "chdir": 1,
    "chroot": 1, "statvfs": 1, "open": 1, "getxattr": 1, "setxattr": 1, "listxattr": 1,
    "removexattr": 1, "pathconf": 1, "chflags": 1, "lchflags": 1,
    "rename": 2, "replace": 2, "link": 2, "symlink": 2, "renames": 2,
}
SHUTIL_FUNCS = {"rmtree": 1, "move": 2, "copy": 2, "copy2": 2, "copyfile": 2, "copytree": 2,
                "copymode": 2, "copystat": 2, "chown": 1, "disk_usage": 1, "make_archive": 1}
PATH_KW = ("path", "src", "dst", "file", "name", "target", "fd")

READ_ONLY = {"stat", "lstat", "listdir", "scandir", "readlink", "access", "statvfs",
             "getxattr", "listxattr", "pathconf", "disk_usage", "chdir"}


class Refused(BaseException):
    """A file-system call outside the scratch directory was attempted (and not performed)."""


def lexical_abs(cwd, p):
    return posixpath.normpath(posixpath.join(cwd, p))


def inside(ab, root):
    return ab == root or ab.startswith(root.rstrip("/") + "/")


class Jail:
    def __init__(self, scratch):
        self.scratch = scratch
        self.cwd = os.getcwd()
        self.log = []          # dicts: fn, raw (list of str), abs (list of str), args, exc, modifying
        self.refused = []
        self.depth = 0
        self._saved = []
        self.orig = {}
        for n in OS_FUNCS:
            if hasattr(os, n):
                self.orig["os." + n] = getattr(os, n)
        for n in SHUTIL_FUNCS:
            if hasattr(shutil, n):
                self.orig["shutil." + n] = getattr(shutil, n)
        self.orig["io.open"] = io.open
        self.orig["builtins.open"] = builtins.open
        self.wrappers = []
        for n, k in OS_FUNCS.items():
            if "os." + n in self.orig:
                self.wrappers.append((os, n, self._wrap("os." + n, k, nested=True)))
        for n, k in SHUTIL_FUNCS.items():
            if "shutil." + n in self.orig:
                self.wrappers.append((shutil, n, self._wrap("shutil." + n, k, nested=False)))
        self.wrappers.append((io, "open", self._wrap("io.open", 1, nested=True)))
        self.wrappers.append((builtins, "open", self._wrap("builtins.open", 1, nested=True)))

    # -- installation -----------------------------------------------------------------
    def __enter__(self):
        for mod, n, w in self.wrappers:
            self._patch(mod, n, w)
        return self

    def __exit__(self, *exc):
        for mod, n, old in reversed(self._saved):
            setattr(mod, n, old)
        self._saved = []
        return False

    def _patch(self, mod, n, new):
        self._saved.append((mod, n, getattr(mod, n)))
        setattr(mod, n, new)

    # -- the wrapper ------------------------------------------------------------------
    def _wrap(self, qual, npaths, nested):
        orig = self.orig[qual]
        jail = self

        def wrapper(*a, **kw):
            if jail.depth:
                return orig(*a, **kw)
            cand = list(a[:npaths])
            if len(cand) < npaths:
                cand += [kw[k] for k in PATH_KW if k in kw][: npaths - len(cand)]
            raw, ab = [], []
            for p in cand:
                if isinstance(p, int):
                    continue                      # an already open descriptor
                s = os.fspath(p)
                if isinstance(s, bytes):
                    s = os.fsdecode(s)
                raw.append(s)
                ab.append(lexical_abs(jail.cwd, s))
            fn = qual.split(".", 1)[1] if qual.startswith("os.") else qual
            entry = {"fn": fn, "raw": raw, "abs": ab, "exc": None,
                     "flags": a[1] if fn == "open" and len(a) > 1 else kw.get("flags"),
                     "mode": (a[1] if len(a) > 1 else kw.get("mode", "r")) if fn.endswith(".open") else None,
                     "opener": kw.get("opener") is not None}
            jail.log.append(entry)
            if kw.get("dir_fd") is not None and raw:
                entry["exc"] = "Refused"
                jail.refused.append(entry)
                raise Refused(f"{fn} with dir_fd (cannot be located)")
            for x in ab:
                if not inside(x, jail.scratch):
                    entry["exc"] = "Refused"
                    jail.refused.append(entry)
                    raise Refused(f"{fn}({x!r}) is outside the scratch directory")
            if not nested:
                jail.depth += 1
            try:
                return orig(*a, **kw)
            except BaseException as e:
                entry["exc"] = type(e).__name__
                raise
            finally:
                if not nested:
                    jail.depth -= 1
        wrapper.__name__ = qual
        return wrapper


def entry_modifies(e):
    """Independent classification of a logged call: does it (try to) change the file system?"""
    fn = e["fn"]
    if fn in READ_ONLY:
        return False
    if fn == "open":                                   # os.open
        fl = e["flags"] or 0
        return bool(fl & (os.O_WRONLY | os.O_RDWR | os.O_CREAT | os.O_TRUNC | os.O_APPEND))
    if fn in ("io.open", "builtins.open"):
        if e["opener"]:
            return False                               # the opener's own os.open is logged
        m = e["mode"] if isinstance(e["mode"], str) else "r"
        return any(c in m for c in "wax+")
    return True
