"""Minimal pure-Python CBOR (RFC 8949) subset for the verification harness.

The sandbox has no cbor2 wheel; aiocoap.oscore needs dumps/loads for
int, bytes, str, list, dict, None, bool.  Deterministic, shortest-form heads.
"""
import struct


class CBORDecodeError(Exception):
    pass


class CBORDecodeEOF(CBORDecodeError):
    pass


def _head(major, n):
    if n < 24:
        return bytes([(major << 5) | n])
    if n < 1 << 8:
        return bytes([(major << 5) | 24, n])
    if n < 1 << 16:
        return bytes([(major << 5) | 25]) + struct.pack(">H", n)
    if n < 1 << 32:
        return bytes([(major << 5) | 26]) + struct.pack(">I", n)
    if n < 1 << 64:
        return bytes([(major << 5) | 27]) + struct.pack(">Q", n)
    raise ValueError("integer too large for this CBOR subset")


def dumps(obj):
    if obj is None:
        return b"\xf6"
    if obj is True:
        return b"\xf5"
    if obj is False:
        return b"\xf4"
    if isinstance(obj, int):
        return _head(0, obj) if obj >= 0 else _head(1, -1 - obj)
    if isinstance(obj, (bytes, bytearray, memoryview)):
        b = bytes(obj)
        return _head(2, len(b)) + b
    if isinstance(obj, str):
        b = obj.encode("utf-8")
        return _head(3, len(b)) + b
    if isinstance(obj, (list, tuple)):
        return _head(4, len(obj)) + b"".join(dumps(x) for x in obj)
    if isinstance(obj, dict):
        return _head(5, len(obj)) + b"".join(dumps(k) + dumps(v) for k, v in obj.items())
    raise TypeError(f"cbor2 shim cannot encode {type(obj)}")


def _load(b, i):
    if i >= len(b):
        raise CBORDecodeEOF("premature end")
    ib = b[i]
    major, info = ib >> 5, ib & 31
    i += 1
    if major == 7:
        if info == 20:
            return False, i
        if info == 21:
            return True, i
        if info == 22:
            return None, i
        raise CBORDecodeError("unsupported simple value")
    if info < 24:
        n = info
    elif info in (24, 25, 26, 27):
        ln = 1 << (info - 24)
        if i + ln > len(b):
            raise CBORDecodeEOF("premature end")
        n = int.from_bytes(b[i:i + ln], "big")
        i += ln
    else:
        raise CBORDecodeError("unsupported additional info")
    if major == 0:
        return n, i
    if major == 1:
        return -1 - n, i
    if major in (2, 3):
        if i + n > len(b):
            raise CBORDecodeEOF("premature end")
        v = bytes(b[i:i + n])
        i += n
        if major == 3:
            try:
                v = v.decode("utf-8")
            except UnicodeDecodeError as e:
                raise CBORDecodeError(str(e))
        return v, i
    if major == 4:
        out = []
        for _ in range(n):
            v, i = _load(b, i)
            out.append(v)
        return out, i
    if major == 5:
        out = {}
        for _ in range(n):
            k, i = _load(b, i)
            v, i = _load(b, i)
            out[k] = v
        return out, i
    raise CBORDecodeError("tags unsupported")


def loads(b):
    v, i = _load(bytes(b), 0)
    return v
