from . import hashes, serialization  # noqa: F401
