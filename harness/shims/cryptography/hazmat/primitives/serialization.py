class _E:
    Raw = "Raw"
    PEM = "PEM"
    DER = "DER"


Encoding = _E
PrivateFormat = _E
PublicFormat = _E


class NoEncryption:
    pass
