import hashlib
import hmac


class HKDF:
    """RFC 5869 extract-and-expand."""

    def __init__(self, algorithm, length, salt, info, backend=None):
        self._name = algorithm.name
        self._length = length
        self._salt = salt
        self._info = info or b""

    def derive(self, key_material):
        hlen = hashlib.new(self._name).digest_size
        salt = self._salt if self._salt else b"\0" * hlen
        prk = hmac.new(salt, key_material, self._name).digest()
        okm = b""
        t = b""
        i = 1
        while len(okm) < self._length:
            t = hmac.new(prk, t + self._info + bytes([i]), self._name).digest()
            okm += t
            i += 1
        return okm[: self._length]
