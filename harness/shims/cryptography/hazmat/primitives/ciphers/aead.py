def _no(*a, **k):
    raise NotImplementedError("real AEAD ciphers are not available in the verification shim")


class AESCCM:
    __init__ = _no


class AESGCM:
    __init__ = _no


class ChaCha20Poly1305:
    __init__ = _no
