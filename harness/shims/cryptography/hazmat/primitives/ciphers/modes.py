def __getattr__(name):
    raise NotImplementedError("cipher primitives are not available in the verification shim")
