from . import aead, base, algorithms, modes  # noqa: F401
