class Ed25519PrivateKey:
    pass


class Ed25519PublicKey:
    pass
