class SECP256R1:
    pass


class ECDSA:
    def __init__(self, h):
        pass


class ECDH:
    pass


class EllipticCurvePublicNumbers:
    pass


class EllipticCurvePrivateNumbers:
    pass


def generate_private_key(curve):
    raise NotImplementedError
