class X25519PrivateKey:
    pass


class X25519PublicKey:
    pass
