"""Skeleton of the `cryptography` package: just enough for `import aiocoap.oscore`.

No real ciphers: the harness supplies its own AeadAlgorithm subclass.  HKDF is real
(hmac/hashlib) because key derivation is part of what the checks compare.
"""
__version__ = "0-verif-shim"
