class InvalidTag(Exception):
    pass


class InvalidSignature(Exception):
    pass
