"""Trivial stand-in for the filelock package (single-process harness)."""
import os


class Timeout(TimeoutError):
    pass


class FileLock:
    def __init__(self, path, timeout=-1):
        self.lock_file = path
        self.is_locked = False

    def acquire(self, timeout=None):
        if os.path.exists(self.lock_file):
            raise Timeout(self.lock_file)
        with open(self.lock_file, "w"):
            pass
        self.is_locked = True
        return self

    def release(self, force=False):
        if self.is_locked:
            try:
                os.unlink(self.lock_file)
            except FileNotFoundError:
                pass
        self.is_locked = False
