"""Shared runner + independent oracles for the message-layer properties.

Each property module passes its scripts; every script is run on the real stack
(msglayer.run_script), the concrete input sequence is replayed on the Lean model and the two
output traces are compared; the property's oracle reads the implementation's trace only.
"""
import multiprocessing
import os

import msglayer
from common import HarnessError, load_corpus

M = 1 << 20


def _worker(args):
    repo, script = args
    import sys
    if sys.path[0] != repo:
        sys.path.insert(0, repo)
    try:
        res = msglayer.run_script(script)
    except Exception as e:             # a crash of the scenario itself
        import traceback
        return {"crash": f"{type(e).__name__}: {e}", "tb": traceback.format_exc()[-1500:], "script": script}
    # drop bulky / unpicklable parts
    res["wire"] = [(t, d, b.hex()) for (t, d, b) in res["wire"]]
    res["script"] = script
    return res


def run_scripts(env, scripts):
    env.import_repo()
    jobs = [(env.repo, s) for s in scripts]
    if len(jobs) > 40:
        with multiprocessing.get_context("fork").Pool(min(16, os.cpu_count() or 4)) as pool:
            return pool.map(_worker, jobs, chunksize=8)
    return [_worker(j) for j in jobs]


def check_scripts(env, rep, prop, scripts, oracle, nontrivial=None):
    """run, compare with the model, evaluate the oracle"""
    results = run_scripts(env, scripts)
    lines, cases, impl = [], [], []
    for res in results:
        script = res["script"]
        tag = script.get("tag", "")
        if "crash" in res:
            raise HarnessError(f"scenario crashed: {res['crash']}\n{res.get('tb')}\nscript={script}")
        case = {"script": script}
        rep.count("script:" + tag.split(":")[0])
        for c in res["concrete"]:
            rep.count("event:" + c[0])
        nt = nontrivial(res) if nontrivial else len(res["wire"]) > 0
        rep.case({"tag": tag, "events": res["concrete"][:12], "trace": res["impl_line"][:300]},
                 nontrivial=nt, sample_every=50)
        # things no property tolerates: exceptions escaping into the transport or the loop
        for e in res["errors"]:
            rep.oracle_fail(case, f"exception escaped into the transport: {e}", key="escaped-exception")
        for e in res["loop_exceptions"]:
            rep.oracle_fail(case, f"exception reached the event loop: {e}", key="loop-exception")
        # the oracles attribute outputs to inputs by tick: two inputs at one tick (a scripted datagram and a rule's
        # reaction colliding) cannot be told apart, such a run is judged only for escaping exceptions -- except in
        # the scenarios that put several inputs into one callback / one tick on purpose
        designed_ticks = {e[1] for e in script["events"] if e[0] == "N" or (e[0] == "S" and len(e) > 13)
                          or (e[0] == "X" and len(e) > 3 and e[3])}
        ticks = [int(c.split("@")[1].split(":")[0]) for c in res["concrete"]]
        accidental = any(ticks.count(t) > 1 and t not in designed_ticks for t in set(ticks))
        v = "" if accidental else oracle(res)
        if v:
            # a corpus script that documents a recorded finding names that finding's key itself
            rep.oracle_fail(case, v, key=script.get("finding_key") or (prop + ":" + v.split(":")[0]))
        if res["same_tick_inputs"]:
            rep.count("discarded:same-tick-inputs")
            continue
        if script.get("oracle_only"):
            rep.count("oracle-only:" + str(script["oracle_only"]))
            continue
        lines.append(prop + " " + " ".join(res["args"]))
        cases.append(case)
        impl.append(res["impl_line"])
    outs = env.lean(lines)
    for case, line, m, i in zip(cases, lines, outs, impl):
        if m in ("bad-op", "out-of-model"):
            raise HarnessError(f"driver answered {m} for {line[:300]}")
        cm, tie, starved = msglayer.canon_model_line(m)
        if tie:
            rep.count("discarded:timer-tie")
            continue
        if starved:
            # the model opened more exchanges than the implementation drew time-outs for
            rep.traces += 1
            rep.disagree({"case": case, "line": line}, "model needs more time-out draws: " + cm[:2000], i[:3000],
                         what="message layer trace")
            continue
        rep.traces += 1
        if "~n/a" in i:
            # private tables not readable (refactored): compare the observable trace only
            rep.count("state-probe-unavailable")
            strip = lambda l: "|".join(g.split("~")[0] for g in l.split("|"))
            cm, i = strip(cm), strip(i)
        if cm != i:
            rep.disagree({"case": case, "line": line}, cm[:3000], i[:3000], what="message layer trace")


# -------------------------------------------------------------------------------------------
# trace access helpers
# -------------------------------------------------------------------------------------------

def parse_wire_str(s):
    mt, code, mid, tok, obs, body = s.split(":")
    return {"mtype": mt, "code": int(code), "mid": int(mid), "token": tok,
            "obs": None if obs == "-" else int(obs), "body": int(body)}


def outs(res, prefix):
    """[(tick, fields...)] for log entries of one kind"""
    r = []
    for kind, text, tick in res["log"]:
        if kind == "out" and text.startswith(prefix):
            r.append((tick, text))
    return r


def inputs(res):
    r = []
    for kind, text, tick in res["log"]:
        if kind == "in":
            k, rest = text.split("@", 1)
            r.append((tick, k, rest.split(":")[1:]))     # fields after the time
    return r


def submits(res):
    d = {}
    for ev in res["script"]["events"]:
        if ev[0] == "S":
            d[ev[2]] = ev
    return d


def fails(res):
    d = {}
    for tick, text in outs(res, "f:"):
        _, r, kind = text.split(":")
        d.setdefault(int(r), []).append((tick, kind))
    return d


def responses(res):
    d = {}
    for tick, text in outs(res, "r:"):
        parts = text.split(":", 3)
        d.setdefault(int(parts[1]), []).append((tick, parts[2] == "1", parse_wire_str(parts[3])))
    return d


def sends(res):
    r = []
    for (tick, dest, hexdata), (t2, text) in zip(res["wire"], outs(res, "s@")):
        head, ws = text.split(":", 2)[0:2], text.split(":", 2)[2]
        remote = int(text.split(":")[1])
        r.append({"tick": tick, "remote": remote, "raw": hexdata, **parse_wire_str(ws)})
    return r


def closes_exchange(f):
    """fields of an "R" input: an ACK or RST whose code fits its type (RFC 7252 table 1: empty, or a response
    piggy-backed on an ACK) -- only those acknowledge / reject a message; anything else is to be ignored"""
    code = int(f[3])
    return (f[2] in ("ACK", "RST") and code == 0) or (f[2] == "ACK" and 64 <= code < 192)


def default_tuning():
    from aiocoap.numbers.constants import TransportTuning
    t = TransportTuning()
    return (int(round(t.ACK_TIMEOUT * M)), t.ACK_RANDOM_FACTOR, t.MAX_RETRANSMIT)


# -------------------------------------------------------------------------------------------
# C03 oracle: RFC 7252 §4.2 retransmission, read off the wire
# -------------------------------------------------------------------------------------------

def oracle_c03(res):
    subs = submits(res)
    ins = inputs(res)
    fl = fails(res)
    by_ex = {}
    for s in sends(res):
        if s["mtype"] == "CON":
            by_ex.setdefault((s["remote"], s["mid"]), []).append(s)
    disturbed = {int(f[0]) for (_, k, f) in ins if k == "E"}
    shutdown_at = [t for (t, k, f) in ins if k == "X"]
    for (remote, mid), copies in by_ex.items():
        body = copies[0]["body"]
        is_req = 1 <= copies[0]["code"] < 32
        r = body - 100 if is_req else None
        if is_req and r in subs:
            ev = subs[r]
            mr = ev[11]
            tun = ev[12] if len(ev) > 12 else None
            at, factor = (tun[0], tun[1]) if tun else default_tuning()[:2]
        else:
            at, factor, mr = default_tuning()
        lo, hi = at, int(at * factor)
        t0 = copies[0]["tick"]
        if any(c["raw"] != copies[0]["raw"] for c in copies):
            return f"copies-differ: retransmissions of mid {mid} to {remote} are not byte-identical"
        if len(copies) > 1 + mr:
            return f"too-many-copies: {len(copies)} transmissions of mid {mid} (MAX_RETRANSMIT={mr})"
        gaps = [b["tick"] - a["tick"] for a, b in zip(copies, copies[1:])]
        if gaps and not (lo <= gaps[0] <= hi):
            return f"first-gap: {gaps[0]} ticks not within [{lo},{hi}]"
        for g1, g2 in zip(gaps, gaps[1:]):
            if g2 != 2 * g1:
                return f"gap-not-doubled: {g1} then {g2}"
        # matching ACK / RST
        acks = [(t, f) for (t, k, f) in ins if k == "R" and int(f[0]) == remote and closes_exchange(f)
                and int(f[4]) == mid and t > t0]
        last_gap = gaps[-1] if gaps else None
        next_timer = copies[-1]["tick"] + (2 * last_gap if last_gap else None or 0)
        if acks:
            ta = acks[0][0]
            if any(c["tick"] > ta for c in copies):
                return f"sent-after-ack: copy of mid {mid} sent after {acks[0][1][2]} at {ta}"
            giveup = None
        quiet = remote not in disturbed and not shutdown_at
        if not quiet:
            continue
        # which copy was the last one that should have been sent?
        if acks:
            ta = acks[0][0]
            # expected copies: all timers strictly before ta
            exp = 1
            T = gaps[0] if gaps else None
            if T is None:
                # no retransmission happened: then the ack must have come before the first timer,
                # i.e. at most `hi` after t0
                if ta - t0 > hi and mr > 0:
                    return f"missing-retransmission: no copy of mid {mid} although ACK came {ta - t0} ticks after the first"
            else:
                t, g = t0, T
                while exp <= mr and t + g < ta:
                    t += g
                    g *= 2
                    exp += 1
                if len(copies) != exp and not any(t0 + T * (2 ** j - 1) == ta for j in range(1, mr + 2)):
                    return f"copy-count: {len(copies)} copies of mid {mid}, expected {exp} before the ACK at {ta}"
            if acks[0][1][2] == "RST" and is_req and r in subs:
                # exchange still open at ta?
                giveup_t = t0 + (gaps[0] * (2 ** (mr + 1) - 1) if gaps else None or 0)
                still_open = (not gaps and mr == 0 and False) or True
                if gaps:
                    still_open = ta < t0 + gaps[0] * (2 ** (mr + 1) - 1)
                else:
                    still_open = ta - t0 < lo * (1 if mr == 0 else 1)
                kinds = [k for (_, k) in fl.get(r, [])]
                resp = responses(res).get(r, [])
                cancelled = any(k == "C" and int(f[0]) == r and tt <= ta for (tt, k, f) in ins)
                if still_open and not kinds and not cancelled and not any(x[0] < ta for x in resp):
                    return f"rst-ignored: Reset for mid {mid} did not fail request {r}"
        else:
            if mr > 0 and len(copies) != 1 + mr:
                return f"copy-count: {len(copies)} copies of unanswered mid {mid}, expected {1 + mr}"
            if is_req and r in subs:
                T = gaps[0] if gaps else None
                resp = responses(res).get(r, [])
                if T is not None:
                    tg = t0 + T * (2 ** (mr + 1) - 1)
                    mtw = int(at * (2 ** (mr + 1) - 1) * factor)
                    got = fl.get(r, [])
                    if not got and not any(x[1] for x in resp):
                        cancelled = any(k == "C" and int(f[0]) == r for (_, k, f) in ins)
                        if not cancelled:
                            return f"no-timeout: request {r} neither answered nor failed after retransmissions ended"
                    for (tf, kind) in got:
                        if kind == "ConRetransmitsExceeded":
                            if tf != tg:
                                return f"timeout-time: request {r} failed at {tf}, expected {tg}"
                            if tf - t0 > mtw:
                                return f"timeout-late: later than MAX_TRANSMIT_WAIT ({tf - t0} > {mtw})"
                            cls = res["failure_classes"].get(r) or res["failure_classes"].get(str(r)) or []
                            if "TimeoutError" not in cls or "NetworkError" not in cls:
                                return f"timeout-class: {cls}"
    # time-out draws must come from [ACK_TIMEOUT, ACK_TIMEOUT*ACK_RANDOM_FACTOR]
    for (lo, hi, v) in res["uniform_calls"]:
        if not (lo <= v <= hi):
            return f"draw-range: random.uniform({lo},{hi}) -> {v}"
    return ""


# -------------------------------------------------------------------------------------------
# C14 oracle: NSTART = 1
# -------------------------------------------------------------------------------------------

def oracle_c14(res):
    subs = submits(res)
    ins = inputs(res)
    fl = fails(res)
    rs = responses(res)
    # timeline of per-remote open CON exchanges, from wire and inputs
    events = []
    seen_mid = set()
    for s in sends(res):
        if s["mtype"] == "CON":
            first = (s["remote"], s["mid"]) not in seen_mid
            seen_mid.add((s["remote"], s["mid"]))
            events.append((s["tick"], 1, "send", s, first))
        elif s["mtype"] == "NON" and 1 <= s["code"] < 32:
            events.append((s["tick"], 1, "non", s, True))
    for (t, k, f) in ins:
        if k == "R" and closes_exchange(f):
            events.append((t, 0, "ack", (int(f[0]), int(f[4])), None))
        if k == "E":
            events.append((t, 0, "err", int(f[0]), None))
        if k == "X":
            events.append((t, 0, "shut", None, None))
    for r, lst in fl.items():
        for (t, kind) in lst:
            if kind == "ConRetransmitsExceeded" and r in subs:
                events.append((t, 0, "giveup", subs[r][3], None))
    for (t, remote) in res.get("failed_sends", []):
        events.append((t, 2, "err", remote, None))       # a synchronous transport error
    events.sort(key=lambda e: (e[0], e[1]))
    open_ex = {}          # remote -> mid
    order = {}            # remote -> list of request numbers in first-transmission order
    intervals = {}        # remote -> [[opened, closed|None]] of the CON exchanges with that endpoint
    for (t, _, kind, x, first) in events:
        if kind == "send":
            if not first and open_ex.get(x["remote"]) != x["mid"]:
                return (f"zombie: copy of CON mid {x['mid']} sent to {x['remote']} at {t} although its exchange "
                        f"had ended (acknowledged, failed or timed out)")
            if first:
                if x["remote"] in open_ex:
                    return (f"two-open: CON mid {x['mid']} first sent to {x['remote']} at {t} while mid "
                            f"{open_ex[x['remote']]} is still unacknowledged")
                open_ex[x["remote"]] = x["mid"]
                intervals.setdefault(x["remote"], []).append([t, None])
                if 1 <= x["code"] < 32:
                    order.setdefault(x["remote"], []).append(x["body"] - 100)
        elif kind == "ack":
            if open_ex.get(x[0]) == x[1]:
                del open_ex[x[0]]
                intervals[x[0]][-1][1] = t
        elif kind in ("err", "giveup"):
            if open_ex.pop(x, None) is not None:
                intervals[x][-1][1] = t
        elif kind == "shut":
            for rem in open_ex:
                intervals[rem][-1][1] = t
            open_ex.clear()
    # FIFO per remote among confirmable requests
    for remote, seq in order.items():
        want = [r for r in sorted(subs) if subs[r][3] == remote and subs[r][7] is True and r in seq]
        if seq != want:
            return f"fifo: confirmable requests to {remote} first transmitted in order {seq}, submitted {want}"
    # none forgotten: every submitted request was transmitted, or failed, or answered, or cancelled
    sent_bodies = {s["body"] for s in sends(res) if 1 <= s["code"] < 32}
    cancelled = {int(f[0]) for (_, k, f) in ins if k == "C"}
    for r, ev in subs.items():
        if (100 + r) not in sent_bodies and r not in fl and r not in cancelled:
            return f"forgotten: request {r} was neither transmitted nor failed"
    # exchanges with other endpoints never delay a message: a confirmable request to an endpoint with which no
    # exchange is open (endpoints as the script distinguishes them) is on the wire at its submission tick
    for r, ev in subs.items():
        if ev[7] is True and ev[6] in (None, "CON") and not ev[4]:
            t0, remote = ev[1], ev[3]
            busy = any(a <= t0 and (b is None or b >= t0) for (a, b) in intervals.get(remote, []) if a != t0)
            earlier_same_tick = any(subs[q][1] == t0 and subs[q][3] == remote and q < r for q in subs)
            shut = [t for (t, k, f) in ins if k == "X" and t <= t0]
            send_failed = any(t == t0 and rem == remote for (t, rem) in res.get("failed_sends", []))
            if busy or earlier_same_tick or shut or send_failed or r in cancelled:
                continue
            ts = [s["tick"] for s in sends(res) if s["body"] == 100 + r and 1 <= s["code"] < 32]
            if not ts or ts[0] != t0:
                return (f"delayed-by-other-endpoint: CON request {r} to endpoint {remote} submitted at {t0} with no "
                        f"exchange open to that endpoint was first transmitted at {ts[:1] or 'never'}")
    # NON and other remotes are not delayed: a NON request is on the wire at its submission tick
    for r, ev in subs.items():
        if ev[7] is False and ev[6] is None and not ev[4]:
            ts = [s["tick"] for s in sends(res) if s["body"] == 100 + r and 1 <= s["code"] < 32]
            shut = [t for (t, k, f) in ins if k == "X" and t <= ev[1]]
            send_failed = any(t == ev[1] and rem == ev[3] for (t, rem) in res.get("failed_sends", []))
            if not shut and not send_failed and (not ts or ts[0] != ev[1]):
                return f"non-delayed: NON request {r} submitted at {ev[1]} transmitted at {ts[:1]}"
    return ""


# -------------------------------------------------------------------------------------------
# C04 oracle: deduplication (RFC 7252 §4.5), from arrivals, deliveries and the wire
# -------------------------------------------------------------------------------------------

def deliveries(res):
    r = []
    for tick, text in outs(res, "d:"):
        _, sv, remote, ws = text.split(":", 3)
        r.append({"tick": tick, "srv": int(sv), "remote": int(remote), **parse_wire_str(ws)})
    return r


def oracle_c04(res, EL=None):
    cfg = msglayer.default_cfg()
    EL = cfg["exchangeLifetime"]
    ins = inputs(res)
    dl = deliveries(res)
    sn = sends(res)
    shut = [t for (t, k, f) in ins if k == "X"]
    arrivals = {}
    for (t, k, f) in ins:
        if k == "R" and 1 <= int(f[3]) < 32 and f[2] in ("CON", "NON"):
            if shut and t >= shut[0]:
                continue
            arrivals.setdefault((int(f[0]), int(f[4])), []).append((t, f))
    for (remote, mid), arr in arrivals.items():
        arr.sort(key=lambda a: a[0])
        epoch_start = None
        for (t, f) in arr:
            if epoch_start is not None and t == epoch_start + EL:
                epoch_start = "tie"
            if epoch_start == "tie":
                break                      # arrival exactly at expiry: order of timer vs datagram undefined
            here = [d for d in dl if d["tick"] == t and d["remote"] == remote and d["mid"] == mid]
            out_now = [s for s in sn if s["tick"] == t and s["remote"] == remote]
            if epoch_start is None or t > epoch_start + EL:
                # a new request
                if len(here) != 1:
                    return f"not-delivered: request mid {mid} from {remote} at {t} delivered {len(here)} times"
                epoch_start = t
                first_type = f[2]
            else:
                if here:
                    return (f"executed-twice: duplicate of mid {mid} from {remote} at {t} "
                            f"({t - epoch_start} ticks after the first) was handed to the application again")
                if t == epoch_start + cfg["emptyAckDelay"]:
                    continue               # coincides with the empty-ACK timer: order undefined
                if any(tt + cfg["emptyAckDelay"] == t and k2 == "R" and int(f2[0]) == remote and 1 <= int(f2[3]) < 32
                       and f2[2] == "CON" for (tt, k2, f2) in ins) or any(tt == t and k2 in ("P", "S") for (tt, k2, f2) in ins):
                    # the empty-ACK timer of ANOTHER request of this endpoint fires in this very tick, or the application
                    # sends something in it: what goes out in this tick cannot be attributed to the duplicate alone
                    continue
                prior = [s for s in sn if epoch_start <= s["tick"] < t and s["remote"] == remote
                         and s["mid"] == mid and s["mtype"] in ("ACK", "RST")]
                if f[2] == "CON":
                    if prior:
                        if len(out_now) != 1 or out_now[0]["raw"] != prior[-1]["raw"]:
                            return (f"dup-reply: duplicate CON mid {mid} at {t} answered with "
                                    f"{[o['raw'] for o in out_now]} instead of a repetition of {prior[-1]['raw']}")
                    elif out_now:
                        return f"dup-reply-early: duplicate CON mid {mid} at {t} answered although no ACK was sent yet"
                    elif first_type == "CON" and t > epoch_start + cfg["emptyAckDelay"] and not shut:
                        # by now the request must have been acknowledged one way or the other (piggy-backed response,
                        # empty ACK of the timer or of a superseding request), so there is something to repeat
                        return (f"dup-unanswered: duplicate CON mid {mid} at {t}, {t - epoch_start} ticks after the "
                                f"first arrival, got no answer: no acknowledgement under that message ID was ever "
                                f"sent to {remote}")
                else:
                    if out_now:
                        return f"dup-non-output: duplicate NON mid {mid} at {t} produced output {[o['raw'] for o in out_now]}"
    return ""


# -------------------------------------------------------------------------------------------
# C10 oracle: the type/code rules of RFC 7252 §4 for each incoming datagram
# -------------------------------------------------------------------------------------------

def request_tokens(res):
    """request number -> (token hex, remote, submission tick); the token is read off the wire, so
    requests that were never transmitted are absent"""
    d = {}
    subs = submits(res)
    for s in sends(res):
        r = s["body"] - 100
        if 1 <= s["code"] < 32 and r not in d and r in subs:
            d[r] = (s["token"], s["remote"], subs[r][1])
    return d


def oracle_c10(res):
    cfg = msglayer.default_cfg()
    EAD, EL = cfg["emptyAckDelay"], cfg["exchangeLifetime"]
    ins = inputs(res)
    sn = sends(res)
    dl = deliveries(res)
    subs = submits(res)
    rs, fl = responses(res), fails(res)
    toks = request_tokens(res)
    shut = [t for (t, k, f) in ins if k == "X"]
    # never a CON to a multicast destination
    for s in sn:
        if s["remote"] == 9 and s["mtype"] == "CON":
            return f"con-to-multicast: CON sent to a multicast destination at {s['tick']}"

    def outstanding(token, remote, t):
        for r, (tk, rem, t0) in toks.items():
            if tk != token or t0 > t:
                continue
            if rem != remote and not subs[r][4]:
                continue
            ended = [x[0] for x in rs.get(r, []) if x[1]] + [x[0] for x in fl.get(r, [])] + \
                    [tt for (tt, k, f) in ins if k == "C" and int(f[0]) == r]
            if not ended or min(ended) >= t:
                return r
        return None

    # first pass: the requests (request code on a CON or NON -- RFC 7252 table 1) that are no duplicates
    fresh, seen0 = [], {}
    for (t, k, f) in ins:
        if k != "R" or (shut and t >= shut[0]):
            continue
        remote, mt, code, mid, tok = int(f[0]), f[2], int(f[3]), int(f[4]), f[5]
        if 1 <= code < 32 and mt in ("CON", "NON"):
            if (remote, mid) in seen0 and t - seen0[(remote, mid)] < EL:
                continue
            seen0[(remote, mid)] = t
            fresh.append((t, remote, tok, mid))
    seen = {}
    for (t, k, f) in ins:
        if k != "R" or (shut and t >= shut[0]):
            continue
        remote, mcl, mt, code, mid, tok = int(f[0]), f[1] == "1", f[2], int(f[3]), int(f[4]), f[5]
        now_out = [s for s in sn if s["tick"] == t and s["remote"] == remote]
        now_dl = [d for d in dl if d["tick"] == t]
        dedup = 1 <= code < 32 and mt in ("CON", "NON")
        is_dup = dedup and (remote, mid) in seen and t - seen[(remote, mid)] < EL
        if dedup and not is_dup:
            seen[(remote, mid)] = t
        if is_dup:
            # what a copy is answered with is C04's business -- but whatever the table holds, a message that is
            # not confirmable is never acknowledged
            if mt == "NON" and [o for o in now_out if o["mtype"] == "ACK"]:
                return (f"non-acked: NON request mid {mid} (a message ID used by an earlier request of that peer) "
                        f"was answered with an ACK")
            continue
        if code == 0:
            if mt == "CON":
                if [(o["mtype"], o["code"], o["mid"]) for o in now_out] != [("RST", 0, mid)]:
                    return f"ping: empty CON mid {mid} answered with {[o['raw'] for o in now_out]}, expected one RST"
            elif mt == "NON":
                if now_out or now_dl:
                    return f"empty-non: empty NON produced output"
            else:
                bad = [o for o in now_out if o["mtype"] in ("ACK", "RST")]
                if bad:
                    return f"ack-answered: empty {mt} was answered with {bad[0]['raw']}"
        elif 1 <= code < 32:
            if mt in ("ACK", "RST"):
                if now_dl or now_out:
                    return f"misfit: request code with type {mt} was processed"
                continue
            if len(now_dl) != 1:
                return f"request-not-delivered: {mt} request mid {mid} delivered {len(now_dl)} times"
            acks = [o for o in sn if o["remote"] == remote and o["mid"] == mid and o["mtype"] == "ACK"
                    and t <= o["tick"] < t + EL]
            dups = [tt for (tt, kk, ff) in ins if kk == "R" and tt > t and int(ff[0]) == remote
                    and int(ff[4]) == mid and 1 <= int(ff[3]) < 32 and tt - t < EL]
            acks = [a for a in acks if a["tick"] not in dups]
            if mt == "NON":
                if acks:
                    return f"non-acked: NON request mid {mid} was acknowledged"
            else:
                killed = [tt for (tt, kk, ff) in ins if kk == "X" and tt <= t + EAD]
                # a later request on the same token from the same endpoint takes this one's place: its
                # acknowledgement is due then (as an empty ACK), not EMPTY_ACK_DELAY after its arrival
                sup = [tt for (tt, rem2, tok2, mid2) in fresh if tt > t and rem2 == remote and tok2 == tok]
                due = min([t + EAD] + sup[:1])
                if len(acks) != 1 and not killed:
                    return f"ack-count: CON request mid {mid} acknowledged {len(acks)} times"
                if acks:
                    a = acks[0]
                    if a["code"] == 0:
                        resp_before = [e for e in res["script"]["events"] if e[0] == "P"
                                       and e[2] == now_dl[0]["srv"] and e[1] < due]
                        if a["tick"] != due and not resp_before:
                            return f"empty-ack-time: empty ACK for mid {mid} at {a['tick']}, expected {due}"
                    else:
                        if a["tick"] > due:
                            return (f"late-piggyback: response piggybacked on mid {mid} at {a['tick']}, after its "
                                    f"acknowledgement was due ({due})")
                        if a["token"] != tok:
                            return f"piggyback-token: token {a['token']} != {tok}"
            # responses put on the pipe by the script
            for e in res["script"]["events"]:
                if e[0] == "P" and e[2] == now_dl[0]["srv"]:
                    tp, pcode, pbody, nr = e[1], e[5], e[7], e[8]
                    if len(e) > 11 and e[11]:
                        # a response that cannot be serialised: nothing of it may reach the wire; what is sent
                        # instead (5.00) must not reuse the request's message ID unless it is its ACK
                        if [o for o in sn if o["tick"] == tp and o["remote"] == remote and o["code"] == pcode]:
                            return f"unsendable-sent: a response that cannot be serialised reached the wire"
                        break
                    if shut and tp >= shut[0]:
                        continue
                    replaced = [tt for (tt, kk, ff) in ins if kk == "R" and t < tt < tp and int(ff[0]) == remote
                                and ff[5] == tok and 1 <= int(ff[3]) < 32 and not (int(ff[4]) == mid and tt - t < EL)]
                    errs = [tt for (tt, kk, ff) in ins if kk == "E" and t < tt < tp and int(ff[0]) == remote]
                    if replaced or errs:
                        continue
                    suppressed = (nr >> ((pcode >> 5) - 1)) & 1 == 1
                    sent = [o for o in sn if o["tick"] == tp and o["remote"] == remote and o["code"] == pcode
                            and o["token"] == tok and o["body"] == pbody]
                    # a separate CON response waits while another CON to that peer is unacknowledged
                    # (NSTART, judged by C14): then nothing is expected on the wire at this tick
                    open_con = False
                    for o in sn:
                        if o["mtype"] == "CON" and o["remote"] == remote and o["tick"] < tp:
                            acked = [tt for (tt, kk, ff) in ins if kk == "R" and int(ff[0]) == remote
                                     and closes_exchange(ff) and int(ff[4]) == o["mid"] and o["tick"] < tt <= tp]
                            if not acked:
                                open_con = True
                    if open_con and not sent:
                        break
                    if suppressed and sent:
                        return f"no-response-ignored: response {pcode} sent despite No-Response={nr}"
                    if not suppressed:
                        if len(sent) != 1:
                            return f"response-count: {len(sent)} responses on the wire for srv {now_dl[0]['srv']}"
                        o = sent[0]
                        if mt == "NON" and e[3] is None and e[4] is None and o["mtype"] != "NON":
                            return f"non-answer-type: NON request answered with {o['mtype']}"
                        if mt == "CON" and o["mtype"] != "ACK" and o["mid"] == mid:
                            return f"separate-mid: separate response reuses the request's message id"
                    break
        elif 64 <= code < 192:
            if mt == "RST":
                if now_out or any(x[0] == t for v in rs.values() for x in v):
                    return f"misfit: response code with type RST was processed"
                continue
            r = outstanding(tok, remote, t)
            delivered = [x for v in rs.values() for x in v if x[0] == t]
            if r is not None:
                if not delivered:
                    return f"response-dropped: matching {mt} response for request {r} not delivered"
                if mt == "CON":
                    if [(o["mtype"], o["code"], o["mid"]) for o in now_out if o["mtype"] in ("ACK", "RST")] != [("ACK", 0, mid)]:
                        return f"con-response-ack: matched CON response mid {mid} not answered by exactly one empty ACK"
                else:
                    if [o for o in now_out if o["mtype"] in ("ACK", "RST")]:
                        return f"answered: {mt} response was answered at message level"
            else:
                if delivered:
                    return f"unmatched-delivered: response with unknown token {tok} from {remote} was delivered"
                want = [("RST", 0, mid)] if (mt == "CON" and not mcl) else []
                got = [(o["mtype"], o["code"], o["mid"]) for o in now_out if o["mtype"] in ("ACK", "RST")]
                if got != want:
                    return f"unmatched-reaction: unmatched {mt} response (multicast={mcl}) answered with {got}, expected {want}"
        else:
            if now_out or now_dl or any(x[0] == t for v in rs.values() for x in v):
                return f"misfit: message with code {code} was processed"
    # requests to multicast: confirmable ones fail, others go out as NON
    for r, ev in subs.items():
        if ev[4] and ev[6] == "CON":
            if [k for (_, k) in fl.get(r, [])][:1] != ["ConToMulticast"]:
                return f"con-to-multicast: confirmable request to multicast did not fail with ConToMulticast"
    return ""


# -------------------------------------------------------------------------------------------
# C02 oracle: matching and single completion
# -------------------------------------------------------------------------------------------

def oracle_c02(res):
    ins = inputs(res)
    sn = sends(res)
    subs = submits(res)
    rs, fl = responses(res), fails(res)
    toks = request_tokens(res)
    shut = [t for (t, k, f) in ins if k == "X"]
    ended_at = {}
    for r in subs:
        e = [x[0] for x in rs.get(r, []) if x[1]] + [x[0] for x in fl.get(r, [])] + \
            [tt for (tt, k, f) in ins if k == "C" and int(f[0]) == r]
        ended_at[r] = min(e) if e else None
    # every delivered response matches an outstanding request: token and source
    for r, lst in rs.items():
        if r not in toks:
            continue            # never transmitted (held back): its token is not observable
        tok, remote, t0 = toks[r]
        for (t, final, w) in lst:
            src = [f for (tt, k, f) in ins if k == "R" and tt == t]
            if not src:
                return f"response-from-nowhere: request {r} got a response at {t} without a datagram"
            f = src[0]
            if f[5] != tok:
                return f"wrong-token: request {r} (token {tok}) was handed a response with token {f[5]}"
            if int(f[0]) != remote and not subs[r][4]:
                return f"wrong-source: request {r} to {remote} was handed a response from {f[0]}"
            if w["body"] != int(f[7]) or w["code"] != int(f[3]):
                return f"wrong-content: delivered response differs from the datagram"
            if t < t0:
                return f"before-send: response before the request was sent"
        ends = [x for x in lst if x[1]]
        if len(ends) + len(fl.get(r, [])) > 1:
            return f"completed-twice: request {r} got {len(ends)} final responses and {len(fl.get(r, []))} errors"
        if ends and any(x[0] > ends[0][0] for x in lst):
            return f"after-final: request {r} got a response after its final one"
    for r, lst in fl.items():
        if len(lst) > 1:
            return f"failed-twice: request {r}: {lst}"
        for (tf, kind) in lst:
            if kind == "NetworkError" and r in subs:
                errs = [int(f[0]) for (tt, k, f) in ins if k == "E" and tt == tf]
                if errs and subs[r][3] not in errs:
                    return (f"wrong-remote-failed: request {r} to endpoint {subs[r][3]} failed because of a "
                            f"transport error reported for endpoint {errs}")
            if kind == "ConRetransmitsExceeded" and r in subs:
                sent_to = {s_["remote"] for s_ in sn if s_["mtype"] == "CON" and s_["tick"] < tf}
                if subs[r][3] not in sent_to:
                    return (f"wrong-remote-timeout: request {r} to endpoint {subs[r][3]} failed with a retransmission "
                            f"time-out although no CON was in flight to it")
    # a transport error reported from inside the first transmission fails that request at once
    for (t, remote) in res.get("failed_sends", []):
        for r, ev in subs.items():
            if ev[1] == t and ev[3] == remote:
                got = fl.get(r, [])
                if not got or got[0][0] != t:
                    return (f"send-error-swallowed: the first transmission of request {r} failed in sendmsg() at {t} "
                            f"but the request was not failed (events: {got})")
    # unmatched confirmable responses are Reset, never delivered (delivery checked above by token/source)
    for (t, k, f) in ins:
        if k != "R" or not (64 <= int(f[3]) < 192) or (shut and t >= shut[0]):
            continue
        remote, mcl, mt, mid, tok = int(f[0]), f[1] == "1", f[2], int(f[4]), f[5]
        match = [r for r, (tk, rem, t0) in toks.items() if tk == tok and (rem == remote or subs[r][4]) and t0 <= t
                 and (ended_at[r] is None or ended_at[r] >= t)]
        delivered = [x for v in rs.values() for x in v if x[0] == t]
        untransmitted = [r for r in rs if r not in toks and any(x[0] == t for x in rs[r])]
        # (a request that is failed in this very tick -- its own or another exchange's give-up timer -- may or may not
        # still be outstanding when the datagram is dispatched: timer order within a tick is not the property's)
        failed_now = {r for r, lst in fl.items() if any(tf == t for (tf, _) in lst)}
        live = [r for r in match if r not in failed_now]
        if match and live == match and not delivered and mt in ("CON", "NON") and not res["script"].get("oracle_only"):
            # (a separate response: matched by token and source alone, whatever message ID it comes under)
            return (f"matching-dropped: {mt} response token {tok} mid {mid} from {remote} at {t} answers outstanding "
                    f"request {match[0]} and was not handed over")
        if not match and not untransmitted:
            if delivered:
                return f"unmatched-delivered: {mt} response token {tok} from {remote} at {t} was delivered"
            if mt == "CON" and not mcl:
                rst = [o for o in sn if o["tick"] == t and o["remote"] == remote and o["mtype"] == "RST" and o["mid"] == mid]
                attempt_failed = (t, remote) in [tuple(x) for x in res.get("failed_sends", [])]
                if len(rst) != 1 and not attempt_failed:
                    return f"no-reset: unmatched CON response mid {mid} from {remote} not answered with Reset"
    # futures: completed exactly once, errors derive from the library's base class
    for r, st in res["futures"].items():
        r = int(r)
        if st == "pending":
            return f"hangs: request {r} never completed (even after the final shutdown)"
        if st.startswith("exception:") and "Error" not in st.split(":")[1].split(","):
            return f"foreign-exception: request {r} failed with {st}"
        if res["done_calls"].get(r, res["done_calls"].get(str(r))) != 1:
            return f"done-count: request {r} completion callbacks ran {res['done_calls'].get(r)} times"
    # tokens of simultaneously outstanding requests to one endpoint are pairwise different
    rl = sorted(toks)
    for i, a in enumerate(rl):
        for b in rl[i + 1:]:
            ta, tb = toks[a], toks[b]
            if ta[0] == tb[0] and ta[1] == tb[1]:
                ea = ended_at[a]
                if ea is None or ea > tb[2]:
                    return f"token-reuse: requests {a} and {b} to {ta[1]} share token {ta[0]} while both outstanding"
    return ""


# -------------------------------------------------------------------------------------------
# C18 oracle: shutdown
# -------------------------------------------------------------------------------------------

def oracle_c18(res):
    ins = inputs(res)
    shut = [t for (t, k, f) in ins if k == "X"]
    if not shut:
        return ""
    ts = shut[0]
    info = res["shutdown"]
    if info.get("error"):
        return f"shutdown-raised: {info['error']}"
    if info.get("done_tick") is None:
        return "shutdown-hangs: Context.shutdown() did not complete"
    if len(shut) > 1 and info.get("again_done_tick") is None:
        return "shutdown-hangs: a second Context.shutdown() did not complete"
    if info["done_tick"] - ts > 3 * M:
        return f"shutdown-slow: took {info['done_tick'] - ts} ticks (SHUTDOWN_TIMEOUT is 3 s)"
    late = [s for s in sends(res) if s["tick"] > info["done_tick"]]
    if late:
        return f"sent-after-shutdown: {late[0]['raw']} at {late[0]['tick']} (shutdown returned at {info['done_tick']})"
    fl = fails(res)
    subs = submits(res)
    for r, st in res["futures_at_shutdown"].items():
        rr = int(r)
        if st == "pending" and rr in subs and subs[rr][1] < ts:
            return f"pending-after-shutdown: request {r} still pending when shutdown returned"
        if st.startswith("exception:") and "Error" not in st.split(":")[1].split(","):
            return f"foreign-exception: request {r} failed with {st}"
    for r, ev in subs.items():
        if ev[1] > ts:
            got = fl.get(r, [])
            if [k for (_, k) in got] != ["LibraryShutdown"] or got[0][0] != ev[1]:
                return f"late-submit: request {r} submitted after shutdown: {got}"
    for r, st in res["futures"].items():
        if st.startswith("exception:") and "Error" not in st.split(":")[1].split(","):
            return f"foreign-exception: request {r} ended with {st}"
        if st == "pending":
            return f"hangs: request {r} never completed"
    for r, st in res.get("consumers", {}).items():
        rr = int(r)
        if st["end"] == "pending" and rr in subs and subs[rr][1] < ts:
            return (f"observation-pending: the application's `async for` over the observation of request {r} is "
                    f"still waiting after shutdown ({st['items']} notification(s) received)")
        if st["end"].startswith("raised:") and "Error" not in st["end"].split(":")[1].split(","):
            return f"foreign-exception: iterating the observation of request {r} raised {st['end']}"
    if info.get("handlers_alive"):
        return f"handlers-alive: server handlers {info['handlers_alive']} not cancelled by shutdown"
    if info.get("second_context") not in (None, "ok"):
        return f"other-context: {info['second_context']}"
    return ""
