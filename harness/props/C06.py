"""C06 — block-wise server: handlers see only complete bodies, blocks are exact slices.

Correspondence (model ≈ code), all on a virtual clock (harness/c06_util.py):
  R  request scripts through the REAL `Resource.render_to_pipe` (-> `_render_to_pipe` ->
     `_render_blockwise` -> `Block1Spool.feed_and_take` / `Block2Cache.extract_or_insert` /
     `TimeoutDict`) and the real `ObservableResource.render_to_pipe` (resources 2 and 3: one that
     declines, one that accepts observations; the way a request takes there is compared with the
     model's `obsEntry`) behind the real `pipe.error_to_message`; requests are built as a peer would build them, encoded and
     parsed with `Message.decode(data, remote)`; remotes are real `UDP6EndpointAddress`
     objects (real `blockwise_key`).  A scripted handler may SUSPEND when it is invoked and end at a
     later step (`hold` / `fin`), so any number of requests are in flight at once; a script may give its
     requests to a real `Site` at which the resource objects are registered under several paths.
     Lean: `BwServer.carrive` / `cfinish` folded over the script (an arrival that is completed on the
     spot is `BwServer.step`: theorem C06_atomic_is_step).
  T  the real `TimeoutDict` vs Lean `TD` on timed get/set/del/mutate sequences.
  D  the same scripts against bare `Block1Spool` / `Block2Cache` objects (exception classes
     ContinueException / IncompleteException / BadRequest rendered by their own to_message).
  K  the real `_extract_block_key` equality vs Lean `blockKey` over every option number class.
Oracle (independent reading of the property / RFC 7959, shares no code with aiocoap or the
model): bodies the handler saw vs what was sent, each completed body once; 2.31 echo; 4.08 / 4.00
cases (final blocks included); no 5.xx of the machinery's own; Block2 responses are exact slices of
the rendering made for the latest block-0 request -- the one that ARRIVED last, whatever the order in
which handlers end; none while it is still rendered or if its handler raised -- with the right more
flag; state lifetime between MAX_TRANSMIT_WAIT (93 s, RFC 7252) and twice that.
"""
import c06_util as U
from common import compare, load_corpus, HarnessError

RULE = ("R: scripts of 4-40 requests by 1-4 logical clients on 1-3 endpoints (distinct port / local "
        "address / identical), 1-4 resources (two plain, an observable one that declines and one that accepts "
        "observations; clients of the latter put Observe: 0 on most requests), queries and methods; each step "
        "is drawn state-aware: "
        "in-order next block, or a deviation (restart at 0, repeat, skip, last block first, payload "
        "length +-1 of the block size with and without the more flag, final block of size+1 / size+16 / "
        "2*size bytes, block 0 too long / too short / two blocks long with the more flag or too long without, "
        "followed by continuations, blocks n+1 / repeated final block after the transfer was completed, size "
        "change, beyond-end / later Block2 block without rendering; Block2 options with block number 0 and "
        ">= 1 on first, middle and final Block1 blocks); about 7 % of the handler behaviours raise "
        "(NotFound, MethodNotAllowed, BadRequest, Forbidden, ServiceUnavailable, RuntimeError, ValueError, "
        "KeyError) or return something that is not a message (None, a str, an int) instead of returning a message, "
        "with idle times 0..3T biased to T-1,T,T+1,2T-1,2T,2T+1 (T = MAX_TRANSMIT_WAIT); body and "
        "rendering lengths are biased to k*size-1,k*size,k*size+1 and maximum_payload_size-1..+1. "
        "Boundary tables enumerate every szx 0..7 x those lengths (final blocks of size-1, size, size+1, "
        "2*size and 0 bytes; blocks n+1, n+2 and the repeated final block after completion; block 0 of 0, 1, "
        "size-1, size, size+1, 2*size-1, 2*size, 3*size+1 bytes with and without the more flag, alone and over "
        "a stored assembly, each followed by blocks 1, 2 and the block at the suggested offset), first x final "
        "Block2 option of an upload (absent, 0, 1, 2/3, other size) with and without an older kept rendering, "
        "every idle "
        "time x timer phase, and every exception class raised / every kind of non-message returned on a block-0 request (Block2 0, no Block2, "
        "final Block1 block, resource without assembly) while an older rendering is kept, followed by "
        "later blocks; the block-0, Block2 and stale-rendering tables also on the observable resources. "
        "Round 4: ~30 % of the scripts let handlers suspend (a request for the beginning is held and ends "
        "after 0-6 further requests, or never), ~30 % go through a Site at which resource objects are "
        "registered under 2-3 paths (alias, nested site), 1 in 16 is a busy-server scenario (1-2 transfers "
        "abandoned after two accesses; every T/3..T-1 one to three other transfers on the resource complete or "
        "are superseded; continuation T-2..3T after the last use); tables: two/three requests for the beginning "
        "under one key in flight x outcome kinds x every order of completion with a later block asked after "
        "every event, a second key in flight, observable resources, long handlers; busy server x {spool, cache} "
        "x abandoned 1-2 x traffic 1-3 x spacing x 2T+2 / 3T; every pair of paths of a resource object; empty "
        "BERT blocks with the more flag. "
        "A script is non-trivial when a handler saw a multi-block body or a later Block2 block was "
        "served, and at least one request was refused. T: timed op sequences on 1-4 keys with "
        "T in {1,2,7,10} ticks, one in ten a ghost-key sequence (keys set and read once, then every 1..T-1 ticks "
        "1-4 other keys set and deleted again, the first keys read T-1..4T after their last access). K: pairs of requests differing in one component of the block key.")
TRUSTED = ["harness/c06_util.py: socket-less virtual-clock asyncio loop (timers run at exactly their deadline)",
           "the model is given the request as parsed by aiocoap's own Message.decode (options, payload); for a script "
           "that goes through a Site: the options of the message the resource is handed by the Site, and as "
           "original path the Uri-Path of the wire request"]
ASSUMPTIONS = ["needs_blockwise_assembly and add_observation do not suspend (requests reach the spool in their order of "
               "arrival); a handler suspends at most once, before it produces its outcome; cancelled renderings are "
               "not generated",
               "a handler that returns a message returns a response (no request code); an exception is answered as "
               "pipe.error_to_message renders it (its code is compared, the rendering itself is C09's subject); "
               "a handler that returns something that is not a message (None, a str, an int) is inside the "
               "quantifier since audit F: answered 5.00, no rendering",
               "diagnostic payload text of error responses is not compared",
               "BERT (size exponent 7) is only exercised with maximum_payload_size >= 1024; the length of a final "
               "BERT block is not constrained; size exponent 7 is served to UDP peers as well (position of the "
               "earlier rounds: the property names no transport-specific limit)",
               "observable resources: only the way a request takes (observation branch or not) and the first "
               "response are judged; the Observe option an accepted observation puts on that response and the "
               "notifications are C08's subject"]

T_RFC = 93 * 1024          # MAX_TRANSMIT_WAIT of RFC 7252 in ticks, for the oracle only

GET, POST, PUT, FETCH, IPATCH = 1, 2, 3, 5, 7
H_CODES = [69, 69, 69, 68, 65, 132, 163]
# exceptions a scripted handler raises -> the code they are answered with (RFC 7252 12.1.2 for the
# error classes named after response codes; anything that is not a CoAP error is 5.00)
EXC_CODES = {"NotFound": 132, "MethodNotAllowed": 133, "BadRequest": 128, "Forbidden": 131,
             "ServiceUnavailable": 163, "RuntimeError": 160, "ValueError": 160, "KeyError": 160}
# ... and what a scripted handler returns INSTEAD of a message (`render` of a resource written against
# interfaces.Resource directly -- resource.Resource.render would look at `.code` itself): no rendering
# exists for such a request either, and it is answered 5.00
NON_MESSAGES = {"ret:None": None, "ret:str": "no message", "ret:int": 205}
EXC_CODES.update({k: 160 for k in NON_MESSAGES})
EXC_NAMES = sorted(EXC_CODES)


def h_raise(name):
    return [EXC_CODES[name], [], "-", name]


def h_exc(h):
    return h[3] if len(h) > 3 and h[3] else None
H_OPTS = [[], [], [[12, "2a"]], [[4, "6162"]], [[12, "-"], [14, "3c"]]]


# ----------------------------------------------------------------------------- payload specs

_PAT = {}


def mk_bytes(spec):
    if isinstance(spec, list):
        _, n, a, b = spec
        r = _PAT.get((n, a, b))
        if r is None:
            r = _PAT[(n, a, b)] = bytes((a + b * i) % 256 for i in range(n))
        return r
    return b"" if spec == "-" else bytes.fromhex(spec)


def spec_str(spec):
    if isinstance(spec, list):
        return f"r{spec[1]}.{spec[2]}.{spec[3]}"
    return spec


def pat(n, a, b=1):
    return ["r", n, a % 256, b % 256]


def slice_spec(spec, start, stop):
    """payload spec of body[start:stop] for a pattern body"""
    _, n, a, b = spec
    stop = min(stop, n)
    start = min(start, stop)
    return ["r", stop - start, (a + b * start) % 256, b]


def hexopts(opts):
    return [(n, b"" if v == "-" else bytes.fromhex(v)) for n, v in opts]


# ----------------------------------------------------------------------------- running a script

def opath_str(opts):
    """the Uri-Path the request is sent with, as the `opath` field of a model line"""
    comps = [v for n, v in opts if n == 11]
    return "p" + ".".join(U.hexs(c) for c in comps)


def run_script(aiocoap, script, direct=False):
    """Run one R script on the implementation.  Returns (model line, impl output, observations).
    direct=True: against bare Block1Spool/Block2Cache objects instead of a Resource.
    A step is a request (optionally `hold`: its handler suspends when it is invoked) or
    `{"fin": j, "dt": ..}`: the handler invoked for step j goes on and ends.  `script["site"]`: the
    requests are given to a `Site` at which the resources are registered (U.SITE_PATHS)."""
    w = U.World(aiocoap)
    site = bool(script.get("site")) and not direct
    try:
        if direct:
            w.make_direct(4)
        ts = set()
        for r in w.resources:
            ts.add(r._block1._assemblies.timeout)
            ts.add(r._block2._completes.timeout)
        if direct:
            for sp, ca in w.direct:
                ts.add(sp._assemblies.timeout)
                ts.add(ca._completes.timeout)
        if len(ts) != 1:
            raise HarnessError(f"spool/cache timeouts differ: {ts}")
        T = U.ticks_of(ts.pop())
        keyids = {}
        toks, outs, obs = [], [], []
        held = {}
        res_of = {}

        def answer(h, hopts, resp, exc, is_open):
            if not isinstance(resp, aiocoap.Message):
                # what the handler returned went on the pipe as it is (seen with mutants that by-pass
                # the rendering cache): no response at all, as far as the property goes
                return "X|-|-|_|-", {"code": 0, "b1": None, "b2": None, "opts": [], "payload": b"", "exc": None,
                                     "open": is_open, "observing": False, "nonmessage": type(resp).__name__}
            rp = bytes(resp.payload)
            ropts = U.opts_of(resp)
            observing = False
            if h.entry == "o" and is_open and not any(n == 6 for n, _ in hexopts(hopts)):
                # the first response of an accepted observation: the Observe option put on it is
                # the observation's business (C08), everything else is judged as usual
                observing = (6, b"") in ropts
                ropts = [x for x in ropts if x != (6, b"")]
            tok = (f"{int(resp.code)}|{U.blk_str(resp.opt.block1)}|{U.blk_str(resp.opt.block2)}|"
                   f"{U.opts_str(ropts)}|{'-' if exc else U.hexs(rp)}")
            o = {"code": int(resp.code),
                 "b1": None if resp.opt.block1 is None else tuple(int(x) for x in resp.opt.block1),
                 "b2": None if resp.opt.block2 is None else tuple(int(x) for x in resp.opt.block2),
                 "opts": ropts, "payload": rp, "exc": exc, "open": is_open, "observing": observing}
            return tok, o

        async def whole():
            for i, st in enumerate(script["steps"]):
                await w.loop.aadvance(st["dt"])
                if "fin" in st:
                    j = st["fin"]
                    toks.append(f"F,{res_of.get(j, 0)},{st['dt']},{j}")
                    ent = held.pop(j, None)
                    if ent is None:
                        outs.append("n")
                        obs.append({"fin": j, "none": True})
                        continue
                    h, hopts = ent
                    resp, exc, is_open = await w.finish(h, release=True)
                    tok, o = answer(h, hopts, resp, exc, is_open)
                    outs.append(tok + "|-|-")
                    obs.append(dict(o, fin=j, seen=[], entry=h.entry, obs_payload=None))
                    continue
                ep = script["eps"][st["ep"]]
                epd = (tuple(ep[0]), None if ep[1] is None else bytes.fromhex(ep[1]), ep[2], ep[3])
                payload = mk_bytes(st["payload"])
                msg = w.incoming(epd, st["code"], hexopts(st["opts"]), st["b1"], st["b2"], payload, i + 1)
                rid = keyids.setdefault(msg.remote.blockwise_key, len(keyids))
                hcode, hopts, hspec = st["h"][:3]
                hexc = h_exc(st["h"])
                if hexc and (hexc not in EXC_CODES or EXC_CODES[hexc] != hcode):
                    raise HarnessError(f"script raises {hexc!r} with code {hcode}")
                if hexc in NON_MESSAGES and not st["asm"]:
                    raise HarnessError("script: a non-message returned by a resource that does its own block "
                                       "handling is outside the model")
                hpayload = mk_bytes(hspec)
                ppay = bytes(msg.payload)
                pspec = spec_str(st["payload"]) if ppay == payload else U.hexs(ppay)
                hold = bool(st.get("hold"))
                sr = (hcode, hexopts(hopts), hpayload, hexc)
                if direct:
                    h, pending = await w.arrive_direct(st["res"], bool(st["asm"]), msg, sr, hold)
                    res, seen_by = st["res"], msg
                else:
                    h, pending = await w.arrive(st["res"], bool(st["asm"]), msg, sr, hold, site=site)
                    if h.res_index is None:
                        raise HarnessError(f"step {i}: the request did not reach a resource")
                    res, seen_by = h.res_index, h.entered
                    if not site and res != st["res"]:
                        raise HarnessError("request entered another resource")
                res_of[i] = res
                observable = (not direct) and w.observable[res]
                toks.append(",".join([
                    str(res), str(st["dt"]), str(st["asm"]), str(rid),
                    str(msg.remote.maximum_payload_size), str(msg.remote.maximum_block_size_exp),
                    str(int(msg.code)), U.blk_raw(msg, 27), U.blk_raw(msg, 23),
                    U.opts_str(U.opts_of(seen_by)), pspec,
                    "?" if hexc in NON_MESSAGES else ("!" if hexc else "") + str(hcode), U.opts_str(hexopts(hopts)), spec_str(hspec),
                    "1" if observable else "0",
                    opath_str(hexopts(st["opts"])) if site else "-",
                    "1" if hold else "0"]))
                seen = h.seen
                if len(seen) == 0:
                    s = "-"
                else:
                    c, b1, b2, so, sp = seen[0]
                    s = ("H" if len(seen) == 1 else f"H{len(seen)}") + \
                        f"~{c}~{U.blk_str(b1)}~{U.blk_str(b2)}~{U.opts_str(so)}~{U.hexs(sp)}"
                common = {"seen": [(c, sp, so) for (c, _b1, _b2, so, sp) in seen], "entry": h.entry,
                          # what an observable resource was handed for its observation (and would be
                          # handed again for every later notification): the payload of that request
                          "obs_payload": bytes(h.obs_call[3]) if h.entry == "o" and h.obs_call else None}
                if pending:
                    held[i] = (h, hopts)
                    outs.append(f"~|-|-|_|-|{s}|{h.entry}")
                    obs.append(dict(common, pending=True))
                    continue
                resp, exc, is_open = await w.finish(h)
                tok, o = answer(h, hopts, resp, exc, is_open)
                outs.append(f"{tok}|{s}|{h.entry}")
                obs.append(dict(o, **common))

        w.loop.run_until_complete(whole())
        return f"C06 R {T} " + " ".join(toks), " ".join(outs), obs
    finally:
        w.close()


# ----------------------------------------------------------------------------- the oracle

def cache_key_opts(opts):
    """RFC 7252 5.4.2/5.4.6: NoCacheKey options ((n & 0x1e) == 0x1c) are not part of the cache
    key; Block1/Block2 (RFC 7959) and Observe are per-exchange and not part of the transfer key."""
    return tuple((n, v) for n, v in opts if (n & 0x1E) != 0x1C and n not in (6, 23, 27))


def block_size(szx):
    return 1024 if szx == 7 else 1 << (szx + 4)


def check_block2(gb2, R, o, mps, mps_fit=None):
    """Is the observed successful response `o` a correct answer to Block2 option `gb2`
    (None: no option in the request) for rendering R = (code, opts, body)?  '' if so."""
    rcode, ropts, body = R
    if o["exc"]:
        return f"error response {o['code']} ({o['exc']}) where a rendering was expected"
    if o["code"] != rcode:
        return f"response code {o['code']} is not the handler's {rcode}"
    if [x for x in o["opts"]] != [x for x in ropts]:
        return f"response options {o['opts']} are not the handler's {ropts}"
    rb2 = o["b2"]
    if rb2 is None:
        if gb2 is not None and gb2[0] != 0:
            return "complete body sent in answer to a later block"
        if o["payload"] != body:
            return "response without Block2 is not the complete rendering"
        if gb2 is not None and len(body) > block_size(gb2[2]) and gb2[2] != 7:
            return "body longer than the requested block size sent without Block2"
        return ""
    num, more, szx = rb2
    if gb2 is not None and (num != gb2[0] or szx != gb2[2]):
        return f"Block2 {rb2} in the response does not answer requested {gb2}"
    if gb2 is None and num != 0:
        return f"Block2 {rb2} in answer to a request without Block2"
    if gb2 is None and len(body) <= (mps if mps_fit is None else mps_fit):
        # the answered request states no block size wish (one sent with an earlier Block1 block does
        # not count) and nothing forces the server to cut
        return (f"response cut into blocks ({rb2}) although the request carries no Block2 option and the "
                f"rendering of {len(body)} bytes fits the maximum payload size")
    start = num * block_size(szx)
    if start >= len(body) and not (len(body) == 0 and num == 0):
        return f"block {num} starts at {start}, beyond the body of {len(body)} bytes, but was served"
    plen = len(o["payload"])
    if szx == 7:
        if more and (plen == 0 or plen % 1024 != 0 or plen > max(mps, 1024)):
            return f"BERT block of {plen} bytes with more flag"
    else:
        want = min(block_size(szx), len(body) - start)
        if plen != want:
            return f"block {num}/{szx} has {plen} bytes, expected {want}"
    if o["payload"] != body[start:start + plen]:
        return f"block {num}/{szx} is not the slice [{start},{start + plen}) of the rendering"
    if bool(more) != (start + plen < len(body)):
        return f"more flag {more} but {len(body) - start - plen} bytes remain"
    return ""


class Reference:
    """Independent RFC 7959 server reference that judges one observation at a time and follows
    the implementation where the property leaves a choice (lifetime between T and 2T).

    Requests may overlap: `step` judges a request when it arrives (everything up to the handler),
    `finish` when its handler has ended (the response); for a request whose handler does not suspend
    the two happen at once.  "The latest block-0 request" is the one that ARRIVED last."""

    def __init__(self, eps, site=False):
        self.eps = eps
        self.site = site
        self.asm = {}     # key -> dict(blocks, length, last, certain)
        self.rend = {}    # key -> dict(R, last, kept)
        self.building = {}   # key -> step index of the latest block-0 request while it has no rendering yet
        self.pending = {}    # step index -> what is needed to judge the response when it comes

    @staticmethod
    def alive(now, last):
        idle = now - last
        return "yes" if idle < T_RFC else ("no" if idle >= 2 * T_RFC else "maybe")

    def step(self, now, idx, st, o):
        ep = self.eps[st["ep"]]
        ident = (tuple(ep[0]), ep[1])
        mps = ep[2]
        # a script may describe one endpoint twice with different maximum payload sizes (the blocks of
        # one body then arrive with different values): "fits" is judged against the smallest of them
        mps_fit = min(e[2] for e in self.eps if (tuple(e[0]), e[1]) == ident)
        opts = hexopts(st["opts"])
        # one endpoint, one method, one set of cache-key options -- Uri-Path is one of them.  Resources
        # that are addressed directly (no Site) are told apart by their index.
        key = ("site" if self.site else st["res"], ident, st["code"], cache_key_opts(opts))
        payload = mk_bytes(st["payload"])
        hcode, hopts, hspec = st["h"][:3]
        hexc = h_exc(st["h"])
        R = (hcode, hexopts(hopts), mk_bytes(hspec))
        seen = o["seen"]
        pending = bool(o.get("pending"))
        if not pending and o.get("nonmessage"):
            return f"a {o['nonmessage']} object, not a message, was put on the pipe as the response"
        if not pending and o["code"] >= 160 and o["exc"] and not (seen and hexc):
            # an error the machinery produced (a 5.xx message the handler returned is judged below
            # as its rendering; an exception the handler raised as its outcome)
            return f"5.xx response {o['code']} ({o['exc']})"
        if len(seen) > 1:
            return f"handler invoked {len(seen)} times for one request"
        if pending and not seen:
            raise HarnessError("request pending without a handler invocation")
        if not st["asm"]:
            if len(seen) != 1 or seen[0][1] != payload:
                return "resource without block-wise assembly did not get the request as it came"
            self.pending[idx] = {"kind": "plain", "hexc": hexc}
            return "" if pending else self.finish(now, idx, o)
        b1 = st["b1"]
        if b1 is None:
            body = payload
        else:
            num, more, szx = b1
            size = block_size(szx)
            a = self.asm.get(key)
            al = self.alive(now, a["last"]) if a else "no"
            if a and not a["certain"] and al == "yes":
                al = "maybe"
            if more:       # RFC 7959 2.2: with M set the payload is exactly 2**(SZX+4) bytes (BERT, RFC 8323 6:
                           # one or more whole 1024 byte blocks -- not none)
                size_bad = not (len(payload) == size or (szx == 7 and len(payload) % 1024 == 0 and len(payload) > 0))
            else:          # the last block may be shorter, not longer (BERT: no bound)
                size_bad = szx != 7 and len(payload) > size
            exp = set()
            if num == 0:
                # the first block of a body is a block like the others: its length must fit its size
                exp.add(400 if size_bad else "accept")
            else:
                if al in ("no", "maybe"):
                    exp.add(408)
                if al in ("yes", "maybe"):
                    off_ok = num * size == a["length"]
                    if size_bad:
                        exp.add(400)
                        if not off_ok:
                            exp.add(408)
                    elif not off_ok:
                        exp.add(408)
                    else:
                        exp.add("accept")
            if pending:
                got = "accept"
            elif o["code"] == 136 and o["exc"]:
                got = 408
            elif o["code"] == 128 and o["exc"] and not seen:
                got = 400
            else:
                got = "accept"
            # a Block2 failure of an accepted final block also shows as 4.08/4.00: told apart below
            if got != "accept" and "accept" in exp and not more and got not in exp:
                got = "accept"
            if got not in exp:
                return (f"Block1 {tuple(b1)} with {len(payload)} bytes: expected one of {sorted(map(str, exp))}, "
                        f"got {'a handler invocation' if pending else o['code']} "
                        f"(assembly: {al}, {a['length'] if a else None} bytes)")
            if got in (408, 400):
                if seen:
                    return f"handler invoked although the block was refused with {o['code']}"
                if num == 0:
                    pass      # a refused block 0 starts nothing and uses nothing that is stored
                elif a is not None:
                    if got == 400:
                        a["last"], a["certain"] = now, True     # only an existing assembly checks sizes
                    elif al == "yes":
                        a["last"] = now                           # refused for its offset: a use
                    elif al == "maybe":
                        if num * size == a["length"] and not size_bad:
                            del self.asm[key]                     # it would have fitted: it is gone
                        else:
                            a["last"], a["certain"] = now, False  # gone, or refused and used
                    else:
                        del self.asm[key]
                return ""
            if num == 0:
                a = {"blocks": [payload], "length": len(payload), "last": now, "certain": True}
                self.asm[key] = a
            else:
                a["blocks"].append(payload)
                a["length"] += len(payload)
                a["last"] = now
                a["certain"] = True
            if more:
                if seen:
                    return "handler invoked on an intermediate block"
                if o["code"] != 95:
                    return f"intermediate block answered {o['code']}, not 2.31"
                if o["b1"] != (num, 1 if more else 0, szx):
                    return f"2.31 carries Block1 {o['b1']}, not the request's {tuple(b1)}"
                if o["payload"] and not o["exc"]:
                    return "2.31 with payload"
                return ""
            body = b"".join(a["blocks"])
            # the transfer is complete: it ends here, a later block belongs to no transfer
            del self.asm[key]
        # ---- the (assembled) request reaches the handler / the rendering cache.  The request that is
        # answered is this one (for an upload: its final block): its Block2 option, or its absence,
        # says which part of the response is asked for -- never an option sent with an earlier block
        # (RFC 7959 2.3: the Block2 option of the request that gets the response; aiocoap's own client
        # repeats a block size wish on every Block1 block).
        gb2 = st["b2"]
        if gb2 is None or gb2[0] == 0:
            if len(seen) != 1:
                return "complete request did not reach the handler"
            if seen[0][1] != body:
                return (f"handler saw a body of {len(seen[0][1])} bytes that is not the in-order "
                        f"concatenation ({len(body)} bytes) of the blocks received under this key")
            if seen[0][0] != st["code"]:
                return "handler saw another request code"
            # from its arrival on this is the latest block-0 request of the endpoint: later blocks are
            # served from its rendering and from no other -- which does not exist before the handler ends
            self.building[key] = idx
            self.pending[idx] = {"kind": "fresh", "key": key, "gb2": gb2, "R": R, "hexc": hexc,
                                 "b1": st["b1"], "mps": mps, "mps_fit": mps_fit}
            return "" if pending else self.finish(now, idx, o)
        if seen:
            return "handler invoked for a later Block2 block"
        if key in self.building:
            if not (o["code"] == 136 and o["exc"]):
                return (f"later Block2 block {tuple(gb2)} answered {o['code']} while the latest block-0 request of "
                        f"this endpoint has no rendering yet (its handler is still running)")
            return ""
        return self.later(now, key, gb2, o, mps)

    def finish(self, now, idx, o):
        """the handler invoked for step `idx` has ended; `o` is the response"""
        ctx = self.pending.pop(idx, None)
        if ctx is None:
            return ""
        hexc = ctx["hexc"]
        if o.get("nonmessage"):
            return f"a {o['nonmessage']} object, not a message, was put on the pipe as the response"
        if o["code"] >= 160 and o["exc"] and not hexc:
            return f"5.xx response {o['code']} ({o['exc']})"
        if ctx["kind"] == "plain":
            if hexc and not (o["exc"] and o["code"] == EXC_CODES[hexc]):
                return f"handler raised {hexc}, answered {o['code']}"
            return ""
        key = ctx["key"]
        latest = self.building.get(key) == idx
        if hexc:
            # this block-0 request has no rendering
            if not (o["exc"] and o["code"] == EXC_CODES[hexc]):
                return f"handler raised {hexc}, answered {o['code']}"       # `ret:…`: returned a non-message
            if o["b2"] is not None:
                return f"error response to a raising handler carries Block2 {o['b2']}"
            if latest:
                del self.building[key]
                self.rend.pop(key, None)      # nothing may be served for later blocks
            return ""
        # whatever happened in the meantime, a block-0 request is answered from its own rendering
        v = check_block2(ctx["gb2"], ctx["R"], o, ctx["mps"], ctx["mps_fit"])
        if v:
            return v
        b1 = ctx["b1"]
        if b1 is not None and o["b1"] != (b1[0], 1 if b1[1] else 0, b1[2]):
            return f"final response carries Block1 {o['b1']}, not the request's {tuple(b1)}"
        if latest:
            del self.building[key]
            self.rend[key] = {"R": ctx["R"], "last": now, "kept": o["b2"] is not None}
        # else: a newer block-0 request has arrived since; its rendering is the one later blocks come from
        return ""

    def later(self, now, key, gb2, o, mps):
        r = self.rend.get(key)
        al = "no"
        if r:
            al = self.alive(now, r["last"])
            if al == "yes" and not r["kept"]:
                al = "maybe"
        if o["code"] == 136 and o["exc"]:
            if al == "yes":
                return "later block of a rendering used less than MAX_TRANSMIT_WAIT ago answered 4.08"
            if r:
                del self.rend[key]
            return ""
        if al == "no":
            return (f"later Block2 block {tuple(gb2)} answered {o['code']} although no rendering of the "
                    f"latest block-0 request can be kept (never made, or unused for 2 x MAX_TRANSMIT_WAIT)")
        body_r = r["R"][2]
        start = gb2[0] * block_size(gb2[2])
        if start >= len(body_r):
            if not (o["code"] == 128 and o["exc"]):
                return f"block {tuple(gb2)} beyond the end of the rendering answered {o['code']}, not 4.00"
            r["last"] = now
            r["kept"] = True
            return ""
        v = check_block2(gb2, r["R"], o, mps)
        if v:
            return v
        r["last"] = now
        r["kept"] = True
        return ""


def oracle_script(script, obs):
    ref = Reference(script["eps"], site=bool(script.get("site")) and script.get("kind") != "D")
    now = 0
    for i, (st, o) in enumerate(zip(script["steps"], obs)):
        now += st["dt"]
        if "fin" in st:
            v = "" if o.get("none") else ref.finish(now, st["fin"], o)
            if v:
                return f"step {i}: {v}", i
            continue
        v = ref.step(now, i, st, o)
        if not v and o.get("obs_payload") is not None and o["seen"]:
            # an observation was set up on this request: every later notification is rendered from the request
            # the resource was handed for it, so that must be the request the handler saw -- the whole body
            if o["obs_payload"] != o["seen"][0][1]:
                v = (f"R:observation set up on a request with a body of {len(o['obs_payload'])} bytes although "
                     f"the handler was invoked with the reassembled body of {len(o['seen'][0][1])} bytes")
        if v:
            return f"step {i}: {v}", i
    return "", None


# ----------------------------------------------------------------------------- generators

ADDRS = [("2001:db8::1", 40001, 0, 0), ("2001:db8::1", 40002, 0, 0), ("2001:db8::2", 40001, 0, 0)]
PKT = [None, "20010db8000000000000000000000099" + "02000000", "20010db80000000000000000000000aa" + "02000000"]


def gen_eps(rng):
    n = rng.choice([1, 2, 2, 3, 3])
    eps = []
    for i in range(n):
        k = rng.randrange(5)
        addr = ADDRS[i] if k < 3 else ADDRS[0]
        pkt = PKT[0] if k < 3 else PKT[i % 3]          # same peer address, other local address
        if k == 4 and i > 0:
            addr, pkt = eps[0][0], eps[0][1]           # the very same endpoint
        mps = rng.choice([1124] * 6 + [1024, 64, 48, 2048, 3000])
        mszx = rng.choice([6] * 6 + [0, 2, 5, 7])
        if mps < 1024 and mszx == 7:
            mszx = 6              # BERT needs room for one 1024-byte unit
        eps.append([list(addr), pkt, mps, mszx])
    return eps


def len_around(rng, size, mps, multi=False):
    c = rng.randrange(12)
    k = rng.choice([2, 2, 3, 3, 4, 5] if multi else [1, 1, 2, 2, 3, 4])
    if c < 6:
        return max(0, k * size + rng.choice([-1, 0, 1]))
    if c < 7:
        return max(0, mps + rng.choice([-1, 0, 1]))
    if c < 8:
        return rng.choice([0, 1])
    return rng.randrange(0, 4 * size + 2)


def idle(rng, T):
    c = rng.randrange(40)
    if c < 33:
        return rng.choice([0, 0, 1, 2, 5, 1024])
    if c < 38:
        return rng.choice([T - 1, T, T + 1, 2 * T - 1, 2 * T, 2 * T + 1])
    return rng.choice([T // 2, T + T // 2, 3 * T, T // 3])


class Client:
    """One logical client: an endpoint talking to one resource with one method and option set."""

    def __init__(self, rng, eps, big):
        self.ep = rng.randrange(len(eps))
        self.res = rng.choice([0, 0, 0, 1, 2, 3])       # 2, 3: observable resources (declining / accepting)
        self.code = rng.choice([GET, GET, POST, PUT, PUT, FETCH, IPATCH])
        if self.res >= 2 and rng.random() < 0.5:
            self.code = rng.choice([GET, FETCH, FETCH])
        # how often this client puts Observe: 0 on its requests (observable resources: mostly)
        self.p_observe = rng.choice([0.5, 0.9, 1.0]) if self.res >= 2 else 0.1
        path = rng.choice(["61", "61", "62"])
        self.opts = [[11, path]]
        if rng.random() < 0.4:
            self.opts.append([15, rng.choice(["713d31", "713d32"])])
        if rng.random() < 0.15:
            self.opts.append([17, "2a"])
        self.szx = rng.choice([0, 0, 0, 1, 2] + ([4, 5, 6, 6, 7] if big else []))
        self.dszx = rng.choice([0, 0, 1, 2] + ([5, 6, 7] if big else []))
        self.mps = eps[self.ep][2]
        if self.mps < 1024 and self.dszx == 7:
            self.dszx = 6
        self.up = None        # [body spec, offset sent]
        self.down_next = 1
        self.down_len = None
        self.seed = rng.randrange(256)


def step_of(c, dt, b1, b2, payload, h, opts=None, asm=1):
    return {"res": c.res, "dt": dt, "asm": asm, "ep": c.ep, "code": c.code,
            "opts": [list(o) for o in (opts if opts is not None else c.opts)],
            "b1": None if b1 is None else list(b1), "b2": None if b2 is None else list(b2),
            "payload": payload, "h": h}


def gen_script(rng, T, big=False):
    eps = gen_eps(rng)
    clients = [Client(rng, eps, big) for _ in range(rng.choice([1, 2, 2, 3, 4]))]
    site = rng.random() < 0.3
    if site:
        # the requests go through a Site: the path says which resource; some resources have several paths
        for c in clients:
            c.res, path = rng.choice(U.SITE_PATHS)
            c.opts = path_opts(path, [o for o in c.opts if o[0] != 11])
            c.p_observe = rng.choice([0.5, 0.9, 1.0]) if c.res >= 2 else 0.1
        if len(clients) > 1 and rng.random() < 0.5:
            # the same endpoint, method and options at another path of the same resource object
            c0, c1 = clients[0], clients[1]
            others = [p for r, p in U.SITE_PATHS if r == c0.res]
            c1.ep, c1.res, c1.code, c1.mps = c0.ep, c0.res, c0.code, c0.mps
            c1.opts = path_opts(rng.choice(others), [o for o in c0.opts if o[0] != 11])
            c1.szx = c0.szx if rng.random() < 0.7 else c1.szx
            if c1.mps < 1024 and c1.dszx == 7:
                c1.dszx = 6
    if len(clients) > 1 and rng.random() < 0.3:
        # two logical clients colliding on one block key
        clients[1].ep, clients[1].res, clients[1].code, clients[1].opts = (
            clients[0].ep, clients[0].res, clients[0].code, [list(o) for o in clients[0].opts])
        clients[1].mps = clients[0].mps
        if clients[1].mps < 1024 and clients[1].dszx == 7:
            clients[1].dszx = 6
    steps, kinds = [], []
    for _ in range(rng.randrange(4, 41 if not big else 16)):
        c = rng.choice(clients)
        dt = idle(rng, T)
        size = U_size(c.szx)
        dsize = U_size(c.dszx)
        hlen = len_around(rng, dsize, c.mps)
        h = [rng.choice(H_CODES), rng.choice(H_OPTS), pat(hlen, rng.randrange(256), rng.choice([1, 3, 7]))]
        if rng.random() < 0.07:
            h = h_raise(rng.choice(EXC_NAMES))
        opts = [list(o) for o in c.opts]
        if rng.random() < 0.2:
            opts.append([60, "%02x" % rng.randrange(1, 255)])     # Size1: NoCacheKey
            opts.sort(key=lambda o: o[0])
        if rng.random() < c.p_observe:
            # Observe: ignored in the key; value 0 asks an observable resource for an observation
            opts.append([6, "-" if rng.random() < 0.9 else "01"])
            opts.sort(key=lambda o: o[0])
        r = rng.random()
        uploading = c.up is not None
        if c.code == GET or (not uploading and r < 0.35) or (uploading and r < 0.08):
            # ---- download side
            k = rng.randrange(20)
            if k < 5:
                kind, b2 = "d_plain", None
                c.down_next, c.down_len = 1, hlen
            elif k < 9:
                kind, b2 = "d_b0", (0, 0, c.dszx)
                c.down_next, c.down_len = 1, hlen
            elif k < 14:
                kind, b2 = "d_next", (c.down_next, 0, c.dszx)
                c.down_next += 1
            elif k < 15:
                kind, b2 = "d_repeat", (max(1, c.down_next - 1), 0, c.dszx)
            elif k < 16:
                kind, b2 = "d_skip", (c.down_next + 1, 0, c.dszx)
            elif k < 18:
                n = ((c.down_len or 0) + dsize - 1) // dsize
                kind, b2 = "d_beyond", (max(1, n + rng.choice([-1, 0, 1])), 0, c.dszx)
            else:
                nz = rng.choice([0, 1, 2, 6] if not big else [0, 3, 6, 7 if c.mps >= 1024 else 5])
                kind, b2 = "d_resize", (max(1, c.down_next * dsize // U_size(nz)), 0, nz)
            pl = "-" if c.code == GET or rng.random() < 0.7 else pat(rng.randrange(1, 9), c.seed)
            steps.append(step_of(c, dt, None, b2, pl, h, opts,
                                 asm=0 if rng.random() < 0.03 and h_exc(h) not in NON_MESSAGES else 1))
            kinds.append(kind)
            continue
        # ---- upload side
        k = rng.randrange(20)
        if not uploading or k < 2:
            L = len_around(rng, size, c.mps, multi=True)
            c.up = [pat(L, rng.randrange(256), rng.choice([1, 5, 11])), 0]
            kind = "u_start" if rng.random() < 0.85 else "u_wrong_size0"
        elif k < 13:
            kind = "u_next" if c.up[1] < max(c.up[0][1], 1) else "u_after_done"
        elif k < 14:
            kind = "u_skip"
        elif k < 15:
            kind = "u_repeat"        # after the final block: the final block once more
        elif k < 16:
            kind = "u_last_first"
        elif k < 18:
            kind = "u_wrong_size"
        else:
            kind = "u_resize"
        spec, off = c.up
        L = spec[1]
        szx = c.szx
        if kind in ("u_start", "u_wrong_size0"):
            off = 0
        elif kind == "u_skip":
            off += size
        elif kind == "u_repeat":
            off = max(0, off - size)
        elif kind == "u_last_first":
            off = (max(L, 1) - 1) // size * size
        elif kind == "u_resize":
            szx = rng.choice([0, 1, 2] if not big else [0, 4, 6])
            size = U_size(szx)
            if rng.random() < 0.3:
                off += 16
        num = off // size
        more = off + size < L
        pl = slice_spec(spec, off, off + size)
        if kind == "u_after_done":
            # block n+1 (sometimes n+2) of a transfer whose final block was already sent
            num += rng.choice([0, 0, 1])
            pl = pat(rng.choice([0, 1, size, size]), 7)
            more = rng.random() < 0.3 and pl[1] == size
        if kind == "u_wrong_size" and szx == 7 and rng.random() < 0.5:
            pl, more = "-", True                                    # an empty BERT block with the more flag
        elif kind == "u_wrong_size":
            w = rng.randrange(4)
            if w == 0:
                pl = slice_spec(spec, off, off + size + 1) if off + size + 1 <= L else pat(size + 1, 9)
                more = True
            elif w == 1:
                pl = slice_spec(spec, off, off + size - 1)
                more = True
            elif w == 2:
                more = True                                         # more flag on the (short) last block
            else:
                pl = pat(size + rng.choice([1, 1, 16, size]), 3)    # oversize final block
                more = False
        believed = off + size
        if kind == "u_wrong_size0":
            # block 0 whose length contradicts its size, with and without the more flag; the client
            # then goes on as if it had been taken (continuations follow)
            w = rng.randrange(6)
            if w == 0:
                pl, more = pat(size + rng.choice([1, 16, size]), 9), True       # too long, more
                believed = pl[1] // size * size
            elif w == 1:
                pl, more = pat(rng.choice([0, 1, 5, size - 1]), 9), True        # too short, more
            elif w == 2:
                pl, more = pat(2 * size, 9), True                               # two blocks in one
                believed = 2 * size
            elif w == 3:
                pl, more = pat(size + rng.choice([1, 1, 16, size]), 9), False   # too long, final
            elif w == 4:
                pl, more = pat(3 * size + 1, 9), False
            else:
                pl, more = pat(size, 9), rng.random() < 0.5                     # (a correct one)
            if szx == 7:
                more = more and rng.random() < 0.7
        b2 = None
        r2 = rng.random()
        if not more and r2 < 0.4:
            b2 = (0, 0, c.dszx)
            c.down_next, c.down_len = 1, hlen
        elif not more and r2 < 0.5:
            # the final block asks for a later block of what is kept from an earlier request
            b2 = (rng.choice([1, 1, 2, c.down_next]), 0, c.dszx)
        elif more and r2 < 0.12:
            b2 = (0, 0, c.dszx)
        elif more and r2 < 0.24:
            # a Block2 option with a later block number on a block that is not the final one
            b2 = (rng.choice([1, 1, 2, 5]), 0, rng.choice([c.dszx, 0]))
        steps.append(step_of(c, dt, (num, 1 if more else 0, szx), b2, pl, h, opts))
        kinds.append(kind)
        if kind in ("u_start", "u_next", "u_resize", "u_wrong_size0"):
            c.up[1] = believed
            if not more:
                c.up = None if rng.random() < 0.7 else c.up
    if rng.random() < 0.3:
        steps, kinds = add_overlap(rng, T, steps, kinds)
    script = {"kind": "R", "eps": eps, "steps": steps}
    if site:
        script["site"] = 1
    return script, kinds


def U_size(szx):
    return 1 << (min(szx, 6) + 4)


def boundary_scripts(T):
    """Deterministic tables: every szx x lengths k*size-1..+1 for Block2 and Block1; every idle
    time around T and 2T x timer phase; maximum_payload_size and maximum_block_size_exp edges."""
    out = []
    ep = [[list(ADDRS[0]), None, 1124, 6]]
    o = [[11, "61"]]

    def st(code, dt, b1, b2, pl, h, e=0, opts=None, res=0):
        return {"res": res, "dt": dt, "asm": 1, "ep": e, "code": code, "opts": opts or o,
                "b1": b1, "b2": b2, "payload": pl, "h": h}
    # Block2 slicing
    for szx in range(8):
        size = U_size(szx)
        for L in sorted({0, 1, size - 1, size, size + 1, 2 * size - 1, 2 * size, 2 * size + 1, 3 * size}):
            h = [69, [[12, "2a"]], pat(L, szx + 1, 3)]
            steps = [st(GET, 0, None, [0, 0, szx], "-", h)]
            for n in (1, 2, 3, 1):
                steps.append(st(GET, 1, None, [n, 0, szx], "-", [69, [], pat(5, 0)]))
            out.append({"kind": "R", "eps": ep, "steps": steps})
    # Block1 assembly, in order, each szx, with the final response sliced
    for szx in range(8):
        size = U_size(szx)
        for L in sorted({1, size, size + 1, 2 * size - 1, 2 * size, 2 * size + 1}):
            body = pat(L, 7 * szx + 1, 5)
            steps, off = [], 0
            while True:
                more = off + size < L
                steps.append(st(PUT, 2, [off // size, 1 if more else 0, szx], None,
                                slice_spec(body, off, off + size), [68, [], pat(3, 1)]))
                off += size
                if not more:
                    break
            nfin = off // size - 1
            # blocks that continue a finished transfer: n+1 (final and with more flag), n+2, and the
            # final block once more
            steps.append(st(PUT, 1, [nfin + 1, 0, szx], None, pat(2, 2), [68, [], pat(3, 1)]))
            steps.append(st(PUT, 1, [nfin + 1, 1, szx], None, pat(size, 2), [68, [], pat(3, 1)]))
            steps.append(st(PUT, 1, [nfin + 2, 0, szx], None, pat(1, 2), [68, [], pat(3, 1)]))
            if nfin > 0:
                steps.append(st(PUT, 1, [nfin, 0, szx], None, slice_spec(body, nfin * size, L), [68, [], "-"]))
            # a restart; a gap; wrong lengths with the more flag; final blocks of size+1, 2*size
            # (refused below BERT), size-1 (completes the body), then block 2 after completion
            steps.append(st(PUT, 1, [0, 1, szx], None, pat(size, 3), [68, [], "-"]))
            steps.append(st(PUT, 1, [2, 0, szx], None, pat(1, 3), [68, [], "-"]))
            steps.append(st(PUT, 1, [1, 1, szx], None, pat(size - 1, 3), [68, [], "-"]))
            steps.append(st(PUT, 1, [1, 1, szx], None, pat(size + 1, 3), [68, [], "-"]))
            steps.append(st(PUT, 1, [1, 0, szx], None, pat(size + 1, 4), [68, [], "-"]))
            steps.append(st(PUT, 1, [1, 0, szx], None, pat(2 * size, 4), [68, [], "-"]))
            steps.append(st(PUT, 1, [1, 0, szx], None, pat(size - 1, 5), [68, [], "-"]))
            steps.append(st(PUT, 1, [2, 0, szx], None, pat(1, 5), [68, [], "-"]))
            # final blocks of exactly the block size and of no bytes at all
            for fl in (size, 0):
                steps.append(st(PUT, 1, [0, 1, szx], None, pat(size, 6), [68, [], "-"]))
                steps.append(st(PUT, 1, [1, 0, szx], None, pat(fl, 7), [68, [], "-"]))
                steps.append(st(PUT, 1, [1, 0, szx], None, pat(fl, 7), [68, [], "-"]))
            out.append({"kind": "R", "eps": ep, "steps": steps})
    # block 0 is a block like the others: every szx x payload lengths around the block size x more flag,
    # followed by continuations (block 1, block 2, the block at the offset the payload would suggest) --
    # alone, and while an older assembly of the same key is stored (a refused block 0 leaves that one
    # alone, an accepted one replaces it).  On a plain resource and on an observable one (FETCH with
    # Observe: 0).
    oobs = [[6, "-"], [11, "61"]]
    for szx in range(8):
        size = U_size(szx)
        for res, code, oo in ((0, PUT, o), (2, FETCH, oobs)):
            for L in sorted({0, 1, size - 1, size, size + 1, 2 * size - 1, 2 * size, 3 * size + 1}):
                for m in (1, 0):
                    hh = [68, [], pat(3, 1)]
                    tail = [st(code, 1, [1, 1, szx], None, pat(size, 2), hh, opts=oo, res=res),
                            st(code, 1, [2, 0, szx], None, pat(3, 3), hh, opts=oo, res=res),
                            st(code, 1, [max(1, L // size), 0, szx], None, pat(3, 4), hh, opts=oo, res=res)]
                    out.append({"kind": "R", "eps": ep, "steps":
                                [st(code, 0, [0, m, szx], None, pat(L, 5), hh, opts=oo, res=res)] + tail})
                    out.append({"kind": "R", "eps": ep, "steps":
                                [st(code, 0, [0, 1, szx], None, pat(size, 6), hh, opts=oo, res=res),
                                 st(code, 1, [0, m, szx], None, pat(L, 5), hh, opts=oo, res=res),
                                 st(code, 1, [1, 0, szx], None, pat(3, 7), hh, opts=oo, res=res),
                                 st(code, 1, [1, 0, szx], None, pat(3, 7), hh, opts=oo, res=res)]})
    # the Block2 option of the FINAL Block1 block governs, whatever block 0 carried: first x final Block2
    # option (absent, block 0, later blocks, another size), with and without a rendering kept from an older
    # body, then later blocks; plain resource and observable resources (Observe: 0)
    for res, code, oo in ((0, POST, o), (2, FETCH, oobs), (3, FETCH, oobs)):
        for first_b2 in (None, [0, 0, 0], [1, 0, 0], [2, 0, 0], [0, 0, 2]):
            for final_b2 in (None, [0, 0, 0], [1, 0, 0], [3, 0, 0], [0, 0, 1]):
                for kept in (True, False):
                    hold, hnew = [69, [[12, "2a"]], pat(40, 1)], [69, [], pat(36, 100, 3)]
                    steps = []
                    if kept:
                        steps.append(st(code, 0, None, [0, 0, 0], pat(8, 1), hold, opts=oo, res=res))
                    steps += [st(code, 1, [0, 1, 0], first_b2, pat(16, 2), hnew, opts=oo, res=res),
                              st(code, 1, [1, 0, 0], final_b2, pat(3, 3), hnew, opts=oo, res=res),
                              st(code, 1, None, [1, 0, 0], "-", hold, opts=oo, res=res),
                              st(code, 1, None, [2, 0, 0], "-", hold, opts=o, res=res)]
                    out.append({"kind": "R", "eps": ep, "steps": steps})
    # observable resources: the first response of an observation comes out of the same slicing step
    esmall = [[list(ADDRS[0]), None, 64, 2]]
    for res in (2, 3):
        for ov in ("-", "01", None):
            oo = o if ov is None else [[6, ov], [11, "61"]]
            # no Block2 option, rendering longer than maximum_payload_size: first block + kept
            for L in (63, 64, 65, 100, 128, 129):
                out.append({"kind": "R", "eps": esmall, "steps": [
                    st(GET, 0, None, None, "-", [69, [[12, "2a"]], pat(L, 3, 7)], opts=oo, res=res),
                    st(GET, 1, None, [1, 0, 2], "-", [69, [], "-"], opts=oo, res=res),
                    st(GET, 1, None, [1, 0, 2], "-", [69, [], "-"], opts=o, res=res),
                    st(GET, 1, None, [2, 0, 2], "-", [69, [], "-"], opts=o, res=res)]})
            # a rendering kept from an earlier request is not served after a newer request for the
            # beginning was answered completely, or failed
            for h2 in ([69, [], pat(10, 9)], h_raise("NotFound"), h_raise("RuntimeError"), [132, [], pat(4, 1)],
                       h_raise("ret:None"), h_raise("ret:str")):
                for b2 in (None, [0, 0, 0]):
                    out.append({"kind": "R", "eps": ep, "steps": [
                        st(GET, 0, None, [0, 0, 0], "-", [69, [], pat(40, 1)], opts=o, res=res),
                        st(GET, 1, None, [1, 0, 0], "-", [69, [], "-"], opts=oo, res=res),
                        st(GET, 1, None, b2, "-", h2, opts=oo, res=res),
                        st(GET, 1, None, [1, 0, 0], "-", [69, [], "-"], opts=oo, res=res),
                        st(GET, 1, None, [1, 0, 0], "-", [69, [], "-"], opts=o, res=res)]})
    # BERT (szx 7): blocks with the more flag are multiples of 1024 bytes, block numbers count 1024-byte
    # units, a final block has any length
    for n0 in (1, 2, 3):
        steps = [st(PUT, 0, [0, 1, 7], None, pat(1024 * n0, 1), [68, [], "-"]),
                 st(PUT, 1, [n0, 1, 7], None, pat(2048, 2), [68, [], "-"]),
                 st(PUT, 1, [n0 + 2, 1, 7], None, pat(1000, 3), [68, [], "-"]),
                 st(PUT, 1, [n0 + 2, 1, 7], None, pat(1025, 3), [68, [], "-"]),
                 st(PUT, 1, [n0 + 1, 0, 7], None, pat(5, 3), [68, [], "-"]),
                 st(PUT, 1, [n0 + 2, 0, 7], None, pat(2500, 4), [68, [], pat(3, 1)]),
                 st(PUT, 1, [n0 + 5, 0, 7], None, pat(5, 5), [68, [], "-"]),
                 st(PUT, 1, [n0 + 2, 0, 7], None, pat(2500, 4), [68, [], "-"])]
        out.append({"kind": "R", "eps": ep, "steps": steps})
    # lifetime: phase of the timer (armed by another key `ph` ticks earlier) x idle time
    eps2 = [[list(ADDRS[0]), None, 1124, 6], [list(ADDRS[1]), None, 1124, 6]]
    idles = [T - 1, T, T + 1, 2 * T - 1, 2 * T, 2 * T + 1]
    for ph in (None, 0, 1, T // 2, T - 1, T):
        for d in idles:
            for d2 in (None, T - 1, T):
                # spool
                steps = []
                if ph is not None:
                    steps.append(st(PUT, 0, [0, 1, 0], None, pat(16, 1), [68, [], "-"], e=1))
                steps.append(st(PUT, ph or 0, [0, 1, 0], None, pat(16, 2), [68, [], "-"]))
                steps.append(st(PUT, 3, [1, 1, 0], None, pat(16, 3), [68, [], "-"]))
                if d2 is not None:      # keep-alive by a refused block (an access) in between
                    steps.append(st(PUT, d2, [5, 1, 0], None, pat(16, 3), [68, [], "-"]))
                steps.append(st(PUT, d, [2, 0, 0], None, pat(5, 4), [68, [], pat(2, 2)]))
                out.append({"kind": "R", "eps": eps2, "steps": steps})
                # cache
                steps = []
                if ph is not None:
                    steps.append(st(GET, 0, None, [0, 0, 0], "-", [69, [], pat(40, 9)], e=1))
                steps.append(st(GET, ph or 0, None, [0, 0, 0], "-", [69, [], pat(40, 1)]))
                steps.append(st(GET, 3, None, [1, 0, 0], "-", [69, [], "-"]))
                if d2 is not None:
                    steps.append(st(GET, d2, None, [7, 0, 0], "-", [69, [], "-"]))
                steps.append(st(GET, d, None, [2, 0, 0], "-", [69, [], "-"]))
                out.append({"kind": "R", "eps": eps2, "steps": steps})
    # a handler that raises on a block-0 request while an older rendering is kept, then later blocks
    okh = [69, [[12, "2a"]], pat(40, 1, 3)]
    for name in EXC_NAMES:
        hr = h_raise(name)
        for first in ([0, 0, 0], None):
            e = ep if first is not None else [[list(ADDRS[0]), None, 32, 0]]   # no Block2: mps forces blocks
            # GET: kept, block 1 served, raise, blocks 1 and 2 refused, fresh rendering, block 1 again
            steps = [st(GET, 0, None, first, "-", okh), st(GET, 1, None, [1, 0, 0], "-", okh),
                     st(GET, 1, None, first, "-", hr), st(GET, 1, None, [1, 0, 0], "-", okh),
                     st(GET, 1, None, [2, 0, 0], "-", okh),
                     st(GET, 1, None, first, "-", [69, [], pat(40, 9, 5)]), st(GET, 1, None, [1, 0, 0], "-", okh)]
            out.append({"kind": "R", "eps": e, "steps": steps})
        # the block-0 request is the final block of an upload; the raise comes when the transfer completes
        steps = [st(PUT, 0, [0, 0, 0], [0, 0, 0], pat(5, 1), okh), st(PUT, 1, None, [1, 0, 0], "-", okh),
                 st(PUT, 1, [0, 1, 0], None, pat(16, 1), hr), st(PUT, 1, [1, 0, 0], [0, 0, 0], pat(3, 2), hr),
                 st(PUT, 1, None, [1, 0, 0], "-", okh), st(PUT, 1, [2, 0, 0], None, pat(3, 2), okh)]
        out.append({"kind": "R", "eps": ep, "steps": steps})
        # a resource that does its own block handling (what it returns goes on the pipe as it is: a
        # non-message there is not the block-wise machinery's business)
        if name in NON_MESSAGES:
            continue
        s0 = st(GET, 0, None, [0, 0, 0], "-", hr)
        s0["asm"] = 0
        out.append({"kind": "R", "eps": ep, "steps": [s0, st(GET, 1, None, [1, 0, 0], "-", okh)]})
    # maximum_payload_size / maximum_block_size_exp edges, request without Block2
    for mps in (1124, 1024, 64, 2048):
        for mszx in (0, 5, 6, 7):
            if mps < 1024 and mszx == 7:
                continue
            e = [[list(ADDRS[0]), None, mps, mszx]]
            for L in (mps - 1, mps, mps + 1, U_size(mszx), U_size(mszx) + 1):
                steps = [st(GET, 0, None, None, "-", [69, [], pat(L, 1, 1)]),
                         st(GET, 0, None, [1, 0, min(mszx, 6)], "-", [69, [], "-"]),
                         st(GET, 0, None, [1, 0, 7 if mps >= 1024 else 4], "-", [69, [], "-"])]
                out.append({"kind": "R", "eps": e, "steps": steps})
    # stale rendering / beyond-end with a large block size / block key components
    e3 = [[list(ADDRS[0]), None, 1124, 6], [list(ADDRS[1]), None, 1124, 6],
          [list(ADDRS[0]), PKT[1], 1124, 6]]
    for other in ({"e": 1}, {"e": 2}, {"opts": [[11, "62"]]}, {"opts": [[11, "61"], [15, "78"]]},
                  {"code": POST}, {"res": 1}, {"opts": [[11, "61"], [60, "05"]]}, {"opts": [[6, "-"], [11, "61"]]}):
        code2 = other.get("code", PUT)
        e2, o2, r2 = other.get("e", 0), other.get("opts", o), other.get("res", 0)
        steps = [st(PUT, 0, [0, 1, 0], None, pat(16, 1), [68, [], "-"]),
                 st(code2, 0, [0, 1, 0], None, pat(16, 50), [68, [], "-"], e=e2, opts=o2, res=r2),
                 st(PUT, 0, [1, 0, 0], None, pat(3, 2), [68, [], pat(40, 1)]),
                 st(code2, 0, [1, 0, 0], None, pat(4, 60), [68, [], pat(40, 2)], e=e2, opts=o2, res=r2),
                 st(PUT, 0, None, [1, 0, 0], "-", [68, [], "-"]),
                 st(code2, 0, None, [1, 0, 0], "-", [68, [], "-"], e=e2, opts=o2, res=r2)]
        out.append({"kind": "R", "eps": e3, "steps": steps})
    return out


# ----------------------------------------------------------------------------- round-4 families

def _st(code, dt, b1, b2, pl, h, e=0, opts=None, res=0, hold=0, asm=1):
    d = {"res": res, "dt": dt, "asm": asm, "ep": e, "code": code, "opts": opts or [[11, "61"]],
         "b1": b1, "b2": b2, "payload": pl, "h": h}
    if hold:
        d["hold"] = 1
    return d


def _fin(j, dt=1):
    return {"fin": j, "dt": dt}


def path_opts(path, extra=()):
    return sorted([[11, c.encode().hex() or "-"] for c in path] + [list(x) for x in extra], key=lambda o: o[0])


H_KINDS = {"cut": lambda sd: [69, [[12, "2a"]], pat(40, sd, 3)], "fits": lambda sd: [69, [], pat(10, sd)],
           "raises": lambda sd: h_raise("NotFound"), "raises5": lambda sd: h_raise("RuntimeError"),
           "junk": lambda sd: h_raise("ret:None")}


def overlap_scripts(T):
    """Handlers that suspend: two and three requests for the beginning under one block key in flight at
    once, every kind of outcome x every order of completion, a later block asked for after every event;
    the request for the beginning as GET with Block2 0, without Block2 (cut because of the maximum
    payload size) and as the final block of an upload; a second block key in flight at the same time;
    observable resources; resources without block-wise assembly; completion after long times."""
    out = []
    eps = [[list(ADDRS[0]), None, 1124, 6], [list(ADDRS[1]), None, 1124, 6]]
    esmall = [[list(ADDRS[0]), None, 32, 0], [list(ADDRS[1]), None, 32, 0]]
    nul = [69, [], "-"]

    def later(n=1, e=0, code=GET, opts=None, res=0, dt=1):
        return _st(code, dt, None, [n, 0, 0], "-", nul, e=e, opts=opts, res=res)

    def fresh(form, h, hold, sd, res=0, opts=None, e=0):
        """-> list of steps, the last of which is the request for the beginning"""
        if form == "b2":
            return [_st(GET, 1, None, [0, 0, 0], "-", h, hold=hold, res=res, opts=opts, e=e)]
        if form == "none":
            return [_st(GET, 1, None, None, "-", h, hold=hold, res=res, opts=opts, e=e)]
        return [_st(GET, 1, [0, 1, 0], None, pat(16, sd), h, res=res, opts=opts, e=e),
                _st(GET, 1, [1, 0, 0], [0, 0, 0], pat(3, sd + 1), h, hold=hold, res=res, opts=opts, e=e)]
    forms = [("b2", "b2", eps), ("none", "b2", esmall), ("upload", "upload", eps), ("b2", "upload", eps)]
    for fa, fb, ee in forms:
        kinds = list(H_KINDS) if (fa, fb) == ("b2", "b2") else ["cut", "fits", "raises", "junk"]
        for ka in kinds:
            for kb in kinds:
                ha, hb = H_KINDS[ka](1), H_KINDS[kb](101)
                for b_held in (1, 0):
                    for order in ((0, 1), (1, 0)) if b_held else ((0,),):
                        steps = [_st(GET, 0, None, [0, 0, 0], "-", [69, [], pat(40, 200, 7)]), later()]   # an older rendering is kept
                        steps += fresh(fa, ha, 1, 1)
                        ia = len(steps) - 1
                        steps.append(later())
                        steps += fresh(fb, hb, b_held, 50)
                        ib = len(steps) - 1
                        steps.append(later())
                        for which in order:
                            steps.append(_fin((ia, ib)[which] if b_held else ia))
                            steps.append(later())
                        steps += [later(2), later(3)]
                        out.append({"kind": "R", "eps": ee, "steps": steps})
    # three in flight, all orders of completion; the middle one raising
    import itertools
    for mid in ("cut", "raises", "junk"):
        for order in itertools.permutations((0, 1, 2)):
            hs = [H_KINDS["cut"](1), H_KINDS[mid](60), H_KINDS["cut"](120)]
            steps = [_st(GET, 0 if i == 0 else 1, None, [0, 0, 0], "-", hs[i], hold=1) for i in range(3)]
            steps.append(later())
            for j in order:
                steps += [_fin(j), later(), later(2)]
            out.append({"kind": "R", "eps": eps, "steps": steps})
    # another block key in flight at the same time (other endpoint / other query / other resource)
    for other in ({"e": 1}, {"opts": [[11, "61"], [15, "78"]]}, {"res": 1}, {"code": FETCH}):
        for order in ((0, 1), (1, 0)):
            e2, o2, r2, c2 = other.get("e", 0), other.get("opts"), other.get("res", 0), other.get("code", GET)
            a = _st(GET, 0, None, [0, 0, 0], "-", H_KINDS["cut"](1), hold=1)
            b = _st(c2, 1, None, [0, 0, 0], "-", H_KINDS["cut"](90), hold=1, e=e2, opts=o2, res=r2)
            la, lb = later(), later(e=e2, opts=o2, res=r2, code=c2)
            steps = [a, b, la, lb]
            for j in order:
                steps += [_fin(j), la, lb]
            out.append({"kind": "R", "eps": eps, "steps": steps})
    # observable resources (declining / accepting), Observe: 0
    oobs = [[6, "-"], [11, "61"]]
    for res in (2, 3):
        for order in ((0, 1), (1, 0)):
            steps = [_st(GET, 0, None, [0, 0, 0], "-", H_KINDS["cut"](1), hold=1, res=res, opts=oobs),
                     _st(GET, 1, None, [0, 0, 0], "-", H_KINDS["cut"](77), hold=1, res=res, opts=oobs),
                     later(res=res, opts=oobs)]
            for j in order:
                steps += [_fin(j), later(res=res, opts=oobs), later(res=res)]
            out.append({"kind": "R", "eps": eps, "steps": steps})
    # a resource that does its own block handling: nothing is kept, whatever the order
    for order in ((0, 1), (1, 0)):
        steps = [_st(GET, 0, None, [0, 0, 0], "-", H_KINDS["cut"](1), hold=1, asm=0),
                 _st(GET, 1, None, [0, 0, 0], "-", H_KINDS["raises"](1), hold=1, asm=0)]
        steps += [_fin(j) for j in order]
        out.append({"kind": "R", "eps": eps, "steps": steps})
    # a handler that takes long: what is kept counts from the completion; a newer request still being
    # rendered hides the kept rendering for as long as it takes
    for d in (T - 1, T + 1, 2 * T + 1):
        for d2 in (1, T - 1, T + 1, 2 * T + 1):
            steps = [_st(GET, 0, None, [0, 0, 0], "-", [69, [], pat(40, 200, 7)]), later(),
                     _st(GET, 1, None, [0, 0, 0], "-", H_KINDS["cut"](1), hold=1),
                     later(dt=d - 1), _fin(2, 1), later(dt=d2), later(2)]
            out.append({"kind": "R", "eps": eps, "steps": steps})
    # `fin` of what is not pending: a later block with the hold flag, a step finished twice, a refused block
    steps = [_st(GET, 0, None, [1, 0, 0], "-", nul, hold=1), _fin(0),
             _st(GET, 1, None, [0, 0, 0], "-", H_KINDS["cut"](1), hold=1), _fin(2), _fin(2),
             _st(PUT, 1, [3, 0, 0], None, pat(3, 1), nul, hold=1), _fin(5), later()]
    out.append({"kind": "R", "eps": eps, "steps": steps})
    return out


def busy_steps(T, side, n_ab, n_traffic, gap, tkind, late, site_paths=None):
    """A busy server: `n_ab` endpoints start a transfer (two accesses each) and give up; in every
    following stretch of `gap` ticks `n_traffic` other transfers on the same resource complete (or are
    superseded); `late` ticks after their last use the abandoned transfers are continued."""
    steps = []
    ab_eps = list(range(n_ab))
    tr_ep = n_ab
    nul = [69, [], "-"]

    def o(i):
        return [[11, "61"], [15, "743d%02x" % (0x30 + i)]]
    for e in ab_eps:
        if side == "spool":
            steps += [_st(PUT, 0, [0, 1, 0], None, pat(16, e), nul, e=e), _st(PUT, 1, [1, 1, 0], None, pat(16, e + 1), nul, e=e)]
        else:
            steps += [_st(GET, 0, None, [0, 0, 0], "-", [69, [], pat(60, e, 3)], e=e), _st(GET, 1, None, [1, 0, 0], "-", nul, e=e)]
    elapsed = 0
    while elapsed + gap < late:
        for i in range(n_traffic):
            dt = gap if i == 0 else 0
            if side == "spool":
                if tkind == 0:      # a two-block upload: block 0 stores, the final block takes it out
                    steps += [_st(PUT, dt, [0, 1, 0], None, pat(16, 9), nul, e=tr_ep, opts=o(i)),
                              _st(PUT, 0, [1, 0, 0], None, pat(3, 9), [68, [], "-"], e=tr_ep, opts=o(i))]
                else:               # a single final block 0
                    steps += [_st(PUT, dt, [0, 0, 0], None, pat(5, 9), [68, [], "-"], e=tr_ep, opts=o(i))]
            else:
                if tkind == 0:      # a large rendering, superseded by a small one
                    steps += [_st(GET, dt, None, [0, 0, 0], "-", [69, [], pat(40, 9)], e=tr_ep, opts=o(i)),
                              _st(GET, 0, None, [0, 0, 0], "-", [69, [], pat(4, 9)], e=tr_ep, opts=o(i))]
                else:               # ... or by a request on which the handler raises
                    steps += [_st(GET, dt, None, [0, 0, 0], "-", [69, [], pat(40, 9)], e=tr_ep, opts=o(i)),
                              _st(GET, 0, None, [0, 0, 0], "-", h_raise("ServiceUnavailable"), e=tr_ep, opts=o(i))]
        elapsed += gap
    first = True
    for e in ab_eps:
        dt = (late - elapsed - 1) if first else 0      # (the second access of the abandoner was 1 tick after the first)
        first = False
        if side == "spool":
            steps.append(_st(PUT, max(dt, 0), [2, 0, 0], None, pat(3, 7), [68, [], "-"], e=e))
        else:
            steps.append(_st(GET, max(dt, 0), None, [2, 0, 0], "-", nul, e=e))
    return steps


def busy_scripts(T):
    out = []
    eps = [[list(ADDRS[0]), None, 1124, 6], [list(ADDRS[1]), None, 1124, 6], [list(ADDRS[2]), None, 1124, 6]]
    for side in ("spool", "cache"):
        for n_ab in (1, 2):
            for n_tr in (1, 2, 3):
                for gap in (T // 2, T - 1):
                    for tkind in (0, 1):
                        for late in (2 * T + 2, 3 * T):
                            out.append({"kind": "R", "eps": eps,
                                        "steps": busy_steps(T, side, n_ab, n_tr, gap, tkind, late + n_ab)})
    return out


def site_scripts(T):
    """Requests given to a `Site`: one resource object registered under several paths (also through a
    nested site) keeps the transfers at its paths apart."""
    out = []
    eps = [[list(ADDRS[0]), None, 1124, 6], [list(ADDRS[1]), None, 1124, 6]]
    nul = [69, [], "-"]
    by_res = {}
    for ri, path in U.SITE_PATHS:
        by_res.setdefault(ri, []).append(path)
    for ri, paths in sorted(by_res.items()):
        code_up, code_dn = (PUT, GET) if ri < 2 else (FETCH, FETCH)
        obs = [[6, "-"]] if ri >= 2 else []
        for p1 in paths:
            for p2 in paths:
                o1, o2 = path_opts(p1, obs), path_opts(p2, obs)
                out.append({"kind": "R", "site": 1, "eps": eps, "steps": [
                    _st(code_up, 0, [0, 1, 0], None, pat(16, 1), [68, [], pat(3, 1)], opts=o1, res=ri),
                    _st(code_up, 1, [1, 0, 0], None, pat(3, 2), [68, [], pat(3, 1)], opts=o2, res=ri),
                    _st(code_up, 1, [1, 0, 0], None, pat(4, 3), [68, [], pat(3, 1)], opts=o1, res=ri),
                    _st(code_up, 1, [2, 0, 0], None, pat(4, 3), [68, [], pat(3, 1)], opts=o2, res=ri)]})
                out.append({"kind": "R", "site": 1, "eps": eps, "steps": [
                    _st(code_dn, 0, None, [0, 0, 0], "-", [69, [], pat(40, 5, 3)], opts=o1, res=ri),
                    _st(code_dn, 1, None, [1, 0, 0], "-", nul, opts=o2, res=ri),
                    _st(code_dn, 1, None, [0, 0, 0], "-", [69, [], pat(36, 90)], opts=o2, res=ri),
                    _st(code_dn, 1, None, [1, 0, 0], "-", nul, opts=o1, res=ri),
                    _st(code_dn, 1, None, [2, 0, 0], "-", nul, opts=o2, res=ri)]})
                # both paths being rendered at once
                out.append({"kind": "R", "site": 1, "eps": eps, "steps": [
                    _st(code_dn, 0, None, [0, 0, 0], "-", [69, [], pat(40, 5, 3)], opts=o1, res=ri, hold=1),
                    _st(code_dn, 1, None, [0, 0, 0], "-", [69, [], pat(36, 90)], opts=o2, res=ri, hold=1),
                    _st(code_dn, 1, None, [1, 0, 0], "-", nul, opts=o1, res=ri),
                    _fin(0), _st(code_dn, 1, None, [1, 0, 0], "-", nul, opts=o1, res=ri),
                    _st(code_dn, 1, None, [1, 0, 0], "-", nul, opts=o2, res=ri),
                    _fin(1), _st(code_dn, 1, None, [1, 0, 0], "-", nul, opts=o1, res=ri),
                    _st(code_dn, 1, None, [1, 0, 0], "-", nul, opts=o2, res=ri)]})
    return out


def bert_empty_scripts():
    """size exponent 7: a block with the more flag is one or more whole 1024 byte blocks -- an empty one
    contradicts its size like any other length that is not a multiple (block 0 and later blocks; from a
    peer that negotiated BERT and from a UDP peer)"""
    out = []
    nul = [68, [], "-"]
    for mps, mszx in ((1124, 6), (3000, 7)):
        ep = [[list(ADDRS[0]), None, mps, mszx]]
        out.append({"kind": "R", "eps": ep, "steps": [
            _st(PUT, 0, [0, 1, 7], None, "-", nul), _st(PUT, 1, [0, 1, 7], None, "-", nul),
            _st(PUT, 1, [0, 1, 7], None, pat(1024, 1), nul),
            _st(PUT, 1, [1, 1, 7], None, "-", nul), _st(PUT, 1, [1, 1, 7], None, "-", nul),
            _st(PUT, 1, [1, 1, 7], None, pat(1024, 2), nul), _st(PUT, 1, [1, 1, 7], None, "-", nul),
            _st(PUT, 1, [2, 1, 7], None, "-", nul), _st(PUT, 1, [2, 0, 7], None, "-", nul),
            _st(PUT, 1, [2, 0, 7], None, "-", nul)]})
        out.append({"kind": "R", "eps": ep, "steps": [
            _st(PUT, 0, [0, 1, 7], None, pat(2048, 1), nul), _st(PUT, 1, [2, 1, 7], None, "-", nul),
            _st(PUT, 1, [2, 0, 7], None, pat(10, 3), nul), _st(PUT, 1, [0, 0, 7], None, "-", nul)]})
    return out


def add_overlap(rng, T, steps, kinds):
    """Let some handlers of a generated script suspend: such a step gets `hold`, and a `fin` step
    follows after 0..6 further requests (or never)."""
    new, nk, waiting = [], [], []
    for st, k in zip(steps, kinds):
        fresh = (st["b2"] is None or st["b2"][0] == 0) and (st["b1"] is None or not st["b1"][1])
        st = dict(st)
        if rng.random() < (0.5 if fresh else 0.03):
            st["hold"] = 1
            waiting.append([rng.choice([0, 0, 1, 1, 2, 3, 6]), len(new)])
        new.append(st)
        nk.append(k)
        due = [w for w in waiting if w[0] <= 0]
        for w in waiting:
            w[0] -= 1
        rng.shuffle(due)
        for w in due:
            waiting.remove(w)
            new.append(_fin(w[1], idle(rng, T)))
            nk.append("fin")
            if rng.random() < 0.03:
                new.append(_fin(rng.randrange(len(new)), 0))      # of something that is not pending
                nk.append("fin")
    for w in waiting:
        if rng.random() < 0.8:
            new.append(_fin(w[1], idle(rng, T)))
            nk.append("fin")
    return new, nk


def gen_busy_script(rng, T):
    eps = [[list(ADDRS[0]), None, 1124, 6], [list(ADDRS[1]), None, 1124, 6], [list(ADDRS[2]), None, 1124, 6]]
    n_ab = rng.choice([1, 1, 2])
    steps = busy_steps(T, rng.choice(["spool", "cache"]), n_ab, rng.choice([1, 1, 2, 3]),
                       rng.choice([T // 3, T // 2, T - 1, T - 2]), rng.randrange(2),
                       rng.choice([T - 2, T + T // 2, 2 * T + 2, 2 * T + 5, 3 * T]) + n_ab)
    return {"kind": "R", "eps": eps, "steps": steps}, ["busy"] * len(steps)


# ----------------------------------------------------------------------------- T: TimeoutDict

def run_td(aiocoap, T, ops):
    from aiocoap.util.asyncio.timeoutdict import TimeoutDict
    loop = U.VLoop()
    out = []
    try:
        td = TimeoutDict(T * U.TICK)
        refs = {}

        async def do(op):
            kind = op[0]
            if kind == "g":
                try:
                    return str(td[op[2]][0])
                except KeyError:
                    return "K"
            if kind == "s":
                box = [op[3]]
                refs[op[2]] = box
                td[op[2]] = box
                return "ok"
            if kind == "d":
                try:
                    del td[op[2]]
                    return "ok"
                except KeyError:
                    return "K"
            if kind == "m":
                if op[2] in refs:
                    refs[op[2]][0] = op[3]      # in-place mutation of the stored object
                return "ok"
            return "ok"
        async def whole():
            for op in ops:
                await loop.aadvance(op[1])
                try:
                    out.append(await do(op))
                except Exception as e:
                    out.append(f"exception:{type(e).__name__}")
        loop.run_until_complete(whole())
        items = ",".join(f"{k}={v[0]}" for k, v in sorted(td._items.items()))
        return " ".join(out) + " |" + items + (" |t" if td._timeout is not None else " |n")
    finally:
        loop.cancel_all()
        loop.close()


def td_line(T, ops):
    toks = []
    for op in ops:
        toks.append(":".join(str(x) for x in op))
    return f"C06 T {T} " + " ".join(toks)


def oracle_td(T, ops, out):
    """an entry accessed at t is there at every t' < t+T and gone at every t' >= t+2T"""
    res = out.split(" |")[0].split()
    last = {}
    now = 0
    for op, r in zip(ops, res):
        now += op[1]
        if r.startswith("exception"):
            return f"{op} raised {r}"
        k = op[2] if len(op) > 2 else None
        if op[0] == "s":
            last[k] = now
        elif op[0] == "d":
            last.pop(k, None)
        elif op[0] == "g":
            if k not in last:
                if r != "K":
                    return f"get({k}) at {now} found a value that was never set or was deleted"
            elif now < last[k] + T:
                if r == "K":
                    return f"key {k} accessed at {last[k]} is gone at {now} < t+T (T={T})"
                last[k] = now
            elif now >= last[k] + 2 * T:
                if r != "K":
                    return f"key {k} accessed at {last[k]} still present at {now} >= t+2T (T={T})"
                del last[k]
            else:
                if r == "K":
                    del last[k]
                else:
                    last[k] = now
    return ""


def gen_td(rng):
    T = rng.choice([1, 2, 7, 10])
    ops = []
    live = []
    for _ in range(rng.randrange(3, 30)):
        c = rng.randrange(10)
        dt = rng.choice([0, 0, 0, 1, 1, 2, T - 1, T, T + 1, 2 * T - 1, 2 * T, 2 * T + 1, rng.randrange(3 * T + 1)])
        k = rng.choice(live) if live and rng.random() < 0.7 else rng.randrange(4)
        if c < 3:
            ops.append(["s", dt, k, rng.randrange(100)])
            live.append(k)
        elif c < 7:
            ops.append(["g", dt, k])
        elif c < 8:
            ops.append(["d", dt, k])
        elif c < 9:
            ops.append(["m", dt, k, rng.randrange(100, 200)])
        else:
            ops.append(["w", dt])
    return T, ops


def td_boundary():
    out = []
    for T in (1, 5):
        for ph in (None, 0, 1, T - 1, T):
            for d in (T - 1, T, T + 1, 2 * T - 1, 2 * T, 2 * T + 1):
                ops = []
                if ph is not None:
                    ops.append(["s", 0, 9, 1])
                ops.append(["s", ph or 0, 1, 7])
                ops.append(["g", d, 1])
                ops.append(["g", 0, 9])
                out.append((T, ops))
                ops2 = ops[:-2] + [["g", 1, 1], ["g", d, 1]]
                out.append((T, ops2))
    return out


def td_busy_ops(T, n_ab, n_ghost, gap, variant, late):
    """`n_ab` keys are set and read once and then left alone; every `gap` ticks `n_ghost` other keys
    are set and deleted again (variant 1: set, read, deleted; 2: the same key every time); `late` ticks
    after their last access the abandoned keys are read."""
    ops = []
    for k in range(n_ab):
        ops += [["s", 0, k, 10 + k], ["g", 1 if k == 0 else 0, k]]
    elapsed, serial = 0, 0
    while elapsed + gap < late:
        for i in range(n_ghost):
            key = 100 + (i if variant == 2 else serial)
            serial += 1
            ops.append(["s", gap if i == 0 else 0, key, 7])
            if variant == 1:
                ops.append(["g", 0, key])
            ops.append(["d", 0, key])
        elapsed += gap
    for k in range(n_ab):
        ops.append(["g", max(late - elapsed, 0) if k == 0 else 0, k])
    return ops


def td_busy():
    out = []
    for T in (2, 5):
        for n_ab in (1, 2):
            for n_ghost in (1, 2, 3):
                for gap in sorted({1, T - 1}):
                    for variant in (0, 1, 2):
                        for late in (2 * T, 2 * T + 1, 3 * T):
                            out.append((T, td_busy_ops(T, n_ab, n_ghost, gap, variant, late)))
    return out


def gen_td_busy(rng):
    T = rng.choice([2, 7, 10])
    return T, td_busy_ops(T, rng.choice([1, 1, 2, 3]), rng.choice([1, 2, 3, 4]), rng.randrange(1, T),
                          rng.randrange(3), rng.choice([T - 1, T, 2 * T - 1, 2 * T, 2 * T + 1, 3 * T, rng.randrange(4 * T)]))


# ----------------------------------------------------------------------------- K: block key

def run_key(aiocoap, world, a, b):
    from aiocoap.blockwise import _extract_block_key
    ms = []
    for (epi, code, opts, b1, b2) in (a, b):
        ep = KEY_EPS[epi]
        ms.append(world.incoming((tuple(ep[0]), None if ep[1] is None else bytes.fromhex(ep[1]), 1124, 6),
                                 code, hexopts(opts), b1, b2, b"", 1))
    ka, kb = _extract_block_key(ms[0]), _extract_block_key(ms[1])
    eq = ka == kb
    if eq and hash(ka) != hash(kb):
        return "hash-mismatch", ms
    return ("1" if eq else "0"), ms


KEY_EPS = [[list(ADDRS[0]), None], [list(ADDRS[1]), None], [list(ADDRS[2]), None], [list(ADDRS[0]), PKT[1]],
           [list(ADDRS[0]), None]]


def key_cases(env):
    cases = []
    base = (0, PUT, [[11, "61"]], None, None)
    nums = list(range(0, 70)) + [92, 93, 124, 125, 128, 252, 258, 284, 285, 2076, 2077, 65000, 65308]
    for n in nums:
        if n in (11,):
            continue
        for va, vb in (("01", "02"), (None, "01")):
            oa = sorted([[11, "61"]] + ([[n, va]] if va else []), key=lambda o: o[0])
            ob = sorted([[11, "61"], [n, vb]], key=lambda o: o[0])
            if n in (23, 27):
                continue
            cases.append(((0, PUT, oa, None, None), (0, PUT, ob, None, None)))
    for e in range(1, 5):
        cases.append((base, (e, PUT, [[11, "61"]], None, None)))
    for c in (GET, POST, FETCH, 4, 6, 7):
        cases.append((base, (0, c, [[11, "61"]], None, None)))
    cases.append((base, (0, PUT, [[11, "61"]], [3, 1, 2], [1, 0, 4])))
    cases.append((base, (0, PUT, [[11, "61"], [11, "62"]], None, None)))
    cases.append(((0, PUT, [[11, "62"], [11, "61"]], None, None), (0, PUT, [[11, "61"], [11, "62"]], None, None)))
    rng = env.rng
    for _ in range(env.scale(150, 3000)):
        def rnd():
            opts = [[11, rng.choice(["61", "62"])]]
            for n in rng.sample([4, 6, 12, 14, 15, 17, 28, 60, 92, 258, 2076], rng.randrange(0, 4)):
                opts.append([n, rng.choice(["01", "02", "-"])])
            opts.sort(key=lambda o: o[0])
            return (rng.randrange(5), rng.choice([GET, PUT, PUT]), opts,
                    rng.choice([None, [1, 1, 2]]), rng.choice([None, [0, 0, 1]]))
        a = rnd()
        b = rnd() if rng.random() < 0.5 else (a[0], a[1], [list(o) for o in a[2]], None, None)
        cases.append((a, b))
    return cases


def oracle_key(a, b, r):
    def k(c):
        ep = KEY_EPS[c[0]]
        return ((tuple(ep[0]), ep[1]), c[1], cache_key_opts(hexopts(c[2])))
    want = "1" if k(a) == k(b) else "0"
    if r != want:
        return f"block keys of {a} and {b}: equal={r}, expected {want}"
    return ""


# ----------------------------------------------------------------------------- entry points

def script_nontrivial(obs, script):
    multi = any(o.get("seen") and st.get("b1") is not None and st["b1"][0] > 0 for st, o in zip(script["steps"], obs))
    later = any(o.get("b2") is not None and o["b2"][0] > 0 for o in obs)
    refused = any(o.get("code") in (136, 128) and o.get("exc") for o in obs)
    return (multi or later) and refused


def run(env, rep):
    aiocoap = env.import_repo()
    import aiocoap.numbers
    T = U.ticks_of(aiocoap.numbers.TransportTuning().MAX_TRANSMIT_WAIT)

    # ---- R: request scripts
    scripts = []
    for fn, c in load_corpus("C06"):
        if c.get("kind") == "R":
            scripts.append((c, ["corpus"] * len(c["steps"])))
    for s in boundary_scripts(T):
        scripts.append((s, ["boundary"] * len(s["steps"])))
    rep.exhaustive_parts.append("szx 0..7 x block 0 of 0, 1, size-1, size, size+1, 2*size-1, 2*size, 3*size+1 bytes x more "
                                "flag, alone and over a stored assembly, followed by blocks 1, 2 and the block at the "
                                "suggested offset (plain and observable resource); first x final Block2 option of an "
                                "upload {absent, 0, 1, 2|3, other size} x older rendering kept or not (plain, observable "
                                "declining / accepting); observable resources: Observe 0 / 1 / absent x rendering lengths "
                                "around maximum_payload_size, stale kept rendering x {short, raising, error} newer request; "
                                "szx 0..7 x body lengths k*size-1..k*size+1 for Block1 and Block2; per szx final "
                                "blocks of 0, size-1, size, size+1, 2*size bytes and blocks n+1 / n+1 with more / "
                                "n+2 / repeated final block after completion; BERT Block1 sequences (multiples of 1024 with the more flag, "
                                "1000 / 1025 bytes refused, final block of 2500 bytes); idle times "
                                "T-1..T+1, 2T-1..2T+1 x timer phase x keep-alive; maximum_payload_size edges; "
                                "each component of the block key changed alone; each of 8 exception classes raised "
                                "on a block-0 request (Block2 0 / none / final Block1 block / no assembly) with an "
                                "older rendering kept, then later blocks")
    for s in overlap_scripts(T) + busy_scripts(T) + site_scripts(T) + bert_empty_scripts():
        scripts.append((s, [("fin" if "fin" in st else "boundary") for st in s["steps"]]))
    rep.exhaustive_parts.append("handlers that suspend: two requests for the beginning under one block key in flight "
                                "(GET Block2 0 / no Block2 / final Block1 block) x outcome {cut, fits, raises 4.04, raises "
                                "5.00}^2 x both orders of completion (and the second one not suspending), three in flight "
                                "x all 6 orders, a second block key (endpoint, query, resource, method) in flight, observable "
                                "resources, no block-wise assembly, completion after T-1 / T+1 / 2T+1 x later block after "
                                "1 / T-1 / T+1 / 2T+1 -- a later block asked for after every event; busy server: 1-2 "
                                "abandoned transfers (spool / cache) x 1-3 completed or superseded transfers every T/2 or "
                                "T-1 x continuation 2T+2 / 3T after the last use; Site: every pair of paths of each "
                                "resource object x upload / download / both being rendered; empty BERT blocks with the "
                                "more flag (block 0, later, repeated)")
    n = env.scale(1000, 20000)
    for j in range(n):
        if j % 16 == 5:
            scripts.append(gen_busy_script(env.rng, T))
        else:
            scripts.append(gen_script(env.rng, T, big=(j % 7 == 0)))
    cases, lines, impl = [], [], []
    deviations = 0
    total = 0
    for script, kinds in scripts:
        line, out, obs = run_script(aiocoap, script)
        cases.append(script)
        lines.append(line)
        impl.append(out)
        rep.case(script, nontrivial=script_nontrivial(obs, script), sample_every=400)
        rep.count("R:endpoints=%d" % len(script["eps"]))
        if script.get("site"):
            rep.count("R:through-site")
        overl = 0
        for k, o, st in zip(kinds, obs, script["steps"]):
            rep.count("R:step=" + k)
            total += 1
            if "fin" in st:
                overl -= 0 if o.get("none") else 1
                rep.count("R:handler-ends=" + ("not-pending" if o.get("none") else
                                                ("raised" if o["exc"] else "rendered")))
                continue
            if o.get("pending"):
                overl += 1
                rep.count("R:handlers-under-way=%d" % min(overl, 4))
                continue
            if k.split("_")[-1] in ("skip", "repeat", "first", "size", "size0", "beyond", "resize", "done"):
                deviations += 1
            cls = {95: "2.31", 136: "4.08", 128: "4.00"}.get(o["code"], "%d.xx" % (o["code"] >> 5)) \
                if (o["exc"] or o["code"] == 95) else "rendered"
            rep.count("R:response=" + cls)
            if overl > 0:
                rep.count("R:answered-while-a-handler-is-under-way=" + cls)
            if o["seen"]:
                rep.count("R:handler=" + ("assembled" if st["b1"] is not None and st["b1"][0] > 0 else "single"))
                if h_exc(st["h"]):
                    rep.count("R:handler-raised=" + h_exc(st["h"]))
            if st["b1"] is not None and not st["b1"][1] and st["b1"][0] > 0 and st["b1"][2] < 7 \
                    and mk_bytes(st["payload"]).__len__() > (1 << (st["b1"][2] + 4)):
                rep.count("R:final-block-oversize")
            if o["b2"] is not None:
                rep.count("R:block2=" + ("first" if o["b2"][0] == 0 else "later") + ("+more" if o["b2"][1] else ""))
            if st["b1"] is not None and st["b1"][0] == 0:
                plen = len(mk_bytes(st["payload"]))
                bsz = block_size(st["b1"][2])
                if st["b1"][1]:
                    bad = not (plen == bsz or (st["b1"][2] == 7 and plen % 1024 == 0 and plen > 0))
                else:
                    bad = st["b1"][2] != 7 and plen > bsz
                rep.count("R:block0=" + ("more" if st["b1"][1] else "final") + ("+wrong-size" if bad else ""))
            if st["b1"] is not None and st["b1"][1] and st["b1"][2] == 7 and not mk_bytes(st["payload"]):
                rep.count("R:empty-bert-block-with-more")
            if st["b1"] is not None and st["b2"] is not None:
                rep.count("R:block1-with-block2=" + ("final" if not st["b1"][1] else
                                                     ("first" if st["b1"][0] == 0 else "middle"))
                          + ("+num0" if st["b2"][0] == 0 else "+later"))
            if o["entry"] != "-":
                rep.count("R:observable-entry=" + o["entry"] + ("+block1" if st["b1"] is not None else "")
                          + ("+open" if o["open"] else ""))
            if st["dt"] >= T - 1:
                rep.count("R:idle>=T-1")
        v, idx = oracle_script(script, obs)
        if v:
            rep.oracle_fail(script, v, key="R:" + v.split(": ", 1)[1][:60])
    if total and deviations * 2 > total:
        raise HarnessError(f"malformed stream is {deviations}/{total} of the request steps")
    outs = compare(env, rep, cases, lines, impl, what="render_to_pipe")
    # coverage of the model's branches, measured on the model's own outputs (so that a defect of
    # the implementation cannot hide as a generator problem)
    for o in outs:
        for tok in o.split(" "):
            f = tok.split("|")
            if len(f) != 7 or f[0] == "~":
                continue
            if f[6] != "-":
                rep.count("model:observable-entry=" + f[6])
            if f[5] == "-" and f[0] in ("95", "136", "128") and f[4] == "-":
                rep.count("model:refused=" + f[0])
            if f[5] != "-":
                rep.count("model:handler")
            if f[2] != "-":
                n, m, _ = f[2].split("/")
                rep.count("model:block2=" + ("first" if n == "0" else "later") + ("+more" if m == "1" else ""))
    for need in ("model:refused=95", "model:refused=136", "model:refused=128", "model:handler",
                 "model:block2=later", "model:block2=later+more", "model:block2=first+more",
                 "model:observable-entry=o", "model:observable-entry=p"):
        if not rep.hist.get(need):
            raise HarnessError(f"generator never reached {need}")

    # ---- D: the same scripts against bare Block1Spool / Block2Cache objects
    dcases, dlines, dimpl = [], [], []
    for script, kinds in scripts[::3]:
        line, out, obs = run_script(aiocoap, script, direct=True)
        case = dict(script, kind="D")
        dcases.append(case)
        dlines.append(line)
        dimpl.append(out)
        rep.case(case, nontrivial=script_nontrivial(obs, script), sample_every=2000)
        for o in obs:
            if o.get("exc"):
                rep.count("D:exception=" + o["exc"])
        v, idx = oracle_script(case, obs)
        if v:
            rep.oracle_fail(case, v, key="D:" + v.split(": ", 1)[1][:60])
    compare(env, rep, dcases, dlines, dimpl, what="Block1Spool/Block2Cache")
    # ---- T: TimeoutDict
    tcases = [(c["T"], c["ops"]) for _, c in load_corpus("C06") if c.get("kind") == "T"]
    tcases += td_boundary() + td_busy()
    for j in range(env.scale(6000, 100000)):
        tcases.append(gen_td_busy(env.rng) if j % 10 == 3 else gen_td(env.rng))
    lines, impl, cases = [], [], []
    for (Tt, ops) in tcases:
        r = run_td(aiocoap, Tt, ops)
        case = {"kind": "T", "T": Tt, "ops": ops}
        cases.append(case)
        lines.append(td_line(Tt, ops))
        impl.append(r)
        toks = r.split(" |")[0].split()
        rep.case(case, nontrivial=("K" in toks and any(t.isdigit() for t in toks)), sample_every=5000)
        for op, t in zip(ops, toks):
            rep.count("T:" + op[0] + "=" + ("hit" if t.isdigit() else t))
        v = oracle_td(Tt, ops, r)
        if v:
            rep.oracle_fail(case, v, key="T:" + v.split(" at ")[0][:50])
    compare(env, rep, cases, lines, impl, what="TimeoutDict")

    # ---- K: block key
    world = U.World(aiocoap, n_resources=0)
    try:
        lines, impl, cases = [], [], []
        for (a, b) in [(tuple(c["a"]), tuple(c["b"])) for _, c in load_corpus("C06") if c.get("kind") == "K"] \
                + key_cases(env):
            r, ms = run_key(aiocoap, world, a, b)
            ids = {}
            toks = []
            for m in ms:
                rid = ids.setdefault(m.remote.blockwise_key, len(ids))
                toks.append(f"{rid},{int(m.code)},{U.opts_str(U.opts_of(m))},-")
            case = {"kind": "K", "a": list(a), "b": list(b)}
            cases.append(case)
            lines.append("C06 K " + " ".join(toks))
            impl.append(r)
            rep.case(case, nontrivial=True, sample_every=3000)
            rep.count("K:equal=" + r)
            v = oracle_key(a, b, r)
            if v:
                rep.oracle_fail(case, v, key="K:" + v[:60])
        compare(env, rep, cases, lines, impl, what="_extract_block_key")
    finally:
        world.close()


def replay(env, case):
    aiocoap = env.import_repo()
    kind = case.get("kind")
    if kind in ("R", "D"):
        _, _, obs = run_script(aiocoap, case, direct=(kind == "D"))
        return oracle_script(case, obs)[0]
    if kind == "T":
        return oracle_td(case["T"], case["ops"], run_td(aiocoap, case["T"], case["ops"]))
    if kind == "K":
        world = U.World(aiocoap, n_resources=0)
        try:
            r, _ = run_key(aiocoap, world, tuple(case["a"]), tuple(case["b"]))
        finally:
            world.close()
        return oracle_key(tuple(case["a"]), tuple(case["b"]), r)
    raise HarnessError(f"unknown case kind {kind!r}")
