"""C14 — NSTART=1: one open confirmable exchange per peer, FIFO backlog, none forgotten.

Correspondence: scripts submitting confirmable / non-confirmable requests to 1-3 endpoints with
ACK, Reset, piggybacked response, time-out and transport-error events, on the real UDP stack
(fake socket, virtual clock) vs the Lean message-layer model.
Oracle (from the wire and the request outcomes only): never two unacknowledged CONs to one
endpoint; first transmissions in submission order; every request transmitted or failed; NONs and
other endpoints undelayed.
"""
import msglayer_gen as G
import msglayer_props as P
from common import load_corpus

RULE = ("(oracle-only part: the same random interleavings with a window in which sendmsg() to one endpoint "
        "raises, i.e. transport errors reported synchronously during first transmissions, retransmissions and "
        "backlog release - outside the Lean model, judged by the oracle) boundary scripts (3 CON + 1 NON to A, 1 CON to B with ACK/RST/piggyback/silence/error variants) + "
        "random interleavings of 2-8 submits to 1-3 endpoints. Non-trivial: at least one message was held "
        "back (first transmission later than its submission); distinct by concrete trace.")
TRUSTED = ["virtual-clock event loop and fake-socket UDP stack of the harness (vloop.py, netsim.py)"]
ASSUMPTIONS = ["asyncio timer order as on the virtual clock"]


def scripts(env):
    out = [c["script"] for _, c in load_corpus("C14") if "script" in c]
    out += G.c14_boundary() + G.c14_send_raises()
    out += [G.c14_random(env.rng) for _ in range(env.scale(150, 4000))]
    out += [G.c14_sendfail(env.rng) for _ in range(env.scale(120, 3000))]
    return out


def nontrivial(res):
    subs = P.submits(res)
    for s in P.sends(res):
        r = s["body"] - 100
        if 1 <= s["code"] < 32 and r in subs and s["tick"] > subs[r][1]:
            return True
    return False


def run(env, rep):
    env.import_repo()
    P.check_scripts(env, rep, "C14", scripts(env), P.oracle_c14, nontrivial)


def replay(env, case):
    env.import_repo()
    import msglayer
    res = msglayer.run_script(case["script"])
    res["wire"] = [(t, d, b.hex()) for (t, d, b) in res["wire"]]
    res["script"] = case["script"]
    bad = res["errors"] + res["loop_exceptions"]
    return (bad[0] if bad else "") or P.oracle_c14(res)
