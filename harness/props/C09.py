"""C09 — every request gets exactly one final response reflecting the handler outcome.

One case = one server context (the REAL `Context` + real `resource.Site` + generated
`resource.Resource` subclasses, created by `Context.create_server_context` on the real udp6
stack over the fake socket, virtual clock) and a timed list of request datagrams from up to four
scripted peers, with handlers that finish at once, after a while (before / at / after the empty
ACK), never, or get overridden by a new request on the same token while they run.

Correspondence (model ~ code): the case is translated into the input schedule of the Lean model
(`D` deliver / `C` handler coroutine ends / `S` stop) and the model's outputs — per tick the
`send_message` calls of the token manager with token, code, payload and No-Response value, removals
from `incoming_requests`, cancellations reaching running handlers, log records at WARNING and
above by kind; plus the multiset of response datagrams that reach the wire — are diffed with what
the real stack did.

A second level serves the same sites and schedules over CoAP-over-TCP: `Context.create_server_context(
transports=["tcpserver"])` with the real `TCPServer` / `TcpConnection` on fake asyncio transports (`c09_tcp`),
response sizes on every RFC 8323 length boundary; the model then composes the rendering side with C15's model
of the TCP token interface and the diff covers every byte the server writes after its CSM.

Oracle (independent; written from the property text, uses only the case and the datagrams on the
fake socket, resp. the messages the harness's own RFC 8323 reader finds in the connections' byte streams): per (peer, token) the first transmissions carrying a response code are exactly the
expected ones (count, code, payload), 5.00 for failures has an empty payload, no datagram
contains any of the secret markers put into exception texts / wrong return values, nothing
escapes into the event loop or the transport.
"""
import copy

import c09_run
import c09_tcp
import vloop
from common import compare, load_corpus, HarnessError

RULE = ("case = site (none | 1..5 generated resources at paths of 0..3 segments, each with handlers for a "
        "random subset of GET/POST/PUT/DELETE/FETCH/PATCH/iPATCH) + 1..40 request datagrams (CON/NON, "
        "codes 1..7 and unassigned 8..31, known/unknown paths, tokens of 0..8 bytes, No-Response "
        "absent/0/2/8/16/24/26/127) from 4 peers at ticks that make handlers overlap; handler outcome = "
        "returns a message (code absent / any response code / a code that is no response code: EMPTY, request, "
        "class 1/6/7; own No-Response; the same Message object as last time) | raises one of the "
        "RenderableError classes of error.py (with and without diagnostic) or a harness subclass | "
        "raises one of 20 other exceptions with a secret text (two of them outside the Exception hierarchy) | returns None/str/int/bytes/dict/list/"
        "tuple/float/object/type (also from a resource with its own render() and no blockwise assembly, "
        "where the value reaches the pipe unchecked) | raises a renderable error whose to_message raises / "
        "returns None / returns a str or tuple | "
        "raises CancelledError | returns a message that cannot be serialised (oracle only) | never returns; delay 0, 1, EMPTY_ACK_DELAY-1/+0/+1, longer; a request "
        "may reuse the token of one still running (stop), whose handler then dies, raises or returns "
        "anyway; peers ACK separate responses at once, after one retransmission, or RST them. "
        "Boundary tables enumerated in full: methods x code given/absent x CON/NON; every renderable "
        "class; every exception / wrong-return / failing-renderer kind; No-Response values x response "
        "classes; delays around the empty ACK; override reactions; codes outside the response classes (returned and "
        "rendered); one pre-built response object handed out to CON, NON and slow requests in turn. TCP level: the "
        "same tables with every peer a CoAP-over-TCP connection (CSM with 1 MiB / default message size), plus "
        "response bodies (options + marker + payload) of 0,2,3,11..15,267..271,65803..65807 bytes x token lengths "
        "0..8 x (returned payload quick/slow, diagnostic of a library / own renderable error, ETag + payload) next to "
        "failing handlers, and random cases with sizes drawn around those boundaries. Non-trivial: at least one "
        "response on the wire and one non-2.xx outcome or two requests in flight at once.")
TRUSTED = ["virtual-clock event loop and fake-socket UDP stack of the harness (vloop.py, netsim.py)",
           "fake asyncio transports and the harness's own RFC 8323 framing code (c09_tcp.py); loop.create_server "
           "replaced by a function handing the protocol factory to the harness",
           "harness-side instrumentation of instances (recording dict for incoming_requests, wrapper on "
           "the TokenManager's token_interface.send_message, logging handler, task factory)"]
ASSUMPTIONS = [
    "KeyboardInterrupt / SystemExit / GeneratorExit raised by a handler are not exceptions of the request: asyncio "
    "ends the loop (the task) with them; every other exception class, inside or outside the Exception hierarchy, is generated",
    "requests carry no Block1/Block2/Observe options and responses fit one message (C06/C08 cover those); over TCP "
    "the limit is what the peer's CSM allows (aiocoap's maximum_payload_size, read from the connection)",
    "resources answer through render / render_<method>; a resource implementing render_to_pipe itself is the "
    "responding side of the pipe protocol (returning without an event is how the library's own OSCORE wrapper stays silent)",
    "a response object handed out again is not in use by the message layer any more (its CON exchange has ended)",
    "a RenderableError's repr() and to_message() are the only application code run while converting it "
    "(either failing, or to_message returning anything but a message with a response code, is a failing renderer)",
    "peers acknowledge separate CON responses (otherwise the message layer gives up on the peer, C03)",
]

EAD = None      # EMPTY_ACK_DELAY in ticks, read from the implementation in run()

# the oracle's own table (RFC 7252 §12.1.2 names) of the classes error.py defines: code, default text
RENDERABLE = {
    "BadRequest": (128, ""), "Unauthorized": (129, ""), "BadOption": (130, ""), "Forbidden": (131, ""),
    "NotFound": (132, ""), "MethodNotAllowed": (133, ""), "NotAcceptable": (134, ""),
    "RequestEntityIncomplete": (136, ""), "Conflict": (137, ""), "PreconditionFailed": (140, ""),
    "RequestEntityTooLarge": (141, ""), "UnsupportedContentFormat": (143, ""),
    "UnprocessableEntity": (150, ""), "TooManyRequests": (157, ""), "InternalServerError": (160, ""),
    "NotImplemented": (161, ""), "BadGateway": (162, ""), "ServiceUnavailable": (163, ""),
    "GatewayTimeout": (164, ""), "ProxyingNotSupported": (165, ""), "HopLimitReached": (168, ""),
    "ConstructionRenderableError": (160, ""),
    "NoResource": (132, "Error: Resource not found!"),
    "UnallowedMethod": (133, "Error: Method not allowed!"),
    "UnsupportedMethod": (133, "Error: Method not recognized!"),
    "NoRequestInterface": (165, "Error: No CoAP transport available for this scheme on any request interface."),
}
# classes whose constructor does not take the diagnostic (NoResource.__init__ takes none; in
# NoRequestInterface RuntimeError.__init__ comes first in the MRO): raised without arguments
FIXED_TEXT = ("NoResource", "NoRequestInterface")
# codes a message can carry that are no response codes: EMPTY, requests, classes 1, 6, 7 (boundaries of 2.00..5.31)
NON_RESPONSE_CODES = [0, 1, 2, 31, 32, 63, 192, 224, 225, 255]
# lengths of options + payload marker + payload at which the RFC 8323 framing changes its form (and neighbours)
TCP_BODY_LENGTHS = [0, 2, 3, 11, 12, 13, 14, 15, 267, 268, 269, 270, 271, 65803, 65804, 65805, 65806, 65807]
PATHS = [[], ["a"], ["b"], ["a", "b"], ["x", "y", "z"], ["r1"], ["sensors", "temp"], ["0"]]
NR_VALUES = [None, None, None, 0, 2, 8, 16, 24, 26, 127]


def hx(b):
    return b.hex() if b else "-"


# --------------------------------------------------------------------------- case -> model line

def outcome_token(h):
    o = h["o"]
    if o == "ret":
        if h.get("etag") is not None:
            return None          # the model's responses carry no options of their own: judged by the oracle only
        return "r.%s.%s.%s" % ("-" if h["code"] is None else h["code"],
                               ("78*%d" % h["fill"]) if "fill" in h else (h["payload"] or "-"),
                               "-" if h["nr"] is None else h["nr"])
    if o == "rend":
        code, text = rend_code_text(h)
        return "e.%d.%s" % (code, ("65*%d" % h["fill"]) if "fill" in h else hx(text.encode()))
    if o == "exc":
        return "x." + hx(c09_run.secret(h["k"]).encode())
    if o == "nonmsg":
        return "n." + hx(c09_run.secret(h["k"]).encode())
    if o == "rfail":
        if h["how"] == "unenc":
            return None          # fails only when sent, see "unenc"
        return "z" if h["how"] == "none" else "q." + hx(c09_run.secret(h["k"]).encode())
    if o == "unenc":
        return None              # the model has no "sending raises" path: judged by the oracle only
    if o == "cancel":
        return "c"
    if o == "hang":
        return "h"
    raise HarnessError("unknown outcome " + o)


def rend_code_text(h):
    """code and diagnostic text a `rend` outcome stands for (the oracle's own table, not aiocoap's)"""
    if h["cls"] in ("Direct", "Custom"):
        code = h["code"]
        text = h["msg"] if h["msg"] is not None else h.get("default", "")
    else:
        code, default = RENDERABLE[h["cls"]]
        text = default if (h["msg"] is None or h["cls"] in FIXED_TEXT) else h["msg"]
    if "fill" in h:
        text = "e" * h["fill"]
    return code, text


def is_tcp(case):
    return case.get("transport") == "tcp"


def find_handler(case, rq):
    """(site?, resource?, handler?) as the case describes them — no aiocoap code involved"""
    if case["site"] is None:
        return None
    for r in case["site"]:
        if list(r["path"]) == list(rq["path"]) and not r.get("site_only"):
            return r
    return False


def schedule(case, stops=()):
    """The model's input events [(tick, phase, seq, text)] and per-request bookkeeping."""
    evs = []
    info = []
    live = {}           # (remote, token) -> id of the request registered under that key
    for i, rq in enumerate(case["requests"]):
        res = find_handler(case, rq)
        h = None
        if res:
            h = res["handlers"].get(str(rq["code"]))
        if h is None:
            done_at = rq["t"]
        elif h["o"] == "hang":
            done_at = None
        else:
            done_at = rq["t"] + h.get("d", 0)
        key = (rq["remote"], rq["token"])
        stopped_at = None
        old = live.get(key)
        if old is not None:
            oi = info[old]
            if oi["stopped_at"] is None and (oi["done_at"] is None or oi["done_at"] > rq["t"]):
                oi["stopped_at"] = rq["t"]
                evs.append((rq["t"], 0, old, "S@%d:%d" % (rq["t"], old)))
                if oi["h"] is not None and oi["h"].get("stubborn") and oi["h"]["o"] != "hang":
                    evs.append((rq["t"], 2, old, "C@%d:%d" % (rq["t"], old)))
                    oi["completes"] = rq["t"]
                else:
                    oi["completes"] = None
        live[key] = i
        info.append({"h": h, "res": res, "done_at": done_at, "stopped_at": stopped_at,
                     "completes": done_at})
        evs.append((rq["t"], 1, i, "D@%d:%d:%d:%s:%s:%s" % (
            rq["t"], i, rq["code"], "/".join(rq["path"]), rq["token"] or "-",
            "-" if rq["nr"] is None else rq["nr"])))
    for i, inf in enumerate(info):
        if inf["stopped_at"] is None and inf["done_at"] is not None:
            evs.append((inf["done_at"], 2, i, "C@%d:%d" % (inf["done_at"], i)))
    for (tick, rid) in stops:          # RSTs of the peers: stop() on a pipe that has ended
        evs.append((tick, 0, rid, "S@%d:%d" % (tick, rid)))
    evs.sort(key=lambda e: (e[0], e[1], e[2]))
    return evs, info


def model_line(case, evs, obs=None):
    parts = ["C09"]
    if is_tcp(case):
        # the largest payload the peers' CSM lets a response carry in one message (beyond it the block-wise layer
        # takes over, C06): aiocoap's policy, read from the connections like EMPTY_ACK_DELAY is from the tuning
        parts.append("tcp.%d" % min(obs["max_payload"].values()))
    parts.append("nosite" if case["site"] is None else "site")
    for r in case["site"] or []:
        if r.get("site_only"):
            continue                        # an empty nested site: nothing is registered there
        hs = ",".join("%s=%s" % (m, outcome_token(h)) for m, h in sorted(r["handlers"].items(), key=lambda x: int(x[0])))
        parts.append("res:%s:%s" % ("/".join(r["path"]), hs))
    parts.append("--")
    parts += [e[3] for e in evs]
    return " ".join(parts)


def impl_string(evs, obs):
    ticks = []
    for e in evs:
        if not ticks or ticks[-1] != e[0]:
            ticks.append(e[0])
    groups = {t: [] for t in ticks}
    stray = []
    for (tick, item) in obs["notes"]:
        if tick in groups:
            groups[tick].append(item)
        else:
            stray.append("STRAY@%d:%s" % (tick, item))
    if obs["wire"] and obs["wire"][0]["mtype"] == "TCP":
        wire = [w["raw"] for w in obs["wire"]]        # every message the server wrote after its CSM, byte for byte
    else:
        wire = ["%s:%d:%s" % (w["token"] or "-", w["code"], w["payload"] or "-")
                for w in obs["wire"] if 64 <= w["code"] < 192 and not w["retransmission"]]
    out = "|".join(";".join(sorted(groups[t])) for t in ticks)
    if stray:
        out += "|" + ";".join(sorted(stray))
    return out + " # " + ";".join(sorted(wire))


# --------------------------------------------------------------------------- oracle

def default_success(method):
    # "Content" for GET/FETCH, "Deleted" for DELETE, "Changed" for anything else
    return {1: 69, 5: 69, 4: 66}.get(method, 68)


def no_response_suppresses(nr, code):
    """RFC 7967 §2.1: bit 1 (value 2) 2.xx, bit 3 (8) 4.xx, bit 4 (16) 5.xx"""
    if nr is None:
        return False
    cls = code >> 5
    return bool(nr & {2: 2, 4: 8, 5: 16}.get(cls, 0))


def expected(case, rq, inf):
    """what the property text promises for this request: (kind, code, payload|None) or None"""
    if inf["stopped_at"] is not None:
        return None                                   # the peer asked again on this token
    if case["site"] is None:
        return ("nosite", 132, None)
    if inf["res"] is False:
        return ("unknown-path", 132, None)
    h = inf["h"]
    if h is None:
        return ("no-method", 133, None)
    o = h["o"]
    if o == "hang":
        return None
    if o == "ret":
        code = h["code"] if h["code"] is not None else default_success(rq["code"])
        if not 64 <= code < 192:
            # a message that is no response (request code, empty, signalling) answers nothing: as unusable as a
            # value that is no message at all
            return ("badcode", 160, b"")
        nr = h["nr"] if h["nr"] is not None else rq["nr"]
        if no_response_suppresses(nr, code):
            return None
        return ("ret", code, c09_run.ret_payload(h))
    if o == "rend":
        code, text = rend_code_text(h)
        if not 64 <= code < 192:
            return ("rfail", 160, b"")                # an error renderer that produces no response has failed
        return ("rend", code, text.encode())
    if o == "unenc" and h.get("how") == "uncopyable":
        return ("ret", 69, b"ok")                     # a message that can be sent is sent -- once
    return (o, 160, b"")                              # exc / nonmsg / rfail / cancel / unenc: bare 5.00


def oracle(case, obs):
    """-> (verdict, key); ('', None) when the property holds on this observation"""
    for e in obs["errors"]:
        return "exception escaped into the transport: " + e, "escape:transport"
    for e in obs["task_errors"]:
        return "a rendering task died with " + e, "escape:task:" + e.split(":")[0]
    for e in obs["loop_exceptions"]:
        return "exception reached the event loop: " + e, "escape:loop"
    for w in obs["wire"]:
        if c09_run.SECRET in bytes.fromhex(w["payload"]) or any(c09_run.SECRET in bytes.fromhex(v) for _, v in w["options"]):
            return ("exception text / wrong return value leaked into a datagram to peer %d: code %d payload %r"
                    % (w["remote"], w["code"], bytes.fromhex(w["payload"]))), "leak"
    # RFC 7252 2.2 / 4.2 / 5.2: a response travels piggy-backed in the ACK of its CON request (same Message ID),
    # or as a message of its own (CON/NON); an ACK that acknowledges nothing is ignored by the client, so a
    # response sent that way is not a final response at all
    con_reqs = {(rq["remote"], rq["mid"]): rq["token"] for rq in case["requests"] if rq["mtype"] == "CON"}
    for w in obs["wire"]:
        if 64 <= w["code"] < 192 and w.get("mtype") in ("ACK", "RST"):
            if w["mtype"] == "RST" or con_reqs.get((w["remote"], w["mid"])) != w["token"]:
                return ("response %d for token %s to peer %d went out as %s with Message ID %d, which is not the "
                        "Message ID of that peer's confirmable request on the token"
                        % (w["code"], w["token"] or "-", w["remote"], w["mtype"], w["mid"])), "mtype:stray-ack"
    return judge_responses(case, obs)


def short(x):
    """payloads in verdict texts: long ones by length and beginning"""
    if isinstance(x, (bytes, bytearray)):
        return repr(bytes(x)) if len(x) <= 48 else "<%d bytes %r...>" % (len(x), bytes(x[:12]))
    if isinstance(x, (list, tuple)):
        return "[" + ", ".join(short(y) for y in x) + "]" if isinstance(x, list) else \
            "(" + ", ".join(short(y) for y in x) + ")"
    return repr(x)


def judge_responses(case, obs):
    """count, code and payload of the final responses per (peer, token) against the property's table"""
    _, info = schedule(case)
    want = {}
    kinds = {}
    for rq, inf in zip(case["requests"], info):
        key = (rq["remote"], rq["token"])
        want.setdefault(key, [])
        e = expected(case, rq, inf)
        if e is not None:
            want[key].append(e)
        kinds.setdefault(key, []).append(inf["h"]["o"] if inf["h"] else "none")
    got = {}
    for w in obs["wire"]:
        if 64 <= w["code"] < 192 and not w["retransmission"]:
            got.setdefault((w["remote"], w["token"]), []).append((w["code"], bytes.fromhex(w["payload"])))
    for key in set(got) | set(want):
        g = sorted(got.get(key, []))
        e = want.get(key, [])
        tag = "+".join(sorted(set(kinds.get(key, ["?"]))))
        if len(g) != len(e):
            return ("peer %d token %s: %d final response(s) on the wire %s, the property promises %d %s"
                    % (key[0], key[1] or "-", len(g), short(g), len(e), short([(x[1], x[2]) for x in e]))), "count:" + tag
        if sorted(c for c, _ in g) != sorted(x[1] for x in e):
            return ("peer %d token %s: response codes %r, expected %r"
                    % (key[0], key[1] or "-", [c for c, _ in g], [x[1] for x in e])), "code:" + tag
        # payloads: match each expected one that specifies a payload
        rest = list(g)
        for (kind, code, pay) in sorted(e, key=lambda x: x[2] is None):
            cands = [x for x in rest if x[0] == code and (pay is None or x[1] == pay)]
            if not cands:
                return ("peer %d token %s: the %s response %d should carry payload %s, got %s"
                        % (key[0], key[1] or "-", kind, code, short(pay), short([x for x in rest if x[0] == code]))), "payload:" + kind
            rest.remove(cands[0])
    return "", None


def oracle_tcp(case, obs):
    """the same reading of the property for requests served over CoAP-over-TCP: the messages are what this
    harness's own RFC 8323 reader finds in the byte stream the server wrote to each connection"""
    for e in obs["errors"]:
        return "exception escaped into the transport: " + e, "escape:transport"
    for e in obs["task_errors"]:
        return "a rendering task died with " + e, "escape:task:" + e.split(":")[0]
    for e in obs["loop_exceptions"]:
        return "exception reached the event loop: " + e, "escape:loop"
    for pr in obs["problems"]:
        # a stream that cannot be read, a connection the server gave up or aborted: one request's outcome has
        # taken the answers of all the others on that connection with it
        return "over TCP: " + pr, "tcp:stream"
    for w in obs["wire"]:
        if c09_run.SECRET in bytes.fromhex(w["payload"]) or any(c09_run.SECRET in bytes.fromhex(v) for _, v in w["options"]):
            return ("exception text / wrong return value leaked into a message to peer %d: code %d payload %r"
                    % (w["remote"], w["code"], bytes.fromhex(w["payload"])[:60])), "leak"
        if not 64 <= w["code"] < 192:
            return ("the server wrote a message with code %d (no response) and token %s to peer %d"
                    % (w["code"], w["token"] or "-", w["remote"])), "tcp:non-response"
    v, k = judge_responses(case, obs)
    if v:
        return "over TCP: " + v, k
    # options a handler put on its message travel with it
    _, info = schedule(case)
    for rq, inf in zip(case["requests"], info):
        h = inf["h"]
        if h is not None and h["o"] == "ret" and h.get("etag") is not None and expected(case, rq, inf) is not None:
            for w in obs["wire"]:
                if (w["remote"], w["token"]) == (rq["remote"], rq["token"]) and (4, h["etag"]) not in \
                        [tuple(o) for o in w["options"]]:
                    return ("over TCP: peer %d token %s: the returned message's ETag %s is not on the response (options %r)"
                            % (rq["remote"], rq["token"] or "-", h["etag"], w["options"])), "options:ret"
    return "", None


# --------------------------------------------------------------------------- generation

class Gen:
    def __init__(self, rng):
        self.rng = rng
        self.k = 0
        self.mid = {}
        self.tok = 0

    def secret_k(self):
        self.k += 1
        return self.k

    def token(self, n=None):
        """a fresh token (distinct within the case) of n bytes, by default 1..8"""
        self.tok += 1
        if n == 0:
            return ""
        if n is None:
            n = self.rng.choice([1, 1, 2, 2, 3, 4, 8, 8])
        return (self.tok * 2654435761 % (1 << (8 * n))).to_bytes(n, "big").hex() if n < 8 else \
            (self.tok * 0x9E3779B97F4A7C15 % (1 << 64)).to_bytes(8, "big").hex()

    def next_mid(self, remote):
        m = self.mid.get(remote, 100 + 1000 * remote)
        self.mid[remote] = m + 1
        return m

    def handler(self, kind=None, d=None):
        rng = self.rng
        if kind is None:
            kind = rng.choice(["ret", "ret", "ret", "rend", "rend", "exc", "exc", "nonmsg", "rfail",
                               "cancel", "hang"])
        if d is None:
            d = rng.choice([0, 0, 0, 1, 977, EAD - 1, EAD, EAD + 1, 3 * EAD, 5 * EAD + 13])
        h = {"o": kind, "d": 0 if kind == "hang" else d, "stubborn": rng.random() < 0.3}
        if kind == "ret":
            h["code"] = rng.choice([None, None, None, None, 65, 66, 67, 68, 69, 95, 128, 132, 160, 163, 64, 191,
                                    rng.choice(NON_RESPONSE_CODES)])
            h["payload"] = rng.choice(["", "6869", rng.randbytes(rng.randrange(1, 40)).hex(),
                                       rng.randbytes(rng.choice([200, 1000, 1024])).hex()])
            h["nr"] = rng.choice([None, None, None, None, 0, 2, 8, 16, 26])
        elif kind == "rend":
            cls = rng.choice(sorted(RENDERABLE) + ["Direct", "Custom"])
            h["cls"] = cls
            h["msg"] = rng.choice([None, "diag %d" % rng.randrange(100), "", "Grüße ✓"])
            if cls == "Direct":
                h["code"] = rng.choice([128, 132, 143, 160, 165, 95, 2])
                h["msg"] = h["msg"] or "direct"
            if cls == "Custom":
                h["code"] = rng.choice([129, 159, 191, 64, 0, 1])
                h["default"] = "custom default"
        elif kind == "exc":
            h["exc"] = rng.choice(c09_run.EXC_KINDS)
            h["k"] = self.secret_k()
        elif kind == "nonmsg":
            h["val"] = rng.choice(c09_run.NONMSG_KINDS)
            h["k"] = self.secret_k()
        elif kind == "rfail":
            h["how"] = rng.choice(c09_run.RFAIL_KINDS)
            h["k"] = self.secret_k()
        elif kind == "unenc":
            h["how"] = rng.choice(["payload", "option"])
            h["k"] = self.secret_k()
        return h

    def request(self, t, remote, code, path, mtype=None, nr="rand", token=None, mc=False):
        rng = self.rng
        return {"t": t, "remote": remote, "mtype": mtype or rng.choice(["CON", "NON"]), "code": code,
                "path": list(path), "token": self.token() if token is None else token,
                "nr": rng.choice(NR_VALUES) if nr == "rand" else nr, "mid": self.next_mid(remote), "mc": mc}

    def random_case(self):
        rng = self.rng
        if rng.random() < 0.08:
            site = None
        else:
            site = []
            for path in rng.sample(PATHS, rng.randrange(1, 6)):
                methods = rng.sample(range(1, 8), rng.randrange(0, 6))
                site.append({"path": path, "handlers": {str(m): self.handler() for m in methods}})
                if rng.random() < 0.2:
                    site[-1]["direct"] = True
                    for h in site[-1]["handlers"].values():
                        if h["o"] == "nonmsg":
                            # a late wrong-type return after the request was overridden is only logged, and
                            # differently on this path (a "response after end" warning instead of a discarded
                            # exception): not part of the property, kept out of the comparison
                            h["stubborn"] = False
        reqs = []
        t = rng.randrange(0, 50)
        busy = {}          # (remote, token) -> tick until which the token is in use
        paths = [r["path"] for r in site or []] or [[]]
        for _ in range(rng.randrange(1, 17)):
            t += rng.choice([1, 1, 3, 977, EAD // 2, EAD, 2 * EAD + 5, 20 * EAD])
            remote = rng.randrange(4)
            path = rng.choice(paths) if rng.random() < 0.85 else rng.choice([["nope"], ["a", "nope"], []])
            have = [int(m) for r in site or [] if r["path"] == path for m in r["handlers"]]
            if have and rng.random() < 0.75:
                code = rng.choice(have)
            else:
                code = rng.choice([1, 1, 2, 3, 4, 5, 6, 7, rng.randrange(8, 32)])
            token = None
            # reuse a token: either of a request still in flight (override) or of a finished one
            if reqs and rng.random() < 0.15:
                prev = rng.choice(reqs)
                if prev["remote"] == remote or rng.random() < 0.5:
                    remote = prev["remote"]
                    token = prev["token"]
            rq = self.request(t, remote, code, path, token=token,
                              mc=(rng.random() < 0.04))
            if rq["mc"]:
                rq["mtype"] = "NON"
            reqs.append(rq)
        case = {"site": site, "requests": reqs,
                "peers": {str(r): rng.choice(["ack", "ack", "ack2", "rst"]) for r in range(4)}}
        return fix_collisions(case)


def random_tcp_case(gen):
    rng = gen.rng
    c = gen.random_case()
    csm = rng.choice(["big", "big", "plain"])
    for r in c["site"] or []:
        for h in r["handlers"].values():
            if h["o"] in ("ret", "rend") and rng.random() < 0.35:
                L = rng.choice([n for n in TCP_BODY_LENGTHS if csm == "big" or n < 1000])
                h["fill"] = max(L - 1 + rng.choice([0, 0, 0, -1, 1]), 0)
                if h["o"] == "rend" and h["cls"] in FIXED_TEXT:
                    del h["fill"]               # these classes take no diagnostic
    c = as_tcp(c, csm)
    c["peers"] = {}
    return c


def fix_collisions(case):
    """keep stop and completion of one request on different ticks (asyncio orders equal deadlines
    arbitrarily) and never override a request in the tick it arrives"""
    for _ in range(50):
        evs, info = schedule(case)
        bad = None
        seen = {}
        for i, (rq, inf) in enumerate(zip(case["requests"], info)):
            key = (rq["remote"], rq["token"])
            if key in seen:
                j = seen[key]
                pj, ij = case["requests"][j], info[j]
                if pj["t"] == rq["t"] or (ij["done_at"] is not None and ij["done_at"] == rq["t"] and ij["done_at"] != pj["t"]):
                    bad = i
                    break
            seen[key] = i
        if bad is None:
            return case
        for rq in case["requests"][bad:]:
            rq["t"] += 1
    raise HarnessError("could not separate stop and completion ticks")


def boundary_cases(gen):
    """explicit tables, enumerated in full in every tier"""
    cases = []
    rng = gen.rng
    M = list(range(1, 8))

    def pack(site, reqs, peers=None, **extra):
        cases.append(fix_collisions(dict({"site": site, "requests": reqs, "peers": peers or {}}, **extra)))

    # 1. method x code given/absent x CON/NON, plus unassigned request codes and unknown paths
    site = [{"path": ["d"], "handlers": {str(m): {"o": "ret", "d": 0, "stubborn": False, "code": None,
                                                  "payload": "6d%02x" % m, "nr": None} for m in M}},
            {"path": ["c"], "handlers": {str(m): {"o": "ret", "d": 0, "stubborn": False, "code": 67,
                                                  "payload": "", "nr": None} for m in M}},
            {"path": ["only", "get"], "handlers": {"1": {"o": "ret", "d": 0, "stubborn": False, "code": None,
                                                         "payload": "", "nr": None}}},
            {"path": ["empty"], "handlers": {}}]
    reqs = []
    t = 0
    for mt in ("CON", "NON"):
        for path in (["d"], ["c"], ["only", "get"], ["empty"], ["missing"], []):
            for code in M + [8, 9, 31]:
                t += 50
                reqs.append(gen.request(t, (t // 50) % 4, code, path, mtype=mt, nr=None))
    pack(site, reqs)
    # 1b. the same clauses below nested sites (one and two levels, with and without anything registered inside):
    # what is registered answers, every other address -- the nested site's own path with and without trailing
    # slash, paths below it, beside it -- gives 4.04, exceptions below a nested site give 5.00
    ret = lambda pl: {"o": "ret", "d": 0, "stubborn": False, "code": None, "payload": pl, "nr": None}
    site = [{"path": ["plain", "x"], "under": [1], "handlers": {"1": ret("01"), "2": ret("02")}},
            {"path": ["plain", "deeper", "y"], "under": [1, 2], "handlers": {"1": ret("03")}},
            {"path": ["plain", "deeper", "k"], "under": [1, 2],
             "handlers": {"1": {"o": "exc", "d": 0, "stubborn": False, "exc": "KeyError", "k": gen.secret_k()},
                          "2": {"o": "exc", "d": 0, "stubborn": False, "exc": "IndexError", "k": gen.secret_k()}}},
            {"path": ["bare", "nothing"], "under": [1], "site_only": True, "handlers": {}},
            {"path": ["top"], "handlers": {"1": ret("04"),
                                           "2": {"o": "exc", "d": 0, "stubborn": False, "exc": "KeyError",
                                                 "k": gen.secret_k()}}}]
    site = [r for r in site if not r.get("site_only")] + [r for r in site if r.get("site_only")]
    reqs = []
    t = 0
    for mt in ("CON", "NON"):
        for path in (["plain", "x"], ["plain"], ["plain", ""], ["plain", "x", ""], ["plain", "nope"],
                     ["plain", "deeper"], ["plain", "deeper", ""], ["plain", "deeper", "y"],
                     ["plain", "deeper", "k"], ["plain", "deeper", "zz"], ["plain", "deeper", "y", "z"],
                     ["bare"], ["bare", ""], ["bare", "nothing"], ["bare", "q"], ["top"], ["top", ""],
                     ["", "plain", "x"]):
            for code in (1, 2):
                t += 50
                reqs.append(gen.request(t, (t // 50) % 4, code, path, mtype=mt, nr=None))
    pack(site, reqs)
    # no site: every method
    reqs = [gen.request(10 + 20 * i, i % 4, code, path, mtype=mt, nr=nr)
            for i, (code, path, mt, nr) in enumerate(
                [(c, p, mt, nr) for c in M + [31] for p in ([], ["a"]) for mt in ("CON", "NON") for nr in (None, 26)])]
    pack(None, reqs)
    # 2. every renderable class, with and without diagnostic, GET and PUT
    site = []
    reqs = []
    t = 0
    for n, cls in enumerate(sorted(RENDERABLE) + ["Direct", "Custom"]):
        hs = {}
        for m, msg in ((1, None), (3, "diag-%d" % n), (2, "")):
            h = {"o": "rend", "d": 0, "stubborn": False, "cls": cls, "msg": msg}
            if cls == "Direct":
                h["code"], h["msg"] = 143, msg or "direct"
            if cls == "Custom":
                h["code"], h["default"] = 159, "custom default"
            hs[str(m)] = h
        site.append({"path": ["e", str(n)], "handlers": hs})
        for m in (1, 3, 2, 4):
            t += 40
            reqs.append(gen.request(t, n % 4, m, ["e", str(n)], nr=rng.choice([None, 8, 16, 26])))
    pack(site, reqs)
    # 3. every exception / wrong return / failing renderer kind / CancelledError, immediate and slow
    site = []
    reqs = []
    t = 0
    kinds = [("exc", "exc", k) for k in c09_run.EXC_KINDS] + [("nonmsg", "val", k) for k in c09_run.NONMSG_KINDS] + \
            [("rfail", "how", k) for k in c09_run.RFAIL_KINDS] + [("cancel", None, None)]
    for n, (o, field, val) in enumerate(kinds):
        hs = {}
        for m, d in ((1, 0), (2, 3 * EAD)):
            h = {"o": o, "d": d, "stubborn": False}
            if field:
                h[field] = val
                h["k"] = gen.secret_k()
            hs[str(m)] = h
        site.append({"path": ["f", str(n)], "handlers": hs})
        for m in (1, 2):
            t += 60
            reqs.append(gen.request(t, n % 4, m, ["f", str(n)], nr=rng.choice([None, None, 16, 26])))
    pack(site, reqs, {"0": "ack", "1": "ack2", "2": "rst", "3": "ack"})
    # 3b. every wrong return value from a resource with its own render() and no blockwise assembly (the value
    #     reaches the pipe unchecked), immediate and slow, CON and NON, next to healthy handlers
    site = []
    reqs = []
    t = 0
    for n, val in enumerate(c09_run.NONMSG_KINDS):
        hs = {"1": {"o": "nonmsg", "d": 0, "stubborn": False, "val": val, "k": gen.secret_k()},
              "2": {"o": "nonmsg", "d": 3 * EAD, "stubborn": False, "val": val, "k": gen.secret_k()},
              "3": {"o": "ret", "d": 0, "stubborn": False, "code": None, "payload": "6f6b", "nr": None},
              "4": {"o": "exc", "d": 0, "stubborn": False, "exc": "ValueError", "k": gen.secret_k()}}
        site.append({"path": ["w", str(n)], "handlers": hs, "direct": True})
        for m in (1, 2, 3, 4, 5):
            for mt in ("CON", "NON"):
                t += 60
                reqs.append(gen.request(t, n % 4, m, ["w", str(n)], mtype=mt, nr=None))
    pack(site, reqs)
    # 4. No-Response: request value x response class x the response's own value
    site = []
    reqs = []
    t = 0
    n = 0
    for code in (None, 69, 132, 160):
        for own in (None, 0, 2, 8, 26):
            site.append({"path": ["n", str(n)], "handlers": {"1": {"o": "ret", "d": 0, "stubborn": False,
                                                                    "code": code, "payload": "70", "nr": own},
                                                             "4": {"o": "ret", "d": 2 * EAD, "stubborn": False,
                                                                   "code": code, "payload": "", "nr": own}}})
            for nr in (None, 0, 2, 8, 16, 24, 26, 127):
                for m in (1, 4):
                    for mt in ("CON", "NON"):
                        t += 30
                        reqs.append(gen.request(t, (t // 30) % 4, m, ["n", str(n)], mtype=mt, nr=nr))
            n += 1
    pack(site, reqs)
    # 5. delays around the empty ACK x CON/NON x outcome, all in flight together
    site = []
    reqs = []
    for n, d in enumerate([0, 1, EAD - 1, EAD, EAD + 1, 2 * EAD, 7 * EAD]):
        site.append({"path": ["s", str(n)], "handlers": {
            "1": {"o": "ret", "d": d, "stubborn": False, "code": None, "payload": "73%02x" % n, "nr": None},
            "2": {"o": "exc", "d": d, "stubborn": False, "exc": "ValueError", "k": gen.secret_k()},
            "3": {"o": "rend", "d": d, "stubborn": False, "cls": "Conflict", "msg": "busy"},
            "5": {"o": "rfail", "d": d, "stubborn": False, "how": "raises", "k": gen.secret_k()}}})
    t = 0
    for mt in ("CON", "NON"):
        for n in range(7):
            for m in (1, 2, 3, 5):
                t += 11
                reqs.append(gen.request(t, (n + m) % 4, m, ["s", str(n)], mtype=mt, nr=None))
    pack(site, reqs, {"0": "ack", "1": "ack2", "2": "rst", "3": "ack"})
    # 6. a new request on the token of a running one: the old handler dies / raises / returns anyway
    site = []
    reqs = []
    t = 0
    n = 0
    for o in ("ret", "exc", "rend", "nonmsg", "rfail", "cancel", "hang"):
        for stubborn in (False, True):
            h = gen.handler(o, d=4 * EAD)
            h["stubborn"] = stubborn
            if o == "ret":
                h["nr"] = None
            site.append({"path": ["o", str(n)], "handlers": {"1": h, "2": {
                "o": "ret", "d": 0, "stubborn": False, "code": None, "payload": "6f6b", "nr": None}}})
            tok = gen.token()
            t += 10 * EAD
            reqs.append(gen.request(t, n % 4, 1, ["o", str(n)], mtype="CON", nr=None, token=tok))
            reqs.append(gen.request(t + EAD + 7, n % 4, 2, ["o", str(n)], mtype="CON", nr=None, token=tok))
            # and once more, later, when nothing is in flight on it
            reqs.append(gen.request(t + 6 * EAD, n % 4, 2, ["o", str(n)], mtype="NON", nr=None, token=tok))
            n += 1
    pack(site, reqs)
    # 7. several failing requests of ONE peer whose bare 5.00 responses overlap in the message layer: separate CON
    #    responses acknowledged only after a retransmission (or reset), the next failure before / after that
    #    retransmission, the failures being of the same or of different kinds; then a healthy slow request
    for policy in ("ack2", "ack", "rst"):
        for gap in (7, EAD + 5, 30 * EAD):
            for mts in (("CON", "CON", "CON"), ("CON", "NON", "CON"), ("NON", "CON", "NON")):
                site = [{"path": ["g"], "handlers": {
                    "1": {"o": "exc", "d": 3 * EAD, "stubborn": False, "exc": "ValueError", "k": gen.secret_k()},
                    "2": {"o": "nonmsg", "d": 2 * EAD, "stubborn": False, "val": c09_run.NONMSG_KINDS[0],
                          "k": gen.secret_k()},
                    "3": {"o": "rfail", "d": 2 * EAD + 9, "stubborn": False, "how": "raises", "k": gen.secret_k()},
                    "4": {"o": "exc", "d": 0, "stubborn": False, "exc": "KeyError", "k": gen.secret_k()},
                    "5": {"o": "ret", "d": 4 * EAD, "stubborn": False, "code": None, "payload": "736c6f77",
                          "nr": None}}}]
                for order in ((1, 2, 3, 4, 1, 5), (1, 2, 3, 1, 2, 5)):
                    reqs = []
                    t = 50
                    for i, m in enumerate(order):
                        reqs.append(gen.request(t, 1, m, ["g"], mtype=mts[i % 3], nr=None))
                        t += gap
                    pack(site, reqs, {"1": policy}, udp_only=True)
    # 8. a handler whose message cannot be serialised (str payload, option value out of range), quick and slow,
    #    CON and NON, with healthy slow requests of the same and of another peer in flight and afterwards:
    #    one bare 5.00 for it, and nobody else is affected (oracle only)
    for how, policy in (("payload", "ack"), ("option", "ack"), ("uncopyable", "ack"), ("payload", "ack2"),
                        ("uncopyable", "ack2")):
        # policy ack2: the peer acknowledges separate responses only at their first retransmission, so that the
        # slow unserialisable response has to wait in the queue behind an unacknowledged one
        for d in (0, 3 * EAD):
            for mt in ("CON", "NON"):
                site = [{"path": ["u"], "handlers": {
                    "1": {"o": "unenc", "d": d, "stubborn": False, "how": how, "k": gen.secret_k()},
                    "2": {"o": "ret", "d": 2 * EAD, "stubborn": False, "code": None, "payload": "736c6f77", "nr": None},
                    "3": {"o": "ret", "d": 0, "stubborn": False, "code": None, "payload": "6f6b", "nr": None}}}]
                reqs = [gen.request(50, 0, 2, ["u"], mtype="CON", nr=None),
                        gen.request(60, 0, 1, ["u"], mtype=mt, nr=None),
                        gen.request(70, 1, 1, ["u"], mtype=mt, nr=None),
                        gen.request(80, 0, 2, ["u"], mtype="CON", nr=None),
                        gen.request(90, 0, 3, ["u"], mtype="CON", nr=None),
                        gen.request(50 + 10 * EAD, 0, 2, ["u"], mtype="CON", nr=None),
                        gen.request(60 + 10 * EAD, 0, 3, ["u"], mtype="NON", nr=None)]
                pack(site, reqs, {"0": policy, "1": "ack"})
    # 8b. an error renderer whose rendering cannot be serialised, quick and slow, CON and NON, alone and with a
    #     separate response of the same peer unacknowledged
    for policy in ("ack", "ack2"):
        for d in (0, 3 * EAD):
            site = [{"path": ["v"], "handlers": {
                "1": {"o": "rfail", "d": d, "stubborn": False, "how": "unenc", "k": gen.secret_k()},
                "2": {"o": "ret", "d": 2 * EAD, "stubborn": False, "code": None, "payload": "736c6f77", "nr": None},
                "3": {"o": "ret", "d": 0, "stubborn": False, "code": None, "payload": "6f6b", "nr": None}}}]
            reqs = [gen.request(50, 0, 2, ["v"], mtype="CON", nr=None),
                    gen.request(60, 0, 1, ["v"], mtype="CON", nr=None),
                    gen.request(70, 1, 1, ["v"], mtype="NON", nr=None),
                    gen.request(90, 0, 3, ["v"], mtype="CON", nr=None),
                    gen.request(60 + 10 * EAD, 0, 3, ["v"], mtype="NON", nr=None)]
            pack(site, reqs, {"0": policy, "1": "ack"})
    # 9. a returned message (and an error renderer's message) whose code is no response code -- EMPTY, request
    #    codes, classes 1, 6 and 7, and the two ends of the response range for contrast -- quick and slow, CON and
    #    NON, then a healthy request of the same peer
    site = []
    reqs = []
    t = 0
    for n, code in enumerate(NON_RESPONSE_CODES + [64, 191]):
        site.append({"path": ["q", str(n)], "handlers": {
            "1": {"o": "ret", "d": 0, "stubborn": False, "code": code, "payload": "6f6f7073", "nr": None},
            "2": {"o": "ret", "d": 3 * EAD, "stubborn": False, "code": code, "payload": "", "nr": None},
            "3": {"o": "rend", "d": 0, "stubborn": False, "cls": "Custom", "msg": None, "code": code,
                  "default": "custom default"},
            "4": {"o": "rend", "d": 3 * EAD, "stubborn": False, "cls": "Direct", "msg": "direct", "code": code},
            "5": {"o": "ret", "d": 0, "stubborn": False, "code": None, "payload": "6f6b", "nr": None}}})
        for mt in ("CON", "NON"):
            for m in (1, 2, 3, 4, 5):
                t += 60
                reqs.append(gen.request(t, n % 4, m, ["q", str(n)], mtype=mt, nr=None))
    pack(site, reqs)
    # 10. a resource that hands out ONE pre-built Message object for every request (from two of its handlers, a
    #     quick and a slow one with the same default code): piggy-backed first, then to a NON request, to a CON
    #     request that has already got its empty ACK, piggy-backed again; the other order; two peers in turn.
    #     Every use ends (the peers acknowledge separate responses at once) before the next begins: an object
    #     handed out again while the message layer still retransmits it is the application changing a message the
    #     message layer owns (DESIGN section 7, position held with C03)
    for code in (None, 69):
        for first in ("CON", "NON"):
            site = [{"path": ["st"], "handlers": {
                "1": {"o": "ret", "d": 0, "stubborn": False, "code": code, "payload": "737461746963", "nr": None,
                      "shared": "page"},
                "5": {"o": "ret", "d": 3 * EAD, "stubborn": False, "code": code, "payload": "737461746963",
                      "nr": None, "shared": "page"}}}]
            order = [(1, first, 0), (1, "NON", 0), (5, "CON", 0), (1, "CON", 1), (5, "NON", 1), (1, "CON", 0),
                     (5, "CON", 1), (1, "NON", 1), (1, "CON", 1)]
            reqs = []
            t = 50
            for m, mt, peer in order:
                reqs.append(gen.request(t, peer, m, ["st"], mtype=mt, nr=None))
                t += 6 * EAD
            pack(site, reqs, {"0": "ack", "1": "ack"})
    return cases


def as_tcp(case, csm="big"):
    """the same site and schedule, the requests arriving over CoAP-over-TCP connections (one per peer)"""
    c = copy.deepcopy(case)
    c["transport"] = "tcp"
    c["csm"] = csm
    for rq in c["requests"]:
        rq["mc"] = False
        rq["mtype"] = "TCP"
    return fix_collisions(c)


def tcp_boundary_cases(gen, udp_cases):
    """the CoAP-over-TCP level, enumerated in full in every tier"""
    cases = []
    rng = gen.rng
    # T1. response sizes on the RFC 8323 framing boundaries x token lengths (Len and TKL share the first byte) x the
    #     kind of outcome the size comes from: returned payload (code absent / given, quick / slow), diagnostic of a
    #     raised renderable error (library class / own renderer); every failing kind next to them
    for csm, lengths in (("big", TCP_BODY_LENGTHS), ("plain", [n for n in TCP_BODY_LENGTHS if n < 1000])):
        site = []
        reqs = []
        t = 0
        for n, L in enumerate(lengths):
            fill = max(L - 1, 0)
            site.append({"path": ["z", str(L)], "handlers": {
                "1": {"o": "ret", "d": 0, "stubborn": False, "code": None, "fill": fill, "nr": None},
                "2": {"o": "rend", "d": 0, "stubborn": False, "cls": "BadRequest", "msg": "", "fill": fill},
                "5": {"o": "ret", "d": 3 * EAD, "stubborn": False, "code": 69, "fill": fill, "nr": None},
                "3": {"o": "rend", "d": 3 * EAD, "stubborn": False, "cls": "Custom", "msg": "", "fill": fill,
                      "code": 159, "default": "custom default"},
                "4": {"o": "exc", "d": 0, "stubborn": False, "exc": "ValueError", "k": gen.secret_k()},
                "6": {"o": "nonmsg", "d": 0, "stubborn": False, "val": "str", "k": gen.secret_k()},
                "7": {"o": "rfail", "d": 0, "stubborn": False, "how": "raises", "k": gen.secret_k()}}})
            for m, tkls in ((1, (0, 8)), (2, (0, 8)), (5, (1, 5)), (3, (2, 7)), (4, (0,)), (6, (3,)), (7, (8,))):
                for tkl in tkls:
                    t += 50
                    reqs.append(gen.request(t, (t // 50) % 4, m, ["z", str(L)], mtype="TCP", nr=None,
                                            token=gen.token(tkl)))
        cases.append(fix_collisions({"site": site, "requests": reqs, "peers": {}, "transport": "tcp", "csm": csm}))
    # T2. the same sizes made up of an option and a payload (ETag of 4 bytes: 5 bytes of options; oracle only)
    site = []
    reqs = []
    t = 0
    for L in [5] + [n for n in TCP_BODY_LENGTHS if n >= 7]:
        site.append({"path": ["y", str(L)], "handlers": {
            "3": {"o": "ret", "d": 0, "stubborn": False, "code": 68, "fill": max(L - 6, 0), "nr": None,
                  "etag": "a1b2c3d4"},
            "1": {"o": "ret", "d": 2 * EAD, "stubborn": False, "code": None, "fill": max(L - 6, 0), "nr": None,
                  "etag": "00ff00ff"}}})
        for m, tkl in ((3, 0), (3, 8), (1, 4)):
            t += 50
            reqs.append(gen.request(t, (t // 50) % 4, m, ["y", str(L)], mtype="TCP", nr=None, token=gen.token(tkl)))
    cases.append(fix_collisions({"site": site, "requests": reqs, "peers": {}, "transport": "tcp", "csm": "big"}))
    # T3. every boundary table of the UDP level that is not about the message layer (retransmission, overlapping
    #     separate responses): all outcomes x methods x paths x No-Response x delays x overrides, over TCP
    for c in udp_cases:
        if not c.get("udp_only"):
            cases.append(as_tcp(c, csm=rng.choice(["big", "plain"])))
    return cases


# --------------------------------------------------------------------------- run / replay

def observe(case):
    return c09_tcp.run_case(case) if is_tcp(case) else c09_run.run_case(case)


def judge(case, obs):
    return oracle_tcp(case, obs) if is_tcp(case) else oracle(case, obs)


def check_case(env, rep, case, lines, impls, kept):
    obs = observe(case)
    evs, info = schedule(case, obs["stops"])
    hs = [h for r in case["site"] or [] for h in r["handlers"].values()]
    if any(h["o"] == "unenc" or (h["o"] == "rfail" and h.get("how") == "unenc") for h in hs):
        rep.count("oracle-only:unencodable-response")
    elif any(h.get("etag") is not None for h in hs):
        rep.count("oracle-only:response-with-options")
    else:
        lines.append(model_line(case, evs, obs))
        impls.append(impl_string(evs, obs))
        kept.append(case)
    verdict, key = judge(case, obs)
    if verdict:
        rep.oracle_fail(case, verdict, key=key)
    rep.count("transport=" + ("tcp" if is_tcp(case) else "udp"))
    if is_tcp(case):
        # sizes of the bodies (options + marker + payload) the property promises, by RFC 8323 length form -- from
        # the case, not from what the implementation wrote
        for rq, inf in zip(case["requests"], info):
            e = expected(case, rq, inf)
            if e is not None and e[2] is not None:
                n = (1 + len(e[2]) if e[2] else 0) + (1 + len(inf["h"]["etag"]) // 2 if inf["h"] and inf["h"].get("etag") else 0)
                rep.count("tcp-len-form=" + ("nibble" if n < 13 else "8bit" if n < 269 else "16bit" if n < 65805 else "32bit"))
                if n in (12, 13, 268, 269, 65804, 65805):
                    rep.count("tcp-body-length=%d" % n)
    # distribution
    n_wire = sum(1 for w in obs["wire"] if 64 <= w["code"] < 192 and not w["retransmission"])
    kinds = set()
    overlap = False
    for rq, inf in zip(case["requests"], info):
        k = "nosite" if case["site"] is None else ("unknown-path" if inf["res"] is False else
                                                  ("no-method" if inf["h"] is None else inf["h"]["o"]))
        kinds.add(k)
        rep.count("outcome=" + k)
        rep.count("method=%d" % rq["code"] if rq["code"] < 8 else "method=unassigned")
        rep.count("type=" + rq["mtype"])
        if inf["h"] is not None and inf["h"]["o"] == "ret" and inf["h"]["code"] is not None \
                and not 64 <= inf["h"]["code"] < 192:
            rep.count("returned-code=non-response")
        if inf["h"] is not None and inf["h"].get("shared"):
            rep.count("shared-response-object")
        if inf["h"] is not None:
            d = inf["h"].get("d", 0)
            rep.count("delay=" + ("0" if d == 0 else "<ead" if d < EAD else "=ead" if d == EAD else ">ead"))
        if inf["stopped_at"] is not None:
            rep.count("overridden")
    spans = sorted((rq["t"], inf["done_at"] if inf["done_at"] is not None else 1 << 60)
                   for rq, inf in zip(case["requests"], info))
    for (a, b), (c, d) in zip(spans, spans[1:]):
        if c < b:
            overlap = True
    if overlap:
        rep.count("cases-with-concurrent-requests")
    rep.count("retransmissions", sum(1 for w in obs["wire"] if w["retransmission"]))
    nontriv = n_wire > 0 and (overlap or bool(kinds - {"ret"}))
    rep.case(case, nontrivial=nontriv, sample_every=40)
    return obs


def run(env, rep):
    global EAD
    env.import_repo()
    from aiocoap.numbers.constants import TransportTuning
    EAD = vloop.ticks(vloop.q(TransportTuning().EMPTY_ACK_DELAY))
    import aiocoap.error as E
    import inspect
    defined = {n for n, c in inspect.getmembers(E, inspect.isclass)
               if issubclass(c, E.RenderableError) and c is not E.RenderableError and c.__module__ == E.__name__}
    missing = defined - set(RENDERABLE)
    if missing:
        rep.notes.append("renderable classes without an entry in the oracle's table (not generated): %s" % sorted(missing))
    gone = set(RENDERABLE) - defined
    for g in gone:
        del RENDERABLE[g]
    gen = Gen(env.rng)
    cases = [c["case"] for _, c in load_corpus("C09") if "case" in c]
    ncorpus = len(cases)
    udp_tables = boundary_cases(gen)
    cases += udp_tables
    cases += tcp_boundary_cases(gen, udp_tables)
    nb = len(cases) - ncorpus
    cases += [gen.random_case() for _ in range(env.scale(1200, 25000))]
    cases += [random_tcp_case(gen) for _ in range(env.scale(250, 5000))]
    lines, impls, kept = [], [], []
    for case in cases:
        check_case(env, rep, case, lines, impls, kept)
        if len(lines) >= 500:
            compare(env, rep, kept, lines, impls, what="render")
            lines, impls, kept = [], [], []
    compare(env, rep, kept, lines, impls, what="render")
    rep.exhaustive_parts.append(
        "%d boundary cases: methods x code given/absent x CON/NON x paths; no site; every renderable class; "
        "every exception / wrong-return / failing-renderer kind; No-Response table; delays around the "
        "empty ACK; override reactions; returned / rendered codes outside the response classes; one response "
        "object handed out again; the same tables over CoAP-over-TCP plus response sizes on every RFC 8323 "
        "length boundary x token lengths x kind of outcome" % nb)
    for need in ("outcome=ret", "outcome=rend", "outcome=exc", "outcome=nonmsg", "outcome=rfail",
                 "outcome=cancel", "outcome=hang", "outcome=unknown-path", "outcome=no-method",
                 "outcome=nosite", "overridden", "delay=>ead", "retransmissions", "transport=tcp",
                 "returned-code=non-response", "shared-response-object", "tcp-body-length=12",
                 "tcp-body-length=13", "tcp-body-length=268", "tcp-body-length=269", "tcp-body-length=65804",
                 "tcp-body-length=65805", "tcp-len-form=32bit"):
        if not rep.hist.get(need):
            raise HarnessError("generator did not produce any " + need)


def replay(env, case):
    global EAD
    env.import_repo()
    from aiocoap.numbers.constants import TransportTuning
    EAD = vloop.ticks(vloop.q(TransportTuning().EMPTY_ACK_DELAY))
    return judge(case, observe(case))[0]
