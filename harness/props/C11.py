"""C11 — OSCORE: round trip, inner data hidden, responses bound, tampering detected.

Correspondence (model ≈ code), all through the real `aiocoap.oscore` (shims for
cbor2/cryptography/filelock) with the transparent AEAD of harness/c11_util.py, which is the
Lean instance `transparentAead`, so ciphertexts and therefore whole datagrams are compared
byte for byte:
  P  `CanProtect.protect` + `Message.encode`   vs Lean `protect` + `serialize`
  U  `Message.decode` + `CanUnprotect.unprotect` vs Lean `unprotect`
     (authentic messages, every kind of manipulated message, foreign request identifiers,
     other contexts' keys)
  S  several requests in a row through `unprotect` on ONE recipient context (replay window and
     echo_recovery included) vs Lean `sessionRun`: manipulated copies / forgeries naming the same
     key ID and Partial IV first, then the genuine request, then its replay; and the Echo
     recovery exchange of a recipient whose window is uninitialised (state lost)
  Z  `_uncompress` / `_compress`, N `_construct_nonce`, A external AAD + Encrypt0 structure
     on boundary tables and random (also malformed) values.
Oracle (independent reading of the property over what the implementation did; own RFC 8613
§6.1 option reader and RFC 7252 datagram reader, nothing shared with aiocoap or the model):
  round trip; outer datagram in front of the ciphertext carries only OSCORE / Uri-Host /
  Uri-Port / Proxy-* / Observe, an outer code POST/FETCH/2.04/2.05 and none of the unique
  markers placed in inner options and payload; a second message that agrees on the
  outer-visible fields yields the same outer bytes in front of the ciphertext; every
  manipulation that changes a value (ciphertext, Partial IV, KID, KID context, key, request
  identifiers) raises a ProtectionInvalid (sub)class — never another exception, never a message;
  a manipulation that only changes representation (stated: the KID context of a request removed;
  the recipient's own KID / KID context added to or removed from a response - RFC 8613 leaves
  these to the sender, none is in the AAD; NOT the KID of a request, which SHALL be present) may be
  accepted but then yields the original message; on one context, after any rejected copies the genuine request still yields
  the original; over a whole exchange INCLUDING the server's life before a crash (request answered,
  state lost, the same request replayed, Echo challenge, Echo completion, response) no (key, nonce)
  pair is handed to the AEAD for two encryptions (the transparent AEAD records them) - with a
  stream cipher two plaintexts under one pair reveal their XOR, i.e. inner data.
"""
from common import compare, load_corpus, HarnessError
import c11_util
from c11_util import rfc_parse_option, rfc_build_option, rfc_parse_datagram
import c11_fs

RULE = ("Scenarios = (algorithm/nonce length, client and server sender-ID lengths 0..7, ID "
        "context, master secret/salt, sender sequence numbers around every Partial-IV length "
        "boundary, a request built from the repo's option types with unique markers in every "
        "string/opaque inner option and the payload, up to three responses: first reusing the "
        "request nonce, later ones with their own Partial IV). Each scenario is run through the "
        "real protect/encode/decode/unprotect on both sides; then manipulated: all single-bit "
        "flips of OSCORE option and ciphertext (boundary scenarios: all bits, random scenarios: "
        "a sample), field-level rewrites of the option (PIV value/length, KID, KID context, "
        "flags, truncations, reserved values), truncated/extended ciphertext, other contexts' "
        "keys, responses paired with foreign request identifiers, and representation-only "
        "changes. Every scenario is also run as a session: a recipient context that keeps its replay "
        "window sees 1-4 rejected copies of the request (bit flip in ciphertext / tag, truncation, "
        "extension, same key ID and Partial IV under another context's keys, rewritten Partial IV) "
        "BEFORE the genuine request, then the genuine one and its replay; and as a crash history: "
        "request accepted and answered (nonce re-used), recipient state lost (window uninitialised, "
        "Echo recovery), the same request replayed -> 4.01 + Echo challenge -> request with the "
        "Echo value -> response, with every (key, nonce) pair handed to the AEAD collected over the "
        "whole history. Round 4: every single-bit change of the outer code byte and bytes appended to the "
        "OSCORE option for every request and response (the oracle's option reader is the strict RFC 8613 "
        "6.1 / 5 grammar: what it calls malformed must be refused); Proxy-Uri requests of every shape "
        "(5 authorities x 6 paths x 6 queries, schemes rotating; judged ONLY when protect() succeeds: no "
        "Uri-Path / Uri-Query / path or query marker / Proxy-Uri beyond scheme and authority outside, path "
        "and query back as Uri-Path / Uri-Query. The current code refuses every Proxy-Uri request in protect() "
        "(IncompleteUrlError - an availability defect outside the clauses), so on it this family judges NOTHING: "
        "the distribution counts proxy-uri:protect-refused against proxy-uri:judged, and the family only guards "
        "against a FUTURE repair of the refusal that leaks path or query); audit F: a request whose KID was "
        "removed from the option (with and without its KID context) is a must-fail case for every request "
        "scenario, also as a rejected copy in front of the genuine request on one context; what stays "
        "'representation' is stated: KID context of a request removed, the recipient's own KID / KID context "
        "added to or removed from a response; the lives of a process on the real "
        "FilesystemSecurityContext: killed or stopped after EVERY count k = 0..75 of protects of the first "
        "life, after k2 of the second, protecting again; orderly stops mixed in; other chunk "
        "configurations; start values around the Partial-IV length boundaries and the last number; random "
        "histories with notifications and Echo challenges - compared with the Lean sendRun, the oracle "
        "demanding that no Partial IV / (key, nonce) pair occurs twice over all lives and that one peer "
        "with a lasting replay window accepts every genuine message. "
        "Boundary table enumerated in full; random part from env.rng. A case is "
        "non-trivial when the message has inner options or payload and the step's outcome is "
        "determined by the property (accepted round trip / rejected manipulation).")
TRUSTED = ["system libcrypto (AES-CCM through ctypes) for the RFC 8613 appendix C replay only",
           "harness shims for cbor2/cryptography(HKDF)/filelock and the transparent AEAD "
           "(harness/c11_util.py), which stands in for the assumed AEAD laws"]
ASSUMPTIONS = ["AEAD: decryption inverts encryption; what decrypts under (key, nonce, aad) is the "
               "encryption of the returned plaintext under exactly (key, nonce, aad) (ideal "
               "integrity/commitment); tag at least tag_bytes long — hypotheses of the theorems, "
               "satisfied by the transparent instance, cryptographic strength of real AES-CCM not proved",
               "key derivation (HKDF) yields different keys for different contexts (checked on the "
               "generated contexts, not modelled)",
               "Group OSCORE, deterministic requests, appendix B.2 are out of model; Proxy-Uri splitting is oracle only",
               "crash histories of C11: the process dies BETWEEN operations (kill / orderly stop); a process dying inside "
               "_store, and I/O errors survived by the process, are C13's subject / outside the quantifier",
               "replay protection as such (at most once, window sizes, persistence) is C12's / C13's subject; "
               "here the window only matters for 'a rejected message consumes nothing' and for which "
               "request nonces may be re-used; single-message cases use fresh recipient windows"]

ALGS = [(10, 13), (10, 13), (10, 13), (24, 12), (1, 12), (12, 7)]
SEQS = [0, 1, 255, 256, 65535, 65536, (1 << 24) - 1, 1 << 24, (1 << 32) - 1, 1 << 32,
        (1 << 40) - 3, (1 << 40) - 2]
OUTER_ALLOWED = {9, 3, 7, 35, 39, 6}
OUTER_CODES = {2, 5, 68, 69}
INNER_REMOVED = {3, 7, 35, 39}


def hx(b):
    return b.hex() if b else "-"


def unhx(s):
    return b"" if s == "-" else bytes.fromhex(s)


def minbe(v):
    return v.to_bytes((v.bit_length() + 7) // 8, "big")


# --------------------------------------------------------------------------- generation

class Gen:
    def __init__(self, rng):
        self.rng = rng
        self.n = 0

    def marker(self, extra=0):
        self.n += 1
        r = self.rng
        body = bytes(r.choice(b"abcdefghijklmnopqrstuvwxyz") for _ in range(5 + extra))
        return b"M" + body + (b"%d" % (self.n % 10))

    def opaque(self, lo, hi):
        r = self.rng
        ln = r.randint(max(lo, 7), hi) if hi >= 7 else r.randint(lo, hi)
        if ln >= 7:
            m = self.marker()
            return m + bytes(r.randrange(256) for _ in range(ln - len(m)))
        return bytes(r.randrange(256) for _ in range(ln))

    def uint(self, maxbytes):
        r = self.rng
        return minbe(r.choice([0, 1, 23, 24, 255, 256, 65535, r.getrandbits(8 * maxbytes)])
                     % (1 << (8 * maxbytes)))

    def inner_options(self, request):
        """class-E options, sorted list of [number, raw hex]; markers in strings/opaques"""
        r = self.rng
        opts = []
        k = r.random()
        count = 0 if k < 0.08 else r.randint(1, 6)
        menu_req = [11, 11, 11, 15, 15, 12, 17, 1, 4, 5, 23, 27, 60, 252, 258, 292, 16, 28, 13]
        menu_resp = [12, 14, 4, 8, 8, 20, 23, 27, 28, 60, 252]
        for _ in range(count):
            n = r.choice(menu_req if request else menu_resp)
            if n in (11, 15, 8, 20):
                if r.random() < 0.05:
                    v = self.marker(r.choice([6, 7, 250, 264, 300]))   # extended length fields
                else:
                    v = self.marker(r.randint(0, 6))
            elif n in (1, 4):
                v = self.opaque(7, 8)
            elif n == 5:
                if any(o[0] == 5 for o in opts):
                    continue
                v = b""
            elif n in (252, 292):
                v = self.opaque(1, 12)
            elif n in (12, 17, 258, 16, 13):
                v = self.uint(1 if n in (258, 16) else 2)
            elif n in (14, 60, 28):
                v = self.uint(4)
            elif n in (23, 27):
                v = minbe((r.randrange(1 << 12) << 4) | (r.randrange(2) << 3) | r.randrange(7))
            else:
                v = b""
            if n in (12, 17, 14, 60, 28, 23, 27, 258, 16, 13, 252) and any(o[0] == n for o in opts):
                continue
            opts.append([n, v])
        if r.random() < 0.03:
            opts.append([9, self.opaque(7, 9)])            # an (unprocessed) OSCORE option inside
        if r.random() < 0.04:
            opts.append([65000 + r.randrange(3) * 2, self.opaque(7, 9)])   # unknown elective, 2-byte delta
        opts.sort(key=lambda o: o[0])
        return [[n, hx(v)] for n, v in opts]

    def request(self, kind=None):
        r = self.rng
        code = r.choice([1, 1, 1, 2, 3, 4, 5, 6, 7])
        opts = self.inner_options(True)
        outer = {}
        k = r.random() if kind is None else kind
        if k < 0.45:
            outer[3] = b"H" + self.marker(r.randint(0, 4))
        if r.random() < 0.25:
            outer[7] = minbe(r.choice([5683, 5684, 1, 65535, 61616]))
        if r.random() < 0.12:
            outer[39] = r.choice([b"coap", b"coaps+tcp", b"http"])
        ob = r.random()
        if ob < 0.2:
            outer[6] = b""                   # Observe: 0 (register)
        elif ob < 0.28:
            outer[6] = b"\x01"               # Observe: 1 (deregister)
        elif ob < 0.3:
            outer[6] = minbe(r.randrange(2, 1 << 24))
        allopts = [[n, bytes.fromhex(v) if v != "-" else b""] for n, v in opts] + \
            [[n, v] for n, v in outer.items()]
        allopts.sort(key=lambda o: o[0])
        p = r.random()
        payload = b"" if p < 0.3 else self.marker() + bytes(
            r.randrange(256) for _ in range(r.choice([0, 1, 5, 20, 60])))
        return {"code": code, "opts": [[n, hx(v)] for n, v in allopts], "payload": hx(payload)}

    def response(self, notification):
        r = self.rng
        code = r.choice([65, 67, 68, 69, 69, 69, 95, 128, 132, 160, 165])
        opts = self.inner_options(False)
        if notification and r.random() < 0.8:
            opts = sorted(opts + [[6, hx(minbe(r.randrange(1 << 24)))]], key=lambda o: o[0])
        p = r.random()
        payload = b"" if p < 0.25 else self.marker() + bytes(
            r.randrange(256) for _ in range(r.choice([0, 1, 5, 20, 60])))
        return {"code": code, "opts": opts, "payload": hx(payload)}

    def ids(self, lc, ls):
        r = self.rng
        while True:
            cid = bytes(r.randrange(256) for _ in range(lc))
            sid = bytes(r.randrange(256) for _ in range(ls))
            if cid != sid:
                return cid, sid

    def scenario(self, alg=None, lc=None, ls=None, idctx="rand", cseq=None, sseq=None,
                 nresp=None, flips="sample"):
        r = self.rng
        alg = alg or r.choice(ALGS)
        maxid = alg[1] - 6
        lc = r.randint(0, maxid) if lc is None else lc
        ls = r.randint(0, maxid) if ls is None else ls
        if lc == 0 and ls == 0:
            ls = 1
        cid, sid = self.ids(lc, ls)
        if idctx == "rand":
            k = r.random()
            idctx = None if k < 0.5 else bytes(r.randrange(256) for _ in range(
                r.choice([0, 1, 2, 8, 8, 16, 255])))
        nresp = r.choice([0, 1, 1, 2, 3]) if nresp is None else nresp
        req = self.request()
        observing = any(o[0] == 6 for o in req["opts"])
        resps = []
        for j in range(nresp):
            resp = self.response(notification=observing)
            oo = None
            if observing and r.random() < 0.7:
                oo = r.randrange(1 << 24)
            elif r.random() < 0.05:
                oo = r.randrange(1 << 24)
            resps.append({"msg": resp, "outer_observe": oo})
        return {
            "alg": list(alg), "cid": hx(cid), "sid": hx(sid),
            "idctx": None if idctx is None else hx(idctx),
            "secret": hx(bytes(r.randrange(256) for _ in range(r.choice([1, 16, 16, 32])))),
            "salt": hx(bytes(r.randrange(256) for _ in range(r.choice([0, 0, 8])))),
            "send_kid": r.random() < 0.25,
            "cseq": r.choice(SEQS + [r.randrange(1 << 40), r.randrange(1 << 16)]) if cseq is None else cseq,
            "sseq": r.choice(SEQS + [r.randrange(1 << 40), r.randrange(1 << 16)]) if sseq is None else sseq,
            "mtype": r.randrange(2), "mid": r.randrange(1 << 16),
            "token": hx(bytes(r.randrange(256) for _ in range(r.choice([0, 1, 2, 4, 8])))),
            "req": req, "resps": resps, "flips": flips,
        }


# --------------------------------------------------------------------------- running the code

class K:
    """bound aiocoap objects"""

    def __init__(self, aiocoap, oscore):
        self.aiocoap = aiocoap
        self.oscore = oscore
        self.Aead, self.Ctx = c11_util.make(oscore)
        from aiocoap.numbers.optionnumbers import OptionNumber
        self.OptionNumber = OptionNumber


def make_ctx(k, scn, role, alter=None):
    secret, salt = unhx(scn["secret"]), unhx(scn["salt"])
    idctx = None if scn["idctx"] is None else unhx(scn["idctx"])
    if alter == "secret":
        secret = secret[:-1] + bytes([secret[-1] ^ 1])
    elif alter == "salt":
        salt = salt + b"\x01"
    elif alter == "idctx-derivation":
        idctx = (idctx or b"") + b"\x00"
    alg = k.Aead(scn["alg"][0], scn["alg"][1])
    cid, sid = unhx(scn["cid"]), unhx(scn["sid"])
    if role == "c":
        c = k.Ctx(alg, cid, sid, idctx, secret, salt, scn["send_kid"])
    else:
        c = k.Ctx(alg, sid, cid, idctx, secret, salt, scn["send_kid"])
    if alter == "idctx-derivation":
        # same ID context on the wire / in the check, only the derived keys differ
        c.id_context = None if scn["idctx"] is None else unhx(scn["idctx"])
    return c


def build_message(k, spec):
    m = k.aiocoap.Message(code=spec["code"], payload=unhx(spec["payload"]))
    for n, v in spec["opts"]:
        m.opt.add_option(k.OptionNumber(n).create_option(decode=unhx(v)))
    return m


def opt_pairs(m, skip_observe=False):
    return [(int(o.number), o.encode()) for o in m.opt.option_list()
            if not (skip_observe and int(o.number) == 6)]


def msg_tokens(m):
    ops = opt_pairs(m)
    o = ",".join(f"{n}={hx(v)}" for n, v in ops) if ops else "-"
    return f"{int(m.code)} {o} {hx(m.payload)}"


def ctx_token(c):
    idc = "~" if c.id_context is None else hx(c.id_context)
    return (f"{c.alg_aead.value}:{c.alg_aead.iv_bytes}:{hx(c.sender_id)}:{hx(c.recipient_id)}:"
            f"{idc}:{hx(c.sender_key)}:{hx(c.recipient_key)}:{hx(c.common_iv)}:"
            f"{1 if c.responses_send_kid else 0}")


def rid_token(rid):
    if rid is None:
        return "~"
    return (f"{hx(rid.kid)}:{hx(rid.partial_iv)}:{1 if rid.can_reuse_nonce else 0}:"
            f"{int(rid.code_style.request)}")


def copy_rid(k, rid):
    r = k.oscore.RequestIdentifiers(rid.kid, rid.partial_iv, rid.can_reuse_nonce,
                                    rid.code_style.request)
    return r


def err_name(e):
    return "err:" + type(e).__name__


def do_protect(k, ctx, seq, msg, rid, scn, mid_off=0):
    """returns (impl_out, line, outer, rid_out, wire)"""
    ctx.sender_sequence_number = seq
    line = (f"C11 P {ctx_token(ctx)} {seq} {rid_token(rid)} {scn['mtype']} "
            f"{(scn['mid'] + mid_off) % 65536} {scn['token']} {msg_tokens(msg)}")
    try:
        outer, rid_out = ctx.protect(msg, rid)
    except Exception as e:
        return err_name(e), line, None, None, None
    outer.mid = (scn["mid"] + mid_off) % 65536
    outer.mtype = k.aiocoap.Type(scn["mtype"])
    outer.token = unhx(scn["token"])
    wire = outer.encode()
    out = f"ok {wire.hex()} {rid_token(rid_out)} {ctx.sender_sequence_number}"
    return out, line, outer, rid_out, wire


def canon_unprotected(msg, rid):
    obs = msg.opt.observe
    m2 = msg.copy()
    m2.opt.observe = None
    return (f"ok {int(msg.code)} {hx(m2.opt.encode())} {'~' if obs is None else obs} "
            f"{hx(msg.payload)} {rid_token(rid)}")


def do_unprotect(k, ctx, rid, wire):
    """decode the datagram and unprotect; returns (impl_out, line, msg|None, rid_out|None)"""
    inc = k.aiocoap.Message.decode(wire)
    line = f"C11 U {ctx_token(ctx)} {rid_token(rid)} {msg_tokens(inc)}"
    if hasattr(ctx, "fresh_window"):
        ctx.fresh_window()
    try:
        msg, rid_out = ctx.unprotect(inc, rid)
    except Exception as e:
        return err_name(e), line, None, None
    return canon_unprotected(msg, rid_out), line, msg, rid_out


def session_unprotect(k, ctx, wire):
    """one request through the real unprotect of a context that KEEPS its replay window;
    returns (canonical output, msg | None, rid | None, exception | None)"""
    inc = k.aiocoap.Message.decode(wire)
    try:
        msg, rid_out = ctx.unprotect(inc, None)
    except k.oscore.ReplayErrorWithEcho as e:
        return "err:ReplayErrorWithEcho " + rid_token(e.request_id), None, None, e
    except Exception as e:
        return err_name(e), None, None, e
    return canon_unprotected(msg, rid_out), msg, rid_out, None


def window_token(ctx):
    w = ctx.recipient_replay_window
    if not w.is_initialized():
        return "u"
    p = w.persist()
    return f"i:{p['index']}:{p['bitfield']}"


def session_line(k, ctx, win, wires):
    echo = "~" if ctx.echo_recovery is None else hx(ctx.echo_recovery)
    msgs = " ".join(msg_tokens(k.aiocoap.Message.decode(w)) for w in wires)
    return f"C11 S {ctx_token(ctx)} 32 {win} {echo} {msgs}"


def rewire(k, wire, oscore_value=None, payload=None, code=None, extra_opts=None):
    """rebuild a datagram with a replaced OSCORE option value / payload / code"""
    inc = k.aiocoap.Message.decode(wire)
    m = k.aiocoap.Message(code=inc.code if code is None else code)
    m.mid, m.mtype, m.token = inc.mid, inc.mtype, inc.token
    for o in inc.opt.option_list():
        if int(o.number) == 9 and oscore_value is not None:
            continue
        m.opt.add_option(o)
    if oscore_value is not None:
        m.opt.oscore = oscore_value
    for n, v in (extra_opts or []):
        m.opt.delete_option(k.OptionNumber(n))
        m.opt.add_option(k.OptionNumber(n).create_option(decode=v))
    m.payload = inc.payload if payload is None else payload
    return m.encode()


# --------------------------------------------------------------------------- oracle

def split_proxy_uri(uri):
    """RFC 3986 §3 / RFC 7252 §6.4, written for the oracle: (scheme, authority, [path segments], [query parts]) of an
    absolute URI with authority, percent-decoded; None when it has no such form"""
    if b"://" not in uri or b"#" in uri:
        return None
    scheme, rest = uri.split(b"://", 1)
    cut = min([i for i in (rest.find(b"/"), rest.find(b"?")) if i >= 0] or [len(rest)])
    authority, tail = rest[:cut], rest[cut:]
    path, _, query = tail.partition(b"?")
    has_query = b"?" in tail

    def pct(x):
        out, i = bytearray(), 0
        while i < len(x):
            if x[i:i + 1] == b"%" and len(x) >= i + 3 and all(c in b"0123456789abcdefABCDEF" for c in x[i + 1:i + 3]):
                out.append(int(x[i + 1:i + 3], 16))
                i += 3
            else:
                out.append(x[i])
                i += 1
        return bytes(out)
    segs = [] if path in (b"", b"/") else [pct(x) for x in path.split(b"/")[1:]]
    qs = [pct(x) for x in query.split(b"&")] if has_query and query else []
    return scheme, authority, segs, qs


def proxy_uri_of(spec):
    vs = [unhx(v) for n, v in spec["opts"] if n == 35]
    return vs[0] if vs else None


def marker_in(b):
    i = b.find(b"M")
    if i >= 0 and len(b) - i >= 7 and b[i + 1:i + 6].isalpha():
        return b[i:i + 7]
    return None


def spec_markers(spec, inner_only=True):
    ms = []
    pu = proxy_uri_of(spec)
    if pu is not None and split_proxy_uri(pu) is not None:
        # path and query of a Proxy-Uri are end-to-end data (RFC 8613 §4.1.3.3); scheme and authority are routing
        _, _, segs, qs = split_proxy_uri(pu)
        for x in segs + qs:
            if marker_in(x):
                ms.append(marker_in(x))
    for n, v in spec["opts"]:
        if inner_only and n in INNER_REMOVED:
            continue
        if n == 6:
            continue
        b = unhx(v)
        i = b.find(b"M")
        if i >= 0 and len(b) - i >= 7 and b[i + 1:i + 6].isalpha():
            ms.append(b[i:i + 7])
    p = unhx(spec["payload"])
    if len(p) >= 7:
        ms.append(p[:7])
    return ms


def oracle_outer(wire, spec):
    """the outer datagram reveals only what the property allows"""
    code, opts, payload, front = rfc_parse_datagram(wire)
    if code not in OUTER_CODES:
        return f"outer code {code} is not POST/FETCH/2.04/2.05"
    for n, _ in opts:
        if n not in OUTER_ALLOWED:
            return f"outer message carries option {n}"
    if not any(n == 9 for n, _ in opts):
        return "outer message has no OSCORE option"
    for m in spec_markers(spec):
        if m in front:
            return f"inner data {m!r} visible in the outer message"
    for n, v in opts:
        if n == 35:
            # an outer Proxy-Uri may name the next hop's target, not the resource: scheme and authority only
            sp = split_proxy_uri(v)
            if sp is None or sp[2] or sp[3] or b"?" in v:
                return f"outer Proxy-Uri {v!r} carries more than scheme and authority"
    return ""


def expected_inner(spec, is_request, outer_observe_added=None, seqno=None):
    """(code, [(num, raw)] without Observe, observe, payload) the recipient must obtain"""
    opts = [(n, unhx(v)) for n, v in spec["opts"] if not (is_request and n in INNER_REMOVED)]
    pu = proxy_uri_of(spec) if is_request else None
    if pu is not None and split_proxy_uri(pu) is not None:
        # RFC 8613 §4.1.3.3: the Proxy-Uri is split; its path and query travel inside as Uri-Path / Uri-Query
        _, _, segs, qs = split_proxy_uri(pu)
        opts = sorted([o for o in opts if o[0] not in (11, 15)] + [(11, x) for x in segs] + [(15, x) for x in qs],
                      key=lambda o: o[0])
    obs_in = [int.from_bytes(v, "big") for n, v in opts if n == 6]
    obs = obs_in[0] if obs_in else None
    if is_request:
        if obs != 0:
            obs = None           # RFC 8613 §4.1.3.5.1: only a registration is an observation
    elif outer_observe_added is not None:
        obs = -1 if seqno is None else seqno
    return spec["code"], [(n, v) for n, v in opts if n != 6], obs, unhx(spec["payload"])


def observed(msg):
    obs = msg.opt.observe
    return (int(msg.code), opt_pairs(msg, skip_observe=True), obs, msg.payload)


def oracle_roundtrip(msg, spec, is_request, outer_observe_added=None, seqno=None, what=""):
    if msg is None:
        return f"{what}: authentic message was not accepted"
    exp = expected_inner(spec, is_request, outer_observe_added, seqno)
    got = observed(msg)
    if got != exp:
        return f"{what}: unprotected message differs from the original: {got!r} != {exp!r}"
    return ""


def must_fail_option(kind, orig_opt, new_opt, expect_kid, expect_ctx, rid_kid, rid_piv, gen_id):
    """Does the rewritten OSCORE option change a *value* the property talks about?
    kind: 'req' or 'resp'.  Returns a reason string, or '' for representation-only."""
    p0 = rfc_parse_option(orig_opt)
    p1 = rfc_parse_option(new_opt)
    if p1 is None:
        return "malformed option"
    if p1["group"]:
        return "group flag"
    if p1["kid"] is not None and p1["kid"] != expect_kid:
        return "KID value changed"
    if p1["ctx"] is not None and p1["ctx"] != expect_ctx:
        return "ID context value changed"
    if kind == "req":
        if p1["kid"] is None:
            # RFC 8613 section 5: "[kid] SHALL be present in requests" - a request without one is not another
            # rendition of the message that was sent (audit F; formerly judged representation-only)
            return "KID removed from request"
        if p1["piv"] is None:
            return "Partial IV removed from request"
        if p1["piv"] != p0["piv"]:
            return "Partial IV of request changed"
        return ""

    def eff(p):
        if p["piv"] is not None:
            return (gen_id, int.from_bytes(p["piv"], "big"))
        return (rid_kid, int.from_bytes(rid_piv, "big"))
    if eff(p1) != eff(p0):
        return "Partial IV value / nonce source of response changed"
    return ""


def judge(out, must_fail, base_msg_out, what):
    """verdict for a manipulated message. `out` is the canonical impl output."""
    if out.startswith("ok "):
        if must_fail:
            return f"{what}: manipulated message was accepted ({must_fail})"
        # representation-only: must be the original message (rid/observe aside)
        a, b = out.split(" "), (base_msg_out or "").split(" ")
        if base_msg_out is None or (a[1], a[2], a[4]) != (b[1], b[2], b[4]):
            return f"{what}: representation-only change yielded a different message"
        return ""
    name = out[4:]
    if name not in ("ProtectionInvalid", "DecodeError", "ReplayError", "ReplayErrorWithEcho"):
        return f"{what}: raised {name} instead of a protection error"
    return ""


# --------------------------------------------------------------------------- scenario

class Sink:
    """collects (case, line, impl_out) and oracle verdicts"""

    def __init__(self, rep):
        self.rep = rep
        self.cases, self.lines, self.impl = [], [], []

    def add(self, case, line, out, verdict, key, nontrivial=True, tag=None):
        self.cases.append(case)
        self.lines.append(line)
        self.impl.append(out)
        if self.rep is not None:
            self.rep.case(case, nontrivial=nontrivial, sample_every=4000)
            if tag:
                self.rep.count(tag)
            self.rep.count("outcome=" + ("ok" if out.startswith("ok") else out))
            if verdict:
                self.rep.oracle_fail(case, verdict, key=key)
        self.last_verdict = verdict

    def oracle_only(self, case, verdict, key, tag=None):
        """a judgement over a whole history (no model line of its own)"""
        if self.rep is not None:
            self.rep.case(case, nontrivial=True, sample_every=4000)
            if tag:
                self.rep.count(tag)
            if verdict:
                self.rep.oracle_fail(case, verdict, key=key)
        self.last_verdict = verdict


def option_rewrites(orig, kind, expect_kid, expect_ctx, rng):
    """field-level rewrites of an OSCORE option value (list of (label, new value))"""
    p = rfc_parse_option(orig)
    out = []
    piv, kid, ctx = p["piv"], p["kid"], p["ctx"]

    def b(**kw):
        d = dict(piv=piv, kid=kid, ctx=ctx)
        d.update(kw)
        return rfc_build_option(**d)
    if piv is not None:
        v = int.from_bytes(piv, "big")
        for nv in (v + 1, v - 1 if v else 2, v ^ (1 << (8 * len(piv) - 1)), v + 256, 0 if v else 7):
            for ln in {len(piv), max(1, (nv.bit_length() + 7) // 8)}:
                if 0 <= nv < (1 << (8 * ln)) and ln <= 5:
                    out.append(("piv-value", b(piv=nv.to_bytes(ln, "big"))))
        if len(piv) < 5:
            out.append(("piv-leading-zero", b(piv=b"\0" + piv)))
            out.append(("piv-trailing-zero", b(piv=piv + b"\0")))
        if len(piv) > 1:
            out.append(("piv-shortened", b(piv=piv[1:])))
        out.append(("piv-removed", b(piv=None)))
        # reserved lengths 6 and 7 with enough bytes behind them
        for n in (6, 7):
            body = (b"\0" * (n - len(piv)) + piv)
            rest = orig[1 + len(piv):]
            out.append((f"piv-reserved-length-{n}", bytes([(orig[0] & 0xF8) | n]) + body + rest))
        # length announced but not present
        out.append(("piv-truncated", orig[:1 + len(piv) - 1] if len(orig) > 1 else orig))
        out.append(("piv-length-beyond-data", bytes([(orig[0] & 0xF8) | 5]) + orig[1:2]))
    else:
        out.append(("piv-added", b(piv=b"\x00")))
        out.append(("piv-added", b(piv=bytes([rng.randrange(1, 256)]))))
        out.append(("junk-after-empty-flags", b"\x00" + bytes([rng.randrange(256)])))
    if kid is not None:
        out.append(("kid-bit", b(kid=(bytes([kid[0] ^ 1]) + kid[1:]) if kid else b"\x01")))
        out.append(("kid-longer", b(kid=kid + b"\x00")))
        if kid:
            out.append(("kid-shorter", b(kid=kid[:-1])))
        out.append(("kid-removed", b(kid=None)))
        if ctx is not None:
            out.append(("kid-and-ctx-removed", b(kid=None, ctx=None)))
        out.append(("kid-flag-cleared-bytes-kept", bytes([orig[0] & ~0x08]) + orig[1:]))
    else:
        out.append(("kid-added-correct", b(kid=expect_kid)))
        out.append(("kid-added-wrong", b(kid=expect_kid + b"\x01")))
        out.append(("kid-added-wrong", b(kid=(bytes([expect_kid[0] ^ 0x80]) + expect_kid[1:])
                                         if expect_kid else b"\x00")))
    if ctx is not None:
        out.append(("ctx-bit", b(ctx=(bytes([ctx[0] ^ 1]) + ctx[1:]) if ctx else b"\x01")))
        if len(ctx) < 255:
            out.append(("ctx-longer", b(ctx=ctx + b"\x00")))
        if ctx:
            out.append(("ctx-shorter", b(ctx=ctx[:-1])))
        out.append(("ctx-removed", b(ctx=None)))
        # announced length exceeding the data
        i = 1 + (len(piv) if piv else 0)
        out.append(("ctx-length-beyond-data", orig[:i] + bytes([min(255, len(orig))]) + orig[i + 1:]))
        out.append(("ctx-length-byte-missing", orig[:i]))
    else:
        if expect_ctx is not None:
            out.append(("ctx-added-correct", b(ctx=expect_ctx)))
        out.append(("ctx-added-wrong", b(ctx=(expect_ctx or b"")[:200] + b"\x07")))
        out.append(("ctx-flag-without-length", bytes([(orig[0] if orig else 0) | 0x10]) +
                    (orig[1:1 + (len(piv) if piv else 0)] if orig else b"")))
    # bytes that belong to no announced field (RFC 8613 §6.1 leaves no room for them): behind the last field of
    # the option, as a flags byte without flags in front of nothing / of junk
    out.append(("bytes-appended", orig + b"\xaa"))
    out.append(("bytes-appended", orig + bytes([rng.randrange(256), rng.randrange(256)])))
    out.append(("zero-byte-appended", orig + b"\x00"))
    out.append(("option-00", b"\x00"))
    out.append(("lone-h-flag", b"\x10"))
    out.append(("group-flag", bytes([(orig[0] if orig else 0) | 0x20]) + orig[1:]))
    out.append(("reserved-bit-6", bytes([(orig[0] if orig else 0) | 0x40]) + orig[1:]))
    out.append(("reserved-bit-7", bytes([(orig[0] if orig else 0) | 0x80]) + orig[1:]))
    if orig:
        out.append(("option-emptied", b""))
    seen, res = set(), []
    for lab, v in out:
        if v != orig and v not in seen and len(v) < 270:
            seen.add(v)
            res.append((lab, v))
    return res


def bit_positions(nbytes, mode, rng, sample):
    total = nbytes * 8
    if mode == "all" or total <= sample:
        return list(range(total))
    return sorted(rng.sample(range(total), sample))


def flip(b, i):
    return b[:i // 8] + bytes([b[i // 8] ^ (0x80 >> (i % 8))]) + b[i // 8 + 1:]


def manipulations(k, scn, kind, j, wire, rid, opt_value, payload, expect_kid, expect_ctx,
                  gen_id, rng, only=None):
    """yields manipulation descriptors for one authentic datagram (request or j-th response)"""
    mode = scn.get("flips", "sample")
    if mode == "none":
        return
    ms = []
    for i in bit_positions(len(opt_value), mode, rng, 16):
        ms.append({"kind": "optbit", "i": i})
    for i in bit_positions(len(payload), mode, rng, 24):
        ms.append({"kind": "paybit", "i": i})
    for n in sorted({0, 1, 4, 5, len(payload) - 1, len(payload) // 3, 2 * len(payload) // 3}):
        if 0 <= n < len(payload):
            ms.append({"kind": "paytrunc", "n": n})
    ms.append({"kind": "payappend", "x": "00"})
    ms.append({"kind": "payappend", "x": hx(payload[-1:])})
    for lab, v in option_rewrites(opt_value, kind, expect_kid, expect_ctx, rng):
        ms.append({"kind": "optset", "label": lab, "v": hx(v)})
    for a in ("secret", "salt", "idctx-derivation"):
        ms.append({"kind": "key", "alter": a})
    if kind == "resp":
        kid, piv = rid.kid, rid.partial_iv
        v = int.from_bytes(piv, "big")
        foreign = [(kid, minbe(v + 1) or b"\0"), (kid, (minbe(v - 1) or b"\0") if v else b"\x01"),
                   (kid, b"\0" + piv), (kid + b"\x01", piv),
                   ((bytes([kid[0] ^ 1]) + kid[1:]) if kid else b"\x00", piv), (kid[:-1], piv) if kid else (b"\x05", piv)]
        for fk, fp in foreign:
            if (fk, fp) != (kid, piv) and len(fp) <= 5 and len(fk) <= scn["alg"][1] - 6:
                ms.append({"kind": "rid", "kid": hx(fk), "piv": hx(fp)})
        ms.append({"kind": "code", "code": 69 if wire[1] == 68 else 68})
    else:
        ms.append({"kind": "code", "code": 5 if wire[1] == 2 else 2})
        ms.append({"kind": "code", "code": 1})
    # every single-bit change of the outer code byte (the code travels unprotected: POST -> PUT / 2.02 / 0.00,
    # 2.04 -> 0.04 / 2.06 / 6.04, ...) and the other classes
    for c in sorted({wire[1] ^ (1 << b) for b in range(8)} | {0, 31, 32, 64, 191, 192, 255}):
        if c != wire[1] and {"kind": "code", "code": c} not in ms:
            ms.append({"kind": "code", "code": c})
    ms.append({"kind": "outeropt", "n": 3, "v": hx(b"other.example")})
    for m in ms:
        m.update({"on": kind, "j": j})
        yield m


def apply_manip(k, scn, art, m, sink, base_case):
    """run one manipulation against the receiving side; registers result in sink"""
    kind = m["on"]
    if kind == "req":
        wire, rid, role = art["req_wire"], None, "s"
        base_out = art["req_u_out"]
        expect_kid, gen_id = unhx(scn["cid"]), unhx(scn["cid"])
        rid_kid = rid_piv = None
    else:
        wire, role = art["resp_wires"][m["j"]], "c"
        rid = copy_rid(k, art["rid_c"])
        base_out = art["resp_u_outs"][m["j"]]
        expect_kid, gen_id = unhx(scn["sid"]), unhx(scn["sid"])
        rid_kid, rid_piv = rid.kid, rid.partial_iv
    expect_ctx = None if scn["idctx"] is None else unhx(scn["idctx"])
    code, opts, payload, _ = rfc_parse_datagram(wire)
    opt_value = [v for n, v in opts if n == 9][0]
    ctx = make_ctx(k, scn, role, alter=m.get("alter"))
    must_fail = ""
    t = m["kind"]
    check_same = True
    if t == "optbit":
        nv = flip(opt_value, m["i"])
        must_fail = must_fail_option(kind, opt_value, nv, expect_kid, expect_ctx, rid_kid, rid_piv, gen_id)
        w = rewire(k, wire, oscore_value=nv)
    elif t == "optset":
        nv = unhx(m["v"])
        must_fail = must_fail_option(kind, opt_value, nv, expect_kid, expect_ctx, rid_kid, rid_piv, gen_id)
        w = rewire(k, wire, oscore_value=nv)
    elif t == "paybit":
        must_fail = "ciphertext bit flipped"
        w = rewire(k, wire, payload=flip(payload, m["i"]))
    elif t == "paytrunc":
        must_fail = "ciphertext truncated"
        w = rewire(k, wire, payload=payload[:m["n"]])
    elif t == "payappend":
        must_fail = "ciphertext extended"
        w = rewire(k, wire, payload=payload + unhx(m["x"]))
    elif t == "key":
        must_fail = "other context's keys"
        # (equal keys for contexts that differ in secret, salt or ID context are not a harness problem but the
        # defect itself: the message is then accepted below, which the oracle reports)
        w = wire
    elif t == "rid":
        must_fail = "foreign request identifiers"
        rid = k.oscore.RequestIdentifiers(unhx(m["kid"]), unhx(m["piv"]), None,
                                          rid.code_style.request)
        w = wire
    elif t == "code":
        w = wire[:1] + bytes([m["code"]]) + wire[2:]       # the code byte of the datagram itself
    elif t == "outeropt":
        w = rewire(k, wire, extra_opts=[(m["n"], unhx(m["v"]))])
    else:
        raise HarnessError(f"unknown manipulation {t}")
    out, line, _, _ = do_unprotect(k, ctx, rid, w)
    what = f"{kind}[{m['j']}] {t} {m.get('label', '')}".strip()
    if t == "code" and kind == "req" and m["code"] not in (2, 5):
        # a request whose outer code is not one of the fixed outer codes is not a protected request
        must_fail = f"outer code {m['code']} of a request is neither POST nor FETCH"
    # (any other change of the unauthenticated outer code: refused with a protection error, or - RFC 8613 lets the
    # recipient ignore the outer code - accepted with exactly the original message; never another exception)
    verdict = judge(out, must_fail, base_out, what)
    tag = "manip:" + t + (":must-fail" if must_fail else ":representation")
    case = dict(base_case)
    case["manip"] = m
    key = "tamper:" + t + ":" + (m.get("label") or m.get("alter") or "") + ":" + \
        (out if not out.startswith("ok") else "accepted")
    sink.add(case, line, out, verdict, key, nontrivial=True, tag=tag)


def run_scenario(k, scn, sink, rng, manip=True, only_manip=None):
    """returns the list of oracle verdicts of the base steps (for replay)"""
    base = {"scn": scn}
    verdicts = []
    C = make_ctx(k, scn, "c")
    S = make_ctx(k, scn, "s")
    if C.sender_key == C.recipient_key or C.sender_key != S.recipient_key or \
            C.recipient_key != S.sender_key or C.common_iv != S.common_iv:
        raise HarnessError("derived keys of the two sides do not pair up")
    req = build_message(k, scn["req"])
    art = {}
    has_inner = bool(scn["req"]["payload"] != "-" or
                     any(n not in INNER_REMOVED for n, _ in scn["req"]["opts"]))
    out, line, outer, rid_c, wire = do_protect(k, C, scn["cseq"], req, None, scn)
    v = ""
    if outer is not None:
        v = oracle_outer(wire, scn["req"])
    sink.add(dict(base, step="protect-request"), line, out, v, "hiding:request:" + v[:40],
             nontrivial=has_inner, tag="step:protect-request")
    verdicts.append(v)
    if outer is None:
        art["protect_refused"] = out
        return verdicts, art
    art["rid_c"] = copy_rid(k, rid_c)
    art["req_wire"] = wire
    # non-interference: a different message agreeing on the outer-visible fields
    if scn.get("twin"):
        C2 = make_ctx(k, scn, "c")
        twin = build_message(k, scn["twin"])
        o2, l2, outer2, _, wire2 = do_protect(k, C2, scn["cseq"], twin, None, scn)
        v = ""
        if outer2 is None:
            v = "twin message could not be protected"
        else:
            f1 = rfc_parse_datagram(wire)[3]
            f2 = rfc_parse_datagram(wire2)[3]
            if f1 != f2:
                v = "outer bytes in front of the ciphertext depend on inner data"
        sink.add(dict(base, step="protect-twin"), l2, o2, v, "noninterference:request",
                 nontrivial=True, tag="step:protect-twin")
        verdicts.append(v)
    # server side
    out, line, msg, rid_s = do_unprotect(k, S, None, wire)
    v = oracle_roundtrip(msg, scn["req"], True, what="request")
    art["req_u_out"] = out
    sink.add(dict(base, step="unprotect-request"), line, out, v, "roundtrip:request",
             nontrivial=has_inner, tag="step:unprotect-request")
    verdicts.append(v)
    art["resp_wires"], art["resp_u_outs"] = [], []
    if msg is not None:
        for j, r in enumerate(scn["resps"]):
            resp = build_message(k, r["msg"])
            rid_before = rid_s
            out, line, outer_r, _, wire_r = do_protect(k, S, scn["sseq"] + j, resp, rid_before,
                                                       scn, mid_off=j + 1)
            # note: do_protect built its line before the call, i.e. with the rid state before
            v = oracle_outer(wire_r, r["msg"]) if outer_r is not None else ""
            sink.add(dict(base, step=f"protect-response-{j}"), line, out, v,
                     "hiding:response:" + v[:40], nontrivial=True, tag="step:protect-response")
            verdicts.append(v)
            if outer_r is None:
                art["resp_wires"].append(None)
                art["resp_u_outs"].append(None)
                continue
            own_piv = rfc_parse_option([vv for n, vv in rfc_parse_datagram(wire_r)[1] if n == 9][0])["piv"]
            if r["outer_observe"] is not None:
                wire_r = rewire(k, wire_r, extra_opts=[(6, minbe(r["outer_observe"]))])
            art["resp_wires"].append(wire_r)
            out, line, msg_r, _ = do_unprotect(k, C, copy_rid(k, art["rid_c"]), wire_r)
            v = oracle_roundtrip(msg_r, r["msg"], False, r["outer_observe"],
                                 None if own_piv is None else int.from_bytes(own_piv, "big"),
                                 what=f"response {j}")
            art["resp_u_outs"].append(out)
            sink.add(dict(base, step=f"unprotect-response-{j}"), line, out, v,
                     "roundtrip:response", nontrivial=True, tag="step:unprotect-response")
            verdicts.append(v)
    if not manip:
        return verdicts, art
    # manipulations
    expect_ctx = None if scn["idctx"] is None else unhx(scn["idctx"])
    targets = []
    if art.get("req_u_out", "").startswith("ok"):
        targets.append(("req", 0, art["req_wire"], None, unhx(scn["cid"])))
    for j, w in enumerate(art["resp_wires"]):
        if w is not None and (art["resp_u_outs"][j] or "").startswith("ok"):
            targets.append(("resp", j, w, art["rid_c"], unhx(scn["sid"])))
    for kind, j, w, rid, expect_kid in targets:
        code, opts, payload, _ = rfc_parse_datagram(w)
        opt_value = [vv for n, vv in opts if n == 9][0]
        for m in manipulations(k, scn, kind, j, w, rid, opt_value, payload, expect_kid,
                               expect_ctx, expect_kid, rng):
            apply_manip(k, scn, art, m, sink, base)
    return verdicts, art


# --------------------------------------------------------------------------- sessions on one context

MAXSEQ = (1 << 40) - 1


def forged_copies(k, scn, wire, rng):
    """rejected variants of the genuine request `wire` that name the same key ID and (all but the last) the same
    Partial IV: (label, datagram)"""
    code, opts, payload, _ = rfc_parse_datagram(wire)
    opt_value = [v for n, v in opts if n == 9][0]
    out = [("ciphertext-bit", rewire(k, wire, payload=flip(payload, rng.randrange(8 * len(payload))))),
           ("last-byte-bit", rewire(k, wire, payload=flip(payload, 8 * len(payload) - 1 - rng.randrange(8)))),
           ("truncated", rewire(k, wire, payload=payload[:max(1, len(payload) - 1 - rng.randrange(4))])),
           ("extended", rewire(k, wire, payload=payload + b"\0"))]
    other = make_ctx(k, scn, "c", alter="secret")
    wire2 = do_protect(k, other, scn["cseq"], build_message(k, scn["req"]), None, scn)[4]
    if wire2 is not None:
        out.append(("other-keys-same-kid-and-piv", wire2))
    p = rfc_parse_option(opt_value)
    v = int.from_bytes(p["piv"], "big")
    nv = v + 1 if v + 1 <= MAXSEQ else v - 1
    out.append(("piv-value", rewire(k, wire, oscore_value=rfc_build_option(
        piv=minbe(nv) or b"\0", kid=p["kid"], ctx=p["ctx"]))))
    # the genuine ciphertext behind an option without the KID (RFC 8613 section 5: SHALL be present): if that were
    # taken, it would consume the genuine request's number
    out.append(("kid-removed", rewire(k, wire, oscore_value=rfc_build_option(piv=p["piv"], kid=None, ctx=p["ctx"]))))
    return out


def play_session(k, scn, sess, sink):
    """C11, round trip after tampering: the messages of `sess` (rejected copies first, the genuine request at index
    `genuine`, its replay afterwards) through unprotect of ONE server context that keeps its replay window"""
    S = make_ctx(k, scn, "s")
    if sess["win"] != "i:0:0":
        _, i, b = sess["win"].split(":")
        S.recipient_replay_window.initialize_from_persisted({"index": int(i), "bitfield": int(b)})
    wires = [unhx(w) for w in sess["wires"]]
    outs, msgs = [], []
    for w in wires:
        o, m, _, _ = session_unprotect(k, S, w)
        outs.append(o)
        msgs.append(m)
    g = sess["genuine"]
    verdict = ""
    for i, (o, lab) in enumerate(zip(outs, sess["labels"])):
        if i < g:
            verdict = verdict or judge(o, lab, None, f"session copy {i} ({lab})")
        elif i == g:
            if msgs[i] is None:
                verdict = verdict or (f"the genuine request was refused ({o}) after the manipulated copies "
                                      f"{sess['labels'][:g]} had been rejected on the same context: rejecting a message "
                                      f"consumed its sequence number")
            else:
                verdict = verdict or oracle_roundtrip(msgs[i], scn["req"], True, what="request after rejected copies")
        elif lab == "replay" and o.startswith("ok"):
            verdict = verdict or "the replayed request was accepted a second time"
    case = {"scn": scn, "session": sess}
    sink.add(case, session_line(k, S, sess["win"], wires), " ; ".join(outs) + " | " + window_token(S), verdict,
             "session:" + (verdict.split(" (")[0][:60] if verdict else ""), nontrivial=True, tag="step:session-forgeries")
    return verdict


def make_session(k, scn, art, rng):
    wire = art["req_wire"]
    forged = forged_copies(k, scn, wire, rng)
    rng.shuffle(forged)
    chosen = forged[:rng.randint(1, 4)]
    start = scn["cseq"]
    if rng.random() < 0.5:
        win = "i:0:0"
    else:
        idx = max(0, start - rng.randrange(0, 20))
        bits = rng.getrandbits(32) & ~(1 << (start - idx)) & ~(1 << min(31, start + 1 - idx))
        win = f"i:{idx}:{bits}"
    labels = [lab for lab, _ in chosen] + ["genuine", "replay"]
    wires = [w for _, w in chosen] + [wire, wire]
    if rng.random() < 0.3:
        labels.append(forged[-1][0])
        wires.append(forged[-1][1])
    return {"win": win, "wires": [hx(w) for w in wires], "labels": labels, "genuine": len(chosen)}


def play_crash(k, scn, cr, sink):
    """C11, inner data hidden over a history with a crash: request accepted and answered, server state lost, the
    same request replayed -> Echo challenge -> request with the Echo value -> response.  Every (key, nonce) pair
    handed to the AEAD by the client, the server before and the server after the crash is collected."""
    verdicts = []
    if scn["cseq"] + 2 >= MAXSEQ or scn["sseq"] + 12 >= MAXSEQ:
        return verdicts
    oscore, Message = k.oscore, k.aiocoap.Message
    base = {"scn": scn, "crash": cr}
    e1, e2 = unhx(cr["echo1"]), unhx(cr["echo2"])
    C = make_ctx(k, scn, "c")
    out, line, outer, rid_c, wire = do_protect(k, C, scn["cseq"], build_message(k, scn["req"]), None, scn)
    if outer is None:
        return verdicts
    rid_c = copy_rid(k, rid_c)

    def note(step, line, out, v, key, tag):
        sink.add(dict(base, step=step), line, out, v, key, nontrivial=True, tag=tag)
        verdicts.append(v)

    # --- the server's first life: the request is accepted and answered (the response re-uses the request's nonce)
    S1 = make_ctx(k, scn, "s")
    S1.echo_recovery = e1
    o1, m1, rid1, _ = session_unprotect(k, S1, wire)
    note("crash:first-life-request", session_line(k, S1, "i:0:0", [wire]), o1 + " | " + window_token(S1),
         oracle_roundtrip(m1, scn["req"], True, what="request"), "roundtrip:request", "step:crash-first-life")
    if m1 is None:
        return verdicts
    rspec = scn["resps"][0]["msg"] if scn["resps"] else {"code": 69, "opts": [], "payload": hx(b"Mhelloo1")}
    out, line, outer_r, _, wire_r = do_protect(k, S1, scn["sseq"], build_message(k, rspec), rid1, scn, mid_off=1)
    note("crash:first-life-response", line, out, oracle_outer(wire_r, rspec) if outer_r is not None else "",
         "hiding:response", "step:crash-first-life")
    # --- the state is lost: same keys, sender numbers persisted ahead, replay window unknown, new Echo value
    S2 = make_ctx(k, scn, "s")
    S2.echo_recovery = e2
    S2.recipient_replay_window = oscore.ReplayWindow(32, lambda: None)
    S2.sender_sequence_number = scn["sseq"] + 10
    wires2, outs2 = [], []
    if cr.get("forged_first"):
        code, opts, payload, _ = rfc_parse_datagram(wire)
        bad = rewire(k, wire, payload=flip(payload, 8 * len(payload) - 1))
        wires2.append(bad)
        outs2.append(session_unprotect(k, S2, bad)[0])
    o2, m2, _, exc = session_unprotect(k, S2, wire)          # the request recorded before the crash, replayed
    wires2.append(wire)
    outs2.append(o2)
    v2 = "the request replayed after the recipient state was lost was accepted without an Echo exchange" \
        if m2 is not None else ""
    m3 = rid3 = rid_c2 = None
    if isinstance(exc, oscore.ReplayErrorWithEcho):
        rid_e = exc.request_id
        seq_before = S2.sender_sequence_number
        inner = Message(code=k.aiocoap.UNAUTHORIZED, echo=exc.echo)
        cspec = {"code": int(k.aiocoap.UNAUTHORIZED), "opts": [[252, hx(exc.echo)]], "payload": "-"}
        line = (f"C11 P {ctx_token(S2)} {seq_before} {rid_token(rid_e)} {scn['mtype']} "
                f"{(scn['mid'] + 2) % 65536} {scn['token']} {msg_tokens(inner)}")
        wire_c = None
        try:
            chal = exc.to_message()                           # the 4.01 + Echo the server sends
        except Exception as e:
            out = err_name(e)
        else:
            chal.mid, chal.mtype, chal.token = (scn["mid"] + 2) % 65536, k.aiocoap.Type(scn["mtype"]), unhx(scn["token"])
            wire_c = chal.encode()
            out = f"ok {wire_c.hex()} {rid_token(rid_e)} {S2.sender_sequence_number}"
        note("crash:echo-challenge", line, out, oracle_outer(wire_c, cspec) if wire_c else
             "the Echo challenge could not be protected", "hiding:challenge", "step:crash-challenge")
        if wire_c is not None:
            outU, lineU, msg_c, _ = do_unprotect(k, C, copy_rid(k, rid_c), wire_c)
            note("crash:challenge-at-client", lineU, outU, oracle_roundtrip(msg_c, cspec, False, what="Echo challenge"),
                 "roundtrip:challenge", "step:crash-challenge")
            # the client repeats the request with the Echo value under its next sequence number
            req2 = dict(scn["req"])
            req2["opts"] = sorted([o for o in scn["req"]["opts"] if o[0] != 252] + [[252, hx(e2)]], key=lambda o: o[0])
            out, line, outer2, rid_c2, wire2 = do_protect(k, C, scn["cseq"] + 1, build_message(k, req2), None, scn,
                                                          mid_off=3)
            note("crash:request-with-echo", line, out, oracle_outer(wire2, req2) if outer2 is not None else "",
                 "hiding:request", "step:crash-echo-request")
            if outer2 is not None:
                o3, m3, rid3, _ = session_unprotect(k, S2, wire2)
                wires2.append(wire2)
                outs2.append(o3)
                v2 = v2 or oracle_roundtrip(m3, req2, True, what="request carrying the Echo value")
                o4, m4, _, _ = session_unprotect(k, S2, wire)      # the old request once more: refused for good
                wires2.append(wire)
                outs2.append(o4)
                if m4 is not None:
                    v2 = v2 or "the old request was accepted after the Echo exchange had completed with a newer one"
    note("crash:second-life-requests", session_line(k, S2, "u", wires2),
         " ; ".join(outs2) + " | " + window_token(S2), v2, "session:crash:" + v2[:50], "step:crash-second-life")
    if m3 is not None:
        out, line, outer_r2, _, wire_r2 = do_protect(k, S2, S2.sender_sequence_number, build_message(k, rspec), rid3,
                                                     scn, mid_off=4)
        note("crash:second-life-response", line, out, oracle_outer(wire_r2, rspec) if outer_r2 is not None else "",
             "hiding:response", "step:crash-second-life")
        if outer_r2 is not None:
            own_piv = rfc_parse_option([vv for n, vv in rfc_parse_datagram(wire_r2)[1] if n == 9][0])["piv"]
            outU, lineU, msg_r, _ = do_unprotect(k, C, copy_rid(k, rid_c2), wire_r2)
            note("crash:second-life-response-at-client", lineU, outU,
                 oracle_roundtrip(msg_r, rspec, False, None, None if own_piv is None else int.from_bytes(own_piv, "big"),
                                  what="response after Echo recovery"), "roundtrip:response", "step:crash-second-life")
    # --- every (key, nonce) pair handed to an AEAD encryption over the whole history
    seen, v = {}, ""
    for who, ctx in (("client", C), ("server before the crash", S1), ("server after the crash", S2)):
        for e in ctx.alg_aead.log:
            if e[0] != "enc":
                continue
            pt, key, nonce = e[1], e[3], e[4]
            if (key, nonce) in seen and not v:
                who0, pt0 = seen[(key, nonce)]
                v = (f"inner data exposed: the {who} encrypted a message starting {pt[:3].hex()} under a (key, nonce) "
                     f"pair (nonce {nonce.hex()}) that the {who0} had already used for a message starting "
                     f"{pt0[:3].hex()}; with a stream cipher the two outer payloads reveal the XOR of the inner messages")
            seen.setdefault((key, nonce), (who, pt))
    sink.oracle_only(dict(base, step="crash:nonce-monitor"), v, "hiding:nonce-reuse", tag="step:crash-nonce-monitor")
    verdicts.append(v)
    return verdicts


def peer_last_number(k, gen, sink):
    """the receiving direction at the very last Partial IV: a peer may send 2^40-1 (ff ff ff ff ff), which aiocoap's
    own sender refuses to issue (it stops one short); the recipient must round-trip it like any other"""
    for lc, ls in ((1, 1), (0, 2), (7, 3)):
        scn = gen.scenario(alg=(10, 13), lc=lc, ls=ls, cseq=MAXSEQ, sseq=1, nresp=0, flips="none")
        peer_last_number_one(k, scn, sink)


def peer_last_number_one(k, scn, sink):
    class PeerCtx(k.Ctx):
        def new_sequence_number(self):
            n = self.sender_sequence_number
            self.sender_sequence_number += 1
            return n

    if True:
        idctx = None if scn["idctx"] is None else unhx(scn["idctx"])
        C = PeerCtx(k.Aead(10, 13), unhx(scn["cid"]), unhx(scn["sid"]), idctx, unhx(scn["secret"]), unhx(scn["salt"]))
        C.sender_sequence_number = MAXSEQ
        outer, _ = C.protect(build_message(k, scn["req"]), None)
        outer.mid, outer.mtype, outer.token = scn["mid"], k.aiocoap.Type(scn["mtype"]), unhx(scn["token"])
        wire = outer.encode()
        out, line, msg, _ = do_unprotect(k, make_ctx(k, scn, "s"), None, wire)
        sink.add({"scn": scn, "step": "peer-last-number"}, line, out,
                 oracle_roundtrip(msg, scn["req"], True, what="request with Partial IV 2^40-1"),
                 "roundtrip:request:last-number", nontrivial=True, tag="step:peer-last-number")


PU_SCHEMES = [b"coap", b"coaps", b"coap+tcp", b"coaps+tcp", b"coap+ws", b"coap", b"http"]


def proxy_uri_shapes(gen):
    """(label, uri builder) for every shape of a Proxy-Uri: the marker sits in path and query (end-to-end data)"""
    auths = [("name", lambda: b"px" + gen.marker().lower() + b".example"),
             ("name-port", lambda: b"px" + gen.marker().lower() + b".example:61616"),
             ("ipv4", lambda: b"192.0.2.7"),
             ("ipv6", lambda: b"[2001:db8::1]"),
             ("ipv6-port", lambda: b"[2001:db8::1]:5683")]
    paths = [("nopath", lambda: b""), ("slash", lambda: b"/"), ("seg", lambda: b"/P" + gen.marker()),
             ("segs", lambda: b"/a/b/P" + gen.marker()), ("emptyseg", lambda: b"//P" + gen.marker()),
             ("pct", lambda: b"/%50" + gen.marker() + b"%2Fx")]
    queries = [("noquery", lambda: b""), ("q", lambda: b"?Q" + gen.marker()),
               ("qq", lambda: b"?a=b&Q" + gen.marker()), ("qslash", lambda: b"?Q" + gen.marker() + b"/with/slashes"),
               ("qpct", lambda: b"?%51" + gen.marker() + b"=%26"), ("qempty", lambda: b"?")]
    for an, a in auths:
        for pn, p in paths:
            for qn, q in queries:
                yield f"{an}/{pn}/{qn}", (lambda sc, a=a, p=p, q=q: sc + b"://" + a() + p() + q())


def proxy_uri_scenarios(gen, rng, env):
    out = []
    for i, (label, build) in enumerate(proxy_uri_shapes(gen)):
        for scheme in (PU_SCHEMES if env.tier != "quick" else [PU_SCHEMES[i % len(PU_SCHEMES)]]):
            s = gen.scenario(alg=(10, 13), nresp=rng.choice([0, 0, 1]), flips="none")
            s["req"]["opts"] = sorted([o for o in s["req"]["opts"] if o[0] not in (3, 7, 39, 11, 15)] +
                                      [[35, hx(build(scheme))]], key=lambda o: o[0])
            s["proxy_uri_shape"] = label
            out.append(s)
    return out


def make_twin(gen, scn):
    """a request that agrees with scn['req'] on the outer-visible fields only"""
    req = scn["req"]
    other = gen.request(kind=1.0)
    keep = [o for o in req["opts"] if o[0] in (3, 6)]
    rest = [o for o in other["opts"] if o[0] not in (3, 6, 7, 39, 35)]
    # the dropped class-U options may differ too
    opts = sorted(keep + rest, key=lambda o: o[0])
    return {"code": other["code"], "opts": opts, "payload": other["payload"]}


# --------------------------------------------------------------------------- helper-level lines

def judge_z(oscore, v):
    """`_uncompress(v)` against the RFC 8613 §6.1 / §5 reader of the oracle: (canonical output, verdict, key)"""
    try:
        _, _, u, _ = oscore.CanUnprotect._uncompress(v, b"")
    except oscore.ProtectionInvalid as e:
        if rfc_parse_option(v) is not None:
            return err_name(e), f"_uncompress rejected well-formed option {v.hex()}", "uncompress:rejects-valid"
        return err_name(e), "", ""
    except Exception as e:
        return err_name(e), f"_uncompress({v.hex()}) raised {type(e).__name__} instead of a protection error", \
            "uncompress:" + type(e).__name__
    piv = u.get(oscore.COSE_PIV)
    kid = u.get(oscore.COSE_KID)
    ctx = u.get(oscore.COSE_KID_CONTEXT)
    grp = 1 if oscore.COSE_COUNTERSIGNATURE0 in u else 0
    try:
        back = hx(oscore.CanProtect._compress({}, dict(u), b"")[0])
    except ValueError:
        back = "~"

    def s(x):
        return "~" if x is None else hx(x)
    out = f"{s(piv)} {s(kid)} {s(ctx)} {grp} {back}"
    p = rfc_parse_option(v)
    if p is None:
        # bytes behind the announced fields, a flags byte without flags, a Partial IV with leading zeros, ...: an
        # option value that is not the encoding of the fields read from it - a changed option that is not noticed
        return out, f"_uncompress accepted the malformed option {v.hex()} as {out}", "uncompress:accepts-malformed"
    if (p["piv"], p["kid"], p["ctx"], p["group"]) != (piv, kid, ctx, bool(grp)):
        return out, f"_uncompress({v.hex()}) = {out}, RFC reader: {p}", "uncompress:differs-from-rfc"
    if back not in ("~", hx(v)):
        return out, f"_uncompress({v.hex()}) = {out}, which _compress encodes as {back}: two option values, one header", \
            "uncompress:not-injective"
    return out, "", ""



def helper_lines(k, env, rep):
    rng = env.rng
    oscore = k.oscore
    cases, lines, impl = [], [], []

    def add(case, line, out, tag):
        cases.append(case)
        lines.append(line)
        impl.append(out)
        rep.case(case, nontrivial=not out.startswith("err"), sample_every=3000)
        rep.count(tag)

    import inspect

    def sig_ok(fn, names):
        """internal helpers are probed only while they keep the signature the probe was written for;
        after a refactoring the end-to-end comparisons (P/U, which see the AAD and nonce through the
        transparent AEAD) still cover them"""
        try:
            ok = list(inspect.signature(fn).parameters) == names
        except (TypeError, ValueError):
            ok = False
        if not ok:
            rep.notes.append(f"helper probe skipped: signature of {getattr(fn, '__qualname__', fn)} changed")
            rep.count("helper:skipped")
        return ok

    z_ok = sig_ok(oscore.CanUnprotect._uncompress, ["option_data", "payload"]) and \
        sig_ok(oscore.CanProtect._compress, ["protected", "unprotected", "ciphertext"])
    n_ok = sig_ok(oscore.BaseSecurityContext._construct_nonce, ["self", "partial_iv_short", "piv_generator_id", "alg"])
    a_ok = sig_ok(oscore.BaseSecurityContext._extract_external_aad,
                  ["self", "message", "request_id", "local_is_sender"]) and \
        sig_ok(oscore.SymmetricEncryptionAlgorithm._build_encrypt0_structure, ["protected", "external_aad"])

    # Z: _uncompress/_compress
    zvals = [b"", b"\x10", b"\x11\x01", b"\x00", b"\x00\xff", b"\x08", b"\x09\x00", b"\x19\x05\x00",
             b"\x19\x05\x01\xaa", b"\x19\x05\x01\xaa\xbb", b"\x06" + b"\0" * 6, b"\x07" + b"\0" * 7,
             b"\x05\x01\x02\x03\x04", b"\x05\x01\x02\x03\x04\x05", b"\x20", b"\x40", b"\x80",
             b"\x18\x00", b"\x18\x01", b"\x10\xff" + b"a" * 254, b"\x10\xff" + b"a" * 255,
             b"\x1d" + b"\x01" * 5 + b"\x02ab" + b"kid", b"\x0e" + b"\0" * 6 + b"k",
             # bytes behind the announced fields / flags byte without flags / Partial IV not in its shortest form
             b"\x01\x05\xaa", b"\x00\xaa\xbb", b"\x02\x00\x05", b"\x01\x00", b"\x02\x00\x00", b"\x05\x00\x01\x02\x03\x04",
             b"\x0a\x00\x05\x01", b"\x11\x05\x01\x37\xaa", b"\x10\x00\xaa", b"\x20\xaa", b"\x21\x05\xaa", b"\x19\x05\x01\x37"]
    zvals = [unhx(c["z"]) for _, c in load_corpus("C11") if "z" in c] + zvals
    for fb in range(256):
        zvals.append(bytes([fb]))
        zvals.append(bytes([fb]) + bytes(rng.randrange(256) for _ in range(rng.randrange(0, 9))))
    for _ in range(env.scale(600, 20000)):
        r = rng.random()
        if r < 0.5:
            piv = bytes(rng.randrange(256) for _ in range(rng.randrange(0, 6))) or None
            kid = bytes(rng.randrange(256) for _ in range(rng.randrange(0, 8))) if rng.random() < 0.6 else None
            ctx = bytes(rng.randrange(256) for _ in range(rng.choice([0, 1, 3, 8]))) if rng.random() < 0.4 else None
            v = rfc_build_option(piv, kid, ctx, group=rng.random() < 0.1)
            if rng.random() < 0.3 and v:
                v = v[:rng.randrange(len(v))]
        else:
            v = bytes([rng.randrange(64)]) + bytes(rng.randrange(256) for _ in range(rng.randrange(0, 12)))
        zvals.append(v)
    for v in (zvals if z_ok else []):
        out, verdict, key = judge_z(oscore, v)
        if verdict:
            rep.oracle_fail({"z": hx(v)}, verdict, key=key)
        add({"z": hx(v)}, f"C11 Z {hx(v)}", out, "helper:Z")
        rep.count("Z:" + ("ok" if not out.startswith("err") else out))

    # N: _construct_nonce
    for ivb in ((7, 12, 13) if n_ok else ()):
        alg = k.Aead(10, ivb)
        civ = bytes(rng.randrange(256) for _ in range(ivb))
        ctx = k.Ctx(alg, b"", b"\x01", None, b"s", b"")
        ctx.common_iv = civ
        for idl in range(0, ivb - 6 + 2):
            for pl in range(0, 7):
                idb = bytes(rng.randrange(256) for _ in range(idl))
                piv = bytes(rng.randrange(256) for _ in range(pl))
                try:
                    out = hx(ctx._construct_nonce(piv, idb, alg))
                except Exception as e:
                    out = err_name(e)
                add({"n": [ivb, hx(civ), hx(piv), hx(idb)]},
                    f"C11 N {ivb} {hx(civ)} {hx(piv)} {hx(idb)}", out, "helper:N")

    # A: external AAD + Encrypt0 structure
    lens = [0, 1, 7, 23, 24, 25, 255, 256, 257, 65535, 65536]
    algs = [1, 10, 23, 24, 30, 255, 256, 65535, 65536]
    combos = [(a, kl, pl) for a in algs for kl in (0, 1, 7) for pl in (1, 5)] + \
        [(10, kl, pl) for kl in lens for pl in (0, 1, 5, 23, 24)] + [(10, 1, pl) for pl in lens]
    for a, kl, pl in (combos if a_ok else []):
        kid = bytes(rng.randrange(256) for _ in range(kl))
        piv = bytes(rng.randrange(256) for _ in range(pl))
        ctx = k.Ctx(k.Aead(a, 13), b"", b"\x01", None, b"s", b"")
        rid = oscore.RequestIdentifiers(kid, piv, None, k.aiocoap.POST)
        ext = ctx._extract_external_aad(None, rid, True)
        out = hx(oscore.SymmetricEncryptionAlgorithm._build_encrypt0_structure({}, ext))
        add({"a": [a, hx(kid), hx(piv)]}, f"C11 A {a} {hx(kid)} {hx(piv)}", out, "helper:A")
    compare(env, rep, cases, lines, impl, what="helpers")


# --------------------------------------------------------------------------- RFC 8613 vectors

RFC_SECRET = "0102030405060708090a0b0c0d0e0f10"
RFC_SALT = "9e7ca92223786340"
RFC_VECTORS = {
    # appendix C.4: request, client with empty sender id, sequence number 20
    "C.4": ("44015d1f00003974396c6f63616c686f737483747631",
            "44025d1f00003974396c6f63616c686f7374620914ff612f1092f1776f1c1668b3825e"),
    # appendix C.7: response reusing the request nonce
    "C.7": ("64455d1f00003974ff48656c6c6f20576f726c6421",
            "64445d1f0000397490ffdbaad1e9a7e7b2a813d3c31524378303cdafae119106"),
    # appendix C.8: response with its own Partial IV (server sequence number 0)
    "C.8": ("64455d1f00003974ff48656c6c6f20576f726c6421",
            "64445d1f00003974920100ff4d4c13669384b67354b2b6175ff4b8658c666a6cf88e"),
}


def rfc_vectors(k, env, rep):
    """Replay RFC 8613 appendix C.4/C.7/C.8 through the real protect()/unprotect() with real
    AES-CCM-16-64-128 (ctypes on libcrypto), compare the AAD / nonce the implementation handed
    to the algorithm with the model's, and flip every bit of the three protected messages."""
    import c11_aesccm
    if not c11_aesccm.available():
        rep.notes.append("libcrypto EVP interface not usable: RFC 8613 appendix C replay with real "
                         "AES-CCM skipped")
        return
    oscore, aiocoap = k.oscore, k.aiocoap
    log = []

    class RealCcm(oscore.AeadAlgorithm):
        value, key_bytes, tag_bytes, iv_bytes = 10, 16, 8, 13

        def encrypt(self, plaintext, aad, key, iv):
            log.append((bytes(aad), bytes(iv)))
            return c11_aesccm.encrypt(key, iv, aad, plaintext)

        def decrypt(self, ct, aad, key, iv):
            p = c11_aesccm.decrypt(key, iv, aad, ct)
            if p is None:
                raise oscore.ProtectionInvalid("Tag invalid")
            return p

    def ctx(role):
        a = (b"", b"\x01") if role == "c" else (b"\x01", b"")
        return k.Ctx(RealCcm(), a[0], a[1], None, bytes.fromhex(RFC_SECRET), bytes.fromhex(RFC_SALT))

    def fail(name, verdict):
        rep.oracle_fail({"rfc": name}, verdict, key="rfc8613:" + name)

    def outgoing(hexwire):
        m = aiocoap.Message.decode(bytes.fromhex(hexwire))
        m.direction = aiocoap.message.Direction.OUTGOING
        return m

    def finish(outer, like):
        outer.mid, outer.mtype, outer.token = like.mid, like.mtype, like.token
        return outer.encode()

    C, S = ctx("c"), ctx("s")
    if (C.sender_key.hex(), C.recipient_key.hex(), C.common_iv.hex()) != (
            "f0910ed7295e6ad4b54fc793154302ff", "ffb14e093c94c9cac9471648b4f98710",
            "4622d4dd6d944168eefb54987c"):
        fail("C.1.1", "derived keys / common IV differ from RFC 8613 C.1.1")
    wires = {}
    try:
        req = outgoing(RFC_VECTORS["C.4"][0])
        C.sender_sequence_number = 20
        outer, rid_c = C.protect(req)
        w4 = finish(outer, req)
        wires["C.4"] = (w4, None)
        msg, rid_s = S.unprotect(aiocoap.Message.decode(w4))
        if opt_pairs(msg) != [(11, b"tv1")] or int(msg.code) != 1:
            fail("C.4", "request vector does not unprotect to GET /tv1")
        resp = outgoing(RFC_VECTORS["C.7"][0])
        S.sender_sequence_number = 0
        o7, _ = S.protect(resp, rid_s)
        wires["C.7"] = (finish(o7, resp), rid_c)
        o8, _ = S.protect(resp, rid_s)
        wires["C.8"] = (finish(o8, resp), rid_c)
    except Exception as e:
        fail("exchange", f"RFC 8613 appendix C exchange raised {type(e).__name__}: {e}")
    for name, (w, rid) in wires.items():
        rep.case({"rfc": name}, nontrivial=True)
        rep.count("rfc-vector")
        if w.hex() != RFC_VECTORS[name][1]:
            fail(name, f"protected message {w.hex()} differs from RFC 8613 {name} {RFC_VECTORS[name][1]}")
        if rid is not None:
            try:
                m, _ = ctx("c").unprotect(aiocoap.Message.decode(w), copy_rid(k, rid))
                if m.payload != b"Hello World!" or int(m.code) != 69:
                    fail(name, "response vector does not unprotect to 2.05 Hello World!")
            except Exception as e:
                fail(name, f"response vector is not accepted: {type(e).__name__}")
    if len(wires) < 3 or len(log) < 3 or rep.oracle_failures:
        return
    # what the implementation handed to AES-CCM, against the model
    lines = ["C11 A 10 - 14", f"C11 N 13 {C.common_iv.hex()} 14 -", "C11 N 13 %s 00 01" % C.common_iv.hex()]
    impl = [hx(log[0][0]), hx(log[0][1]), hx(log[2][1])]
    compare(env, rep, [{"rfc": "aad"}, {"rfc": "nonce C.4"}, {"rfc": "nonce C.8"}], lines, impl,
            what="RFC 8613 vectors")
    # every single-bit flip of the three protected messages with the real algorithm
    for name, (w, rid) in wires.items():
        code, opts, payload, _ = rfc_parse_datagram(w)
        opt_value = [v for n, v in opts if n == 9][0]
        kind = "req" if rid is None else "resp"
        base_ctx = ctx("s" if rid is None else "c")
        base_out = do_unprotect(k, base_ctx, None if rid is None else copy_rid(k, rid), w)[0]
        muts = [("optbit", i, rewire(k, w, oscore_value=flip(opt_value, i)),
                 must_fail_option(kind, opt_value, flip(opt_value, i), b"" if rid is None else b"\x01",
                                  None, None if rid is None else rid.kid,
                                  None if rid is None else rid.partial_iv,
                                  b"" if rid is None else b"\x01"))
                for i in range(8 * len(opt_value))]
        muts += [("paybit", i, rewire(k, w, payload=flip(payload, i)), "ciphertext bit flipped")
                 for i in range(8 * len(payload))]
        muts += [("paytrunc", n, rewire(k, w, payload=payload[:n]), "ciphertext truncated")
                 for n in range(1, len(payload))]
        for t, i, w2, must_fail in muts:
            out = do_unprotect(k, ctx("s" if rid is None else "c"),
                               None if rid is None else copy_rid(k, rid), w2)[0]
            v = judge(out, must_fail, base_out, f"RFC {name} {t} {i} (real AES-CCM)")
            case = {"rfc": name, "manip": [t, i]}
            rep.case(case, nontrivial=True)
            rep.count("rfc-aesccm:" + t + (":must-fail" if must_fail else ":representation"))
            if v:
                rep.oracle_fail(case, v, key=f"rfc8613:{name}:{t}")
        if rid is not None:
            for fk, fp in ((rid.kid, b"\x15"), (rid.kid, b"\x00\x14"), (b"\x02", rid.partial_iv)):
                frid = oscore.RequestIdentifiers(fk, fp, None, aiocoap.POST)
                out = do_unprotect(k, ctx("c"), frid, w)[0]
                v = judge(out, "foreign request identifiers", base_out, f"RFC {name} foreign rid")
                case = {"rfc": name, "manip": ["rid", hx(fk), hx(fp)]}
                rep.case(case, nontrivial=True)
                rep.count("rfc-aesccm:rid:must-fail")
                if v:
                    rep.oracle_fail(case, v, key=f"rfc8613:{name}:rid")


# --------------------------------------------------------------------------- lives of a process (persisted context)

PERSIST_STEPS = 75          # beyond the 4th persistence step of the default chunks (1, 11, 31, 71)


def history_table(gen, rng, env):
    """crash histories on the real FilesystemSecurityContext: the process is killed (K) or stopped (S) after EVERY
    count k of protect operations of a life, k = 0 .. beyond the third (in fact fourth) persistence step, in the
    first and in the second life, then protects again"""
    def ids():
        ls, lr = rng.randint(0, 7), rng.randint(0, 7)
        if ls == 0 and lr == 0:
            lr = 1
        a, b = gen.ids(ls, lr)
        return {"sid": hx(a), "rid": hx(b), "secret": hx(bytes(rng.randrange(256) for _ in range(16))),
                "salt": hx(bytes(rng.randrange(256) for _ in range(rng.choice([0, 8])))),
                "idctx": None if rng.random() < 0.6 else hx(bytes(rng.randrange(256) for _ in range(rng.choice([0, 1, 8]))))}

    def hist(events, start=None, limit=None, disk=None):
        h = ids()
        h.update({"start": start, "limit": limit, "disk": disk, "events": list(events)})
        return h

    hs = []
    second = [0, 1, 2, 9, 10, 11, 12, 29, 30, 31, 32, 33]
    full = env.tier != "quick"
    # A: kill after k1 protects of the first life (every k1), after k2 of the second, then go on
    for k1 in range(PERSIST_STEPS + 1):
        for k2 in (range(36) if full else [second[k1 % len(second)], second[(5 * k1 + 3) % len(second)]]):
            hs.append(hist(["q"] * k1 + ["K"] + ["q"] * k2 + ["K"] + ["q"] * 2 + ["S", "q"]))
    # B: every k2 of the second life after a first life that ended right after its 1st / 11th / 12th protect
    for k1 in (1, 11, 12):
        for k2 in range(36):
            hs.append(hist(["q"] * k1 + ["K"] + ["q"] * k2 + ["K", "q", "q"]))
    # C: an orderly stop first (exact number on disk), kills later; and the other way round
    for k1 in (0, 1, 5, 10, 11, 31):
        for k2 in (0, 1, 2, 10, 11, 12, 31):
            hs.append(hist(["q"] * k1 + ["S"] + ["q"] * k2 + ["K", "q", "q", "K", "q"]))
            hs.append(hist(["q"] * k1 + ["K"] + ["q"] * k2 + ["S", "q", "K", "q", "q"]))
    # D: other chunk configurations (the persistence steps move): every k1 up to beyond the third step
    for start, limit in ((1, 1), (1, 4), (2, 3), (3, 100), (16, 16), (10, 10)):
        for k1 in range(0, 3 * max(start, 2) + 8):
            hs.append(hist(["q"] * k1 + ["K"] + ["q"] * (k1 % 3) + ["K", "q", "q"], start=start, limit=limit))
    # E: a context that has been in use: numbers around the Partial-IV length boundaries and the last number
    for disk in (250, 65530, (1 << 24) - 5, (1 << 32) - 3, (1 << 40) - 12, (1 << 40) - 2):
        for k1 in (0, 1, 6, 11):
            for k2 in (0, 1):
                hs.append(hist(["q"] * k1 + ["K"] + ["q"] * k2 + ["K", "q", "q", "q"], disk=disk))
    # F: random histories, requests of the peer answered in between (notifications / Echo challenges take numbers too)
    for _ in range(env.scale(40, 800)):
        evs = []
        for _life in range(rng.randint(2, 4)):
            evs += [rng.choice("qqqn") for _ in range(rng.choice([0, 1, 2, 3, 9, 10, 11, 12, 13, 30, 31, 32, rng.randrange(40)]))]
            evs.append(rng.choice("KKKS"))
        evs += [rng.choice("qn") for _ in range(rng.randint(1, 3))]
        cfg = rng.choice([(None, None), (None, None), (1, 2), (4, 16), (7, 7)])
        hs.append(hist(evs, start=cfg[0], limit=cfg[1],
                       disk=rng.choice([None, None, 0, 9, 10, 255, 65535, rng.randrange(1 << 30)])))
    return hs


def play_history(runner, h, sink):
    """one history on the real FilesystemSecurityContext: tokens against the Lean `sendRun`, and the oracle: no
    Partial IV / (key, nonce) pair twice over all lives, every genuine message accepted by the peer"""
    tokens, verdict = runner.run(h)
    sink.add({"hist": h}, c11_fs.driver_line(h), " ".join(tokens), verdict, "hiding:nonce-reuse-across-lives",
             nontrivial=True, tag="step:crash-history")
    if sink.rep is not None:
        kills = [i for i, e in enumerate(h["events"]) if e in "KS"]
        first = kills[0] if kills else len(h["events"])
        sink.rep.count("history:first-life-protects=%s" % (first if first <= 12 or first in (29, 30, 31, 32, 70, 71, 72)
                                                          else "other"))
        sink.rep.count("history:lives=%d" % (len(kills) + 1))
    return verdict


def crash_histories(k, env, rep, gen, sink):
    runner = c11_fs.FsRunner(k)
    for fn, c in load_corpus("C11"):
        if "hist" in c:
            play_history(runner, c["hist"], sink)
            rep.count("corpus")
    for h in history_table(gen, env.rng, env):
        play_history(runner, h, sink)


# --------------------------------------------------------------------------- entry points

def boundary_scenarios(gen, rng):
    scns = []
    # every pair of ID lengths 0..7 (13-byte nonce), short exchange, sampled flips
    for lc in range(8):
        for ls in range(8):
            if lc == 0 and ls == 0:
                continue
            scns.append(gen.scenario(alg=(10, 13), lc=lc, ls=ls, nresp=2, flips="sample"))
    # other nonce lengths: all admissible ID lengths
    for alg in ((12, 7), (24, 12), (1, 12)):
        for lc in range(alg[1] - 6 + 1):
            ls = (alg[1] - 6) - lc if (alg[1] - 6) - lc != lc or lc else 1
            if lc == 0 and ls == 0:
                ls = 1
            if ls > alg[1] - 6:
                ls = alg[1] - 6
            if lc == 0 and ls == 0:
                continue
            scns.append(gen.scenario(alg=alg, lc=lc, ls=ls, nresp=2, flips="sample"))
    # every sequence number boundary on both sides (PIV lengths 1..5), incl. exhaustion
    for q in SEQS + [(1 << 40) - 1, 1 << 40]:
        scns.append(gen.scenario(alg=(10, 13), cseq=q, sseq=1, nresp=2, flips="sample"))
        scns.append(gen.scenario(alg=(10, 13), cseq=3, sseq=q, nresp=3, flips="sample"))
    # ID contexts: absent, empty, 1, 255 (largest the option can carry), 256 (cannot be sent)
    for idc in (None, b"", b"\x37", bytes(range(255)), bytes(256)):
        scns.append(gen.scenario(alg=(10, 13), idctx=idc, nresp=1, flips="sample"))
    # full bit-flip sweeps on a few small exchanges
    for i in range(4):
        s = gen.scenario(alg=(10, 13) if i < 3 else (24, 12), lc=[1, 0, 7, 3][i], ls=[1, 2, 6, 0][i],
                         idctx=[None, b"\x01\x02", None, b""][i], cseq=[5, 255, 65536, 0][i],
                         sseq=[0, 256, 7, 65535][i], nresp=2, flips="all")
        s["send_kid"] = i % 2 == 1
        scns.append(s)
    for s in scns:
        if rng.random() < 0.5:
            s["twin"] = make_twin(gen, s)
    return scns


def run(env, rep):
    aiocoap = env.import_repo(shims=True)
    import aiocoap.oscore as oscore
    k = K(aiocoap, oscore)
    rng = env.rng
    gen = Gen(rng)

    helper_lines(k, env, rep)
    rfc_vectors(k, env, rep)

    scns = []
    sink = Sink(rep)
    for fn, c in load_corpus("C11"):
        if "scn" in c and "session" in c:
            play_session(k, c["scn"], c["session"], sink)
            rep.count("corpus")
        elif "scn" in c and "crash" in c:
            play_crash(k, c["scn"], c["crash"], sink)
            rep.count("corpus")
        elif "scn" in c and "manip" in c:
            # a recorded manipulation: base exchange without the generated manipulations, then it
            _, art = run_scenario(k, c["scn"], sink, rng, manip=False)
            m = c["manip"]
            if (m["on"] == "req" and "req_wire" in art) or \
                    (m["on"] == "resp" and len(art.get("resp_wires", [])) > m["j"]
                     and art["resp_wires"][m["j"]] is not None):
                apply_manip(k, c["scn"], art, m, sink, {"scn": c["scn"]})
            rep.count("corpus")
        elif "scn" in c:
            scns.append(c["scn"])
            rep.count("corpus")
    scns += boundary_scenarios(gen, rng)
    for _ in range(env.scale(140, 6000)):
        s = gen.scenario()
        if rng.random() < 0.6:
            s["twin"] = make_twin(gen, s)
        scns.append(s)
    # requests with Proxy-Uri (sent through a forward proxy): URI splitting is out of the Lean model, oracle only -
    # whenever protect() succeeds the outer message and the round trip are judged.  Every shape of the URI:
    # authority x path x query in full, the scheme rotating.
    scns += proxy_uri_scenarios(gen, rng, env)

    for i, scn in enumerate(scns):
        if "proxy_uri_shape" in scn:
            rep.count("proxy-uri:" + scn["proxy_uri_shape"].split("/", 1)[-1])
        rep.count("alg-iv=%d" % scn["alg"][1])
        rep.count("idlen=%d/%d" % (len(unhx(scn["cid"])), len(unhx(scn["sid"]))))
        rep.count("idctx=" + ("none" if scn["idctx"] is None else str(len(unhx(scn["idctx"])))))
        rep.count("pivlen-c=%d" % max(1, (scn["cseq"].bit_length() + 7) // 8))
        _, art = run_scenario(k, scn, sink, rng)
        if "proxy_uri_shape" in scn:
            # said as it is: a Proxy-Uri scenario that protect() refuses judges NOTHING (availability is outside the
            # clauses); only the ones counted as judged are a check of the hiding / round-trip clauses
            if "req_wire" in art:
                rep.count("proxy-uri:judged")
            else:
                rep.count("proxy-uri:protect-refused")
                rep.count("proxy-uri:protect-refused:" + art.get("protect_refused", "err:?")[4:])
        if art.get("req_u_out", "").startswith("ok"):
            play_session(k, scn, make_session(k, scn, art, rng), sink)
            play_crash(k, scn, {"echo1": hx(bytes(rng.randrange(256) for _ in range(8))),
                                "echo2": hx(bytes(rng.randrange(256) for _ in range(8))),
                                "forged_first": rng.random() < 0.3}, sink)
        if len(sink.lines) >= 20000:
            compare(env, rep, sink.cases, sink.lines, sink.impl, what="protect/unprotect")
            sink.cases, sink.lines, sink.impl = [], [], []
    pu_refused, pu_judged = rep.hist.get("proxy-uri:protect-refused", 0), rep.hist.get("proxy-uri:judged", 0)
    if pu_refused:
        names = sorted(t.rsplit(":", 1)[1] for t in rep.hist if t.startswith("proxy-uri:protect-refused:"))
        rep.notes.append(f"Proxy-Uri family: protect() refused {pu_refused} of {pu_refused + pu_judged} Proxy-Uri requests "
                         f"({', '.join(names)}); {pu_judged} were judged. On code that refuses them all the family checks "
                         f"nothing now - it only guards against a future repair of the refusal that leaks path or query")
    peer_last_number(k, gen, sink)
    compare(env, rep, sink.cases, sink.lines, sink.impl, what="protect/unprotect")
    sink.cases, sink.lines, sink.impl = [], [], []
    crash_histories(k, env, rep, gen, sink)
    compare(env, rep, sink.cases, sink.lines, sink.impl, what="lives of a persisted context")
    for need in ("step:unprotect-request", "step:unprotect-response", "step:session-forgeries",
                 "step:crash-challenge", "step:crash-second-life", "manip:optbit:must-fail",
                 "manip:paybit:must-fail", "manip:rid:must-fail", "manip:key:must-fail",
                 "manip:optset:representation", "step:crash-history"):
        if not rep.hist.get(need):
            if rep.oracle_failures or rep.disagreements:
                # the implementation under test broke the exchanges themselves; that is reported
                # as a violation, not as a harness problem
                rep.notes.append(f"no case of kind {need} (exchanges fail)")
            else:
                raise HarnessError(f"generator produced no case of kind {need}")
    rep.exhaustive_parts.append("all single-bit flips of OSCORE option and ciphertext on 4 exchanges; "
                                "all ID-length pairs 0..7; all Partial-IV length boundaries; "
                                "all 256 first bytes of the OSCORE option; all single-bit changes of the outer code "
                                "of every request and response; every kill point 0..75 protects into the first life "
                                "of a persisted context; all 180 Proxy-Uri shapes")


def replay(env, case):
    aiocoap = env.import_repo(shims=True)
    import aiocoap.oscore as oscore
    k = K(aiocoap, oscore)
    import random
    if "rfc" in case:
        from common import Report
        r = Report("C11")
        rfc_vectors(k, env, r)
        return r.oracle_failures[0]["verdict"] if r.oracle_failures else ""
    if "z" in case:
        return judge_z(oscore, unhx(case["z"]))[1]
    if "hist" in case:
        return c11_fs.FsRunner(k).run(case["hist"])[1]
    scn = case["scn"]
    sink = Sink(None)
    if "session" in case:
        return play_session(k, scn, case["session"], sink)
    if case.get("step") == "peer-last-number":
        peer_last_number_one(k, scn, sink)
        return sink.last_verdict
    if "crash" in case:
        for v in play_crash(k, scn, case["crash"], sink):
            if v:
                return v
        return ""
    verdicts, art = run_scenario(k, scn, sink, random.Random(0), manip=False)
    if "manip" in case:
        m = case["manip"]
        if m["on"] == "resp" and (len(art.get("resp_wires", [])) <= m["j"] or art["resp_wires"][m["j"]] is None):
            return ""
        if m["on"] == "req" and "req_wire" not in art:
            return ""
        apply_manip(k, scn, art, m, sink, {"scn": scn})
        return sink.last_verdict
    for v in verdicts:
        if v:
            return v
    return ""
