"""C07 — observe client: notifications in freshness order, termination signalled once.

Correspondence (model ≈ code), two levels:
  (a) the real `aiocoap.protocol.Request` fed through a real `aiocoap.pipe.Pipe`
      (harness/c07_pipe.py; `time` as seen from aiocoap.protocol is a harness clock) vs the Lean
      runner `Aiocoap.Observe.step`: per event, what was handed to the application (response
      future, callbacks, errbacks, `_stop_interest`) and whether the pipe has ended;
  (b) the real UDP stack (netsim + virtual clock, harness/c07_stack.py): an observing request,
      piggy-backed / separate first response, CON and NON notifications in any order, transport
      errors, shutdown; vs the Lean message-layer model composed with the runner
      (`Aiocoap.Observe.jointStep`): datagrams (ACK / RST), pipe events and deliveries.
Oracle: RFC 7641 §3.4 written from the RFC over the observed deliveries (c07_pipe.oracle_history,
c07_stack.oracle_stack); the async-iterator interface is checked by the oracle only.
"""
import asyncio
import itertools

import c07_pipe
import c07_stack
import msglayer
from common import compare, load_corpus, HarnessError

RULE = ("(a) exhaustive: every sequence (with repetitions) of 5-6 notifications after every first "
        "response over value sets straddling 0 / 2^23 / 2^24-1 / 2^24; every pair (v1, v1+d) for d "
        "around 0, +-2^23 with gaps 0, 128 s -1/0/+1 tick; every 3-step history of (stale|dup|fresh) x "
        "gap in {0,1,R-1,R,R+1,2R+1}; every position x kind of terminating event (2.xx/4.xx/5.xx "
        "without Observe, last or not, last notification, six exception kinds) followed by more "
        "notifications; application cancels at every position; then random histories from the seed. "
        "(b) scripted observations over the real UDP stack. A case is non-trivial when at least one "
        "notification was handed over and one was suppressed or the observation ended.")
TRUSTED = ["harness clock standing in for `time` inside aiocoap.protocol; wrapper on the "
           "instance's _stop_interest (harness/c07_pipe.py)",
           "virtual-clock event loop and fake-socket UDP stack of the harness (vloop.py, netsim.py)"]
ASSUMPTIONS = ["the asyncio future behind Request.response and the lossy async iterator "
               "(ClientObservation._Iterator) are runtime: exercised by correspondence and oracle, not modelled",
               "time.time() does not go backwards by more than the model's Nat ticks can express (harness clock is monotone)"]

M23, M24 = 1 << 23, 1 << 24


# ------------------------------------------------------------------------------ generators (a)

def notif(t, v, body, last=0, code=69):
    return ["M", t, code, v, body, last]


def fam_perm(values, n):
    for first in values:
        for seq in itertools.product(values, repeat=n):
            evs = [notif(0, first, 0)] + [notif(i + 1, v, i + 1) for i, v in enumerate(seq)]
            yield {"observe": True, "events": evs, "iter": None}


def fam_pairs(R):
    for v1 in (0, 1, 5, M23 - 1, M23, M23 + 1, M24 - 2, M24 - 1):
        for d in (0, 1, -1, 2, M23 - 1, M23, M23 + 1, -(M23 - 1), -M23, -(M23 + 1), M24 - 1, M24):
            for reduce in (True, False):
                v2 = v1 + d
                if reduce:
                    v2 %= M24
                if v2 < 0:
                    continue
                for gap in (0, R - 1, R, R + 1):
                    yield {"observe": True, "iter": None,
                           "events": [notif(7, v1, 0), notif(7 + gap, v2, 1), notif(8 + gap, v2, 2)]}


def fam_timing(R):
    steps = [(v, g) for v in (9, 10, 11) for g in (0, 1, R - 1, R, R + 1, 2 * R + 1)]
    for seq in itertools.product(steps, repeat=3):
        t = 3
        evs = [notif(t, 10, 0)]
        for i, (v, g) in enumerate(seq):
            t += g
            evs.append(notif(t, v, i + 1))
        yield {"observe": True, "events": evs, "iter": None}


TERMINATORS = ([["M", 0, c, None, 90, last] for c in (69, 132, 160) for last in (1, 0)] +
               [["M", 0, 69, 1000, 91, 1], ["M", 0, 69, 2, 92, 1], ["M", 0, 132, 1000, 93, 1]] +
               [["X", 0, k] for k in range(6)])


def fam_terminators():
    base = [100, 101, 50, 102, 103]
    for k in range(0, 5):
        for pos in range(0, k + 1):
            for term in TERMINATORS:
                for observe in ((True, False) if pos == 0 else (True,)):
                    evs = []
                    t = 0
                    for i in range(k + 1):
                        t += 5
                        if i == pos:
                            e = list(term)
                            e[1] = t
                            evs.append(e)
                            t += 5
                        if i < k:
                            evs.append(notif(t, base[i], i))
                    evs.append(notif(t + 5, 2000, 77))
                    evs.append(["M", t + 6, 69, None, 78, 1])
                    evs.append(notif(t + 7, 2001, 79))
                    its = (None, {"mode": "attentive", "start": 0}, {"mode": "lazy", "start": 0},
                           {"mode": "lazy", "start": min(2, len(evs))},
                           {"mode": "attentive", "start": 1})
                    if term[0] == "X" and term[2] >= 4:
                        its = (None,)   # _Iterator.__del__ prints non-NetworkErrors on stderr
                    for it in its:
                        yield {"observe": observe, "events": evs, "iter": it}


def fam_app():
    vals = [10, 11, 5, 12, 13]
    for pos in range(0, 6):
        for kind in ("OC", "RC"):
            for tail in (notif(0, 14, 60), ["M", 0, 132, None, 61, 1], ["X", 0, 2]):
                evs = []
                t = 0
                for i in range(6):
                    t += 3
                    if i == pos:
                        evs.append([kind, t])
                        t += 3
                    if i < 5:
                        evs.append(notif(t, vals[i], i))
                e = list(tail)
                e[1] = t + 3
                evs.append(e)
                evs.append(notif(t + 6, 15, 62))
                yield {"observe": True, "events": evs, "iter": None}
    yield {"observe": True, "iter": None,
           "events": [notif(0, 1, 0), ["OC", 1], ["OC", 2], notif(3, 2, 1)]}
    yield {"observe": False, "iter": None, "events": [["RC", 1], notif(3, None, 1, last=1)]}


DELTAS = [1, 1, 1, 2, 3, 0, -1, -2, M23 - 1, M23, M23 + 1, -(M23 - 1), -M23, -(M23 + 1), M24 - 1]


def random_history(rng, R):
    n = rng.randrange(1, 13)
    t = rng.randrange(0, 50)
    cur = rng.choice([0, 1, 7, M23 - 2, M23, M24 - 3, M24 - 1, rng.randrange(M24)])
    evs = []
    observe = rng.random() < 0.95
    for i in range(n):
        r = rng.random()
        if i > 0:
            t += rng.choice([0, 1, 1, 5, 1000, R - 1, R, R + 1, rng.randrange(3 * R)])
        if r < 0.80 or (i == 0 and r < 0.9):
            d = rng.choice(DELTAS) if rng.random() < 0.85 else rng.randrange(-M24, M24)
            v = cur + d
            if rng.random() < 0.93:
                v %= M24
            v = max(v, 0)
            code = 69 if rng.random() < 0.95 else rng.choice([65, 132, 160])
            evs.append(notif(t, v, i, last=1 if rng.random() < 0.04 else 0, code=code))
            cur = v
        elif r < 0.90:
            evs.append(["M", t, rng.choice([69, 132, 160, 128]), None, i, 1 if rng.random() < 0.7 else 0])
        elif r < 0.95:
            evs.append(["X", t, rng.randrange(6)])
        elif r < 0.98:
            evs.append(["OC", t])
        else:
            evs.append(["RC", t])
    # no exception after the pipe has ended: Pipe._add_event's handling of that is outside C07
    out, over = [], False
    for i, e in enumerate(evs):
        if over and e[0] == "X":
            continue
        out.append(e)
        if e[0] == "X" or (e[0] == "M" and (e[5] or e[3] is None)) or (i == 0 and e[0] == "RC"):
            over = True
        if e[0] == "OC":
            over = True      # conservative: the next pipe event ends it
    it = None
    r = rng.random()
    if r < 0.3:
        it = {"mode": "attentive", "start": 0}
    elif r < 0.5:
        it = {"mode": "lazy", "start": rng.randrange(0, len(out) + 1)}
    elif r < 0.6:
        it = {"mode": "attentive", "start": rng.randrange(0, len(out) + 1)}
    if any(e[0] == "X" and e[2] >= 4 for e in out):
        it = None       # _Iterator.__del__ reports exceptions that are not NetworkErrors on stderr
    return {"observe": observe, "events": out, "iter": it}


def level_a_cases(env, R):
    fams = []
    fams.append(("corpus", [c["history"] for _, c in load_corpus("C07") if "history" in c]))
    fams.append(("pairs", list(fam_pairs(R))))
    fams.append(("timing", list(fam_timing(R))))
    fams.append(("terminators", list(fam_terminators())))
    fams.append(("app", list(fam_app())))
    wrap = [M24 - 2, M24 - 1, 0, 1]
    half = [5, 5 + M23 - 1, 5 + M23, 5 + M23 + 1]
    over = [0, M24 - 1, M24, M24 + 1]
    mid = [0, 1, M23 - 1, M23, M23 + 1]
    top = [M23 - 1, M23, M23 + 1, M24 - 1]
    n4 = 6
    fams.append(("perm:wrap", list(fam_perm(wrap, n4))))
    fams.append(("perm:half", list(fam_perm(half, n4))))
    fams.append(("perm:small", list(fam_perm([1, 2, 3], 6))))
    fams.append(("perm:oversize", list(fam_perm(over, env.scale(4, 6)))))
    fams.append(("perm:mid", list(fam_perm(mid, env.scale(4, 5)))))
    fams.append(("perm:top", list(fam_perm(top, env.scale(4, 6)))))
    fams.append(("random", [random_history(env.rng, R) for _ in range(env.scale(4000, 150000))]))
    return fams


# ------------------------------------------------------------------------------ generators (b)

def stack_script(rng, R, forced=None):
    """one observation over the UDP stack: request, first response, notifications (CON/NON, any
    order, duplicates, forged), possibly a terminating event, then more notifications"""
    TOK = c07_stack.TOKEN
    rel = rng.random() < 0.7
    evs = [["S", 0, 0, 0, False, True, None, rel, 1, None, 0, 4]]
    t = 3
    cur = rng.choice([0, 1, 7, M23 - 2, M23, M24 - 3, M24 - 1, rng.randrange(M24)])
    first = forced or rng.choice(["piggy"] * 5 + ["sep"] * 5 + ["noobs", "rst", "err", "shutdown", "cancel"])
    if not rel and first in ("piggy", "rst"):
        first = "sep"
    mid = 300

    def R_(mt, code, m, obs, body, remote=0, tok=TOK):
        return ["R", t, remote, False, mt, code, m, tok, obs, body]

    if first == "piggy":
        evs.append(R_("ACK", 69, c07_stack.REQ_MID, cur, 1))
    elif first in ("sep", "noobs"):
        if rel:
            evs.append(R_("ACK", 0, c07_stack.REQ_MID, None, 0, tok="-"))
            t += rng.choice([1, 50, 3000])
        obs = cur if first == "sep" else None
        evs.append(R_(rng.choice(["CON", "NON"]), 69 if first == "sep" else rng.choice([69, 132]), mid, obs, 1))
        mid += 1
    elif first == "rst":
        evs.append(R_("RST", 0, c07_stack.REQ_MID, None, 0, tok="-"))
    elif first == "err":
        evs.append(["E", t, 0])
    elif first == "shutdown":
        evs.append(["X", t])
    elif first == "cancel":
        evs.append(["C", t, 0])
    n = rng.randrange(1, 9)
    term_at = rng.randrange(0, n + 1) if rng.random() < 0.7 else None
    sent_mids = []
    established = first in ("piggy", "sep")
    for i in range(n + 3):
        t += rng.choice([1, 2, 7, 1000, R - 1, R, R + 1, rng.randrange(1, 2 * R)])
        if term_at is not None and i == term_at:
            k = rng.choice(["4.04", "4.04", "2.05", "err", "shutdown", "oc", "cancel"])
            if k == "oc" and not established:
                k = "4.04"      # observation.cancel() on a finished observation is the caller's bug
            if k in ("4.04", "2.05"):
                evs.append(R_(rng.choice(["CON", "NON"]), 132 if k == "4.04" else 69, mid, None, 50 + i))
                mid += 1
            elif k == "err":
                evs.append(["E", t, 0])
            elif k == "shutdown":
                evs.append(["X", t])
            elif k == "oc":
                evs.append(["OC", t, 0])
            else:
                evs.append(["C", t, 0])
            continue
        d = rng.choice(DELTAS) if rng.random() < 0.85 else rng.randrange(-M24, M24)
        v = (cur + d) % M24
        cur = v
        r = rng.random()
        if r < 0.1 and sent_mids:
            m = rng.choice(sent_mids)          # a retransmitted / duplicated datagram id
        else:
            m = mid
            mid += 1
        sent_mids.append(m)
        mt = rng.choice(["CON", "NON"])
        if r > 0.94:
            evs.append(R_(mt, 69, m, v, 10 + i, remote=1))          # right token, wrong endpoint
        elif r > 0.9:
            evs.append(R_(mt, 69, m, v, 10 + i, tok="22"))          # unknown token
        elif r > 0.84:
            # malformed: an error response that carries an Observe option is a notification
            # (the runner and the token manager only look at the option)
            evs.append(R_(mt, rng.choice([132, 160]), m, v, 10 + i))
        else:
            evs.append(R_(mt, 69, m, v, 10 + i))
    evs.append(["A", t + 10])
    return {"events": evs, "rules": [], "draws": [], "mid": c07_stack.REQ_MID, "token": 32}


def stack_boundary_scripts(R):
    """the thresholds over the wire: half-circle +-1, 128 s +-1 tick, CON and NON"""
    TOK = c07_stack.TOKEN
    out = []
    for mt in ("CON", "NON"):
        for v1 in (5, M24 - 1):
            for d in (M23 - 1, M23, M23 + 1, 0, 1, M24 - 1):
                for gap in (1, R - 1, R, R + 1):
                    v2 = (v1 + d) % M24
                    evs = [["S", 0, 0, 0, False, True, None, True, 1, None, 0, 4],
                           ["R", 3, 0, False, "ACK", 69, c07_stack.REQ_MID, TOK, v1, 1],
                           ["R", 3 + gap, 0, False, mt, 69, 300, TOK, v2, 2],
                           ["R", 4 + gap, 0, False, mt, 69, 301, TOK, v1, 3],
                           ["R", 5 + gap, 0, False, mt, 132, 302, TOK, None, 4],
                           ["R", 6 + gap, 0, False, mt, 69, 303, TOK, (v2 + 1) % M24, 5],
                           ["A", 20 + gap]]
                    out.append({"events": evs, "rules": [], "draws": [], "mid": c07_stack.REQ_MID, "token": 32})
    return out


def strip_pipe_events(line):
    """the pipe events of request 0 are what the runner consumes (C02 compares them); the
    harness's own listener on the pipe misses the event during which the pipe ends"""
    return "|".join(";".join(x for x in g.split(";") if not x.startswith(("r:0:", "f:0:")))
                    for g in line.split("|"))


def run_level_b(env, rep, R):
    scripts = [c["script"] for _, c in load_corpus("C07") if "script" in c]
    bnd = stack_boundary_scripts(R)
    if not env.thorough:
        bnd = bnd[::2]
    scripts += bnd
    for first in ("piggy", "sep", "noobs", "rst", "err", "shutdown", "cancel"):
        scripts += [stack_script(env.rng, R, forced=first) for _ in range(env.scale(6, 100))]
    scripts += [stack_script(env.rng, R) for _ in range(env.scale(350, 6000))]
    lines, impl, cases = [], [], []
    for sc in scripts:
        res = c07_stack.run_stack(sc)
        case = {"level": "b", "script": sc}
        n_cb = res["impl_line"].count(":cb:")
        n_eb = res["impl_line"].count(":eb:")
        rep.case(case, nontrivial=(n_cb >= 1 and (n_eb >= 1 or "RST:0" in res["impl_line"])),
                 sample_every=200)
        rep.count("b:scripts")
        rep.count("b:callbacks", n_cb)
        rep.count("b:rst-sent", res["impl_line"].count("RST:0:"))
        rep.count("b:ack-sent", res["impl_line"].count("ACK:0:"))
        for tok in res["concrete"]:
            k = tok.split("@")[0]
            rep.count("b:event=" + k + (":" + tok.split(":")[3] if k == "R" else ""))
        for e in ("NotObservable", "ObservationCancelled", "T0", "T2", "T3"):
            if ":eb:" + e in res["impl_line"]:
                rep.count("b:end=" + e)
        v, key = c07_stack.oracle_stack(sc, res)
        if v:
            rep.oracle_fail(case, v, key="stack:" + key)
        if res["same_tick_inputs"]:
            rep.count("b:discarded:same-tick-inputs")
            continue
        lines.append(f"C07 J {R} 1 " + " ".join(res["args"]))
        impl.append(strip_pipe_events(res["impl_line"]))
        cases.append(case)
    outs = env.lean(lines)
    for case, line, m, i in zip(cases, lines, outs, impl):
        if m == "bad-op":
            raise HarnessError(f"driver rejected line: {line[:300]}")
        if m == "out-of-model":
            rep.out_of_model += 1
            continue
        cm, tie, starved = msglayer.canon_model_line(m)
        if tie:
            rep.count("b:discarded:timer-tie")
            continue
        if starved:
            raise HarnessError("model ran out of time-out draws: " + line[:300])
        rep.traces += 1
        # the joint driver prints no table snapshots; msglayer's canonicaliser marks their (empty) place with "~"
        cm = strip_pipe_events("|".join(g.split("~")[0] for g in cm.split("|")))
        if cm != i:
            rep.disagree({"case": case, "line": line[:2000]}, cm[:3000], i[:3000],
                         what="observation over the UDP stack vs message layer + runner")


# ------------------------------------------------------------------------------------ running

def classify(rep, fam, h, res):
    n_cb = sum(1 for (_, dels, _) in res["raw"] for d in dels if d[0] == "cb")
    n_notif = sum(1 for e in h["events"][1:] if e[0] == "M" and e[3] is not None)
    ebs = [c07_pipe.Bench.exc_name(d[1]) for (_, dels, _) in res["raw"] for d in dels if d[0] == "eb"]
    rep.count("a:family=" + fam)
    rep.count("a:events=%d" % min(len(h["events"]), 13))
    rep.count("a:end=" + (ebs[0] if ebs else "none"))
    if h.get("iter"):
        rep.count("a:iterator=" + h["iter"]["mode"] + (":late" if h["iter"]["start"] else ""))
    for e in h["events"]:
        rep.count("a:event=" + e[0] + (":noobs" if e[0] == "M" and e[3] is None else ""))
    if any(e[0] == "M" and e[3] is not None and e[3] >= M24 for e in h["events"]):
        rep.count("a:malformed=oversize-observe")
    return n_cb >= 1 and (n_cb < n_notif or bool(ebs))


async def run_level_a(env, rep, bench, R, fams):
    for fam, hs in fams:
        lines, impl, cases = [], [], []
        for h in hs:
            res = await bench.run_history(h)
            nontriv = classify(rep, fam, h, res)
            rep.case({"level": "a", "history": h}, nontrivial=nontriv,
                     sample_every=20000 if fam != "random" else 1500)
            v, key = c07_pipe.oracle_history(h, res)
            if v:
                rep.oracle_fail({"level": "a", "history": h}, v + " | observed: " + res["impl"],
                                key="pipe:" + key)
            lines.append(c07_pipe.driver_line(R, h))
            impl.append(res["impl"])
            cases.append({"level": "a", "history": h})
        compare(env, rep, cases, lines, impl, what="Request._run over a real Pipe (%s)" % fam)
        if fam.startswith("perm") or fam in ("pairs", "timing", "terminators", "app"):
            rep.exhaustive_parts.append(f"{fam}: {len(hs)} histories")


def run(env, rep):
    aiocoap = env.import_repo()
    bench = c07_pipe.Bench(aiocoap)
    try:
        R = bench.reset_ticks()
        fams = level_a_cases(env, R)
        loop = asyncio.new_event_loop()
        try:
            loop.run_until_complete(run_level_a(env, rep, bench, R, fams))
        finally:
            loop.close()
    finally:
        bench.close()
    run_level_b(env, rep, R)
    # every branch of the model must have been exercised (else the run proves nothing: exit 2)
    need = ["a:end=NotObservable", "a:end=ObservationCancelled", "a:end=NetworkError", "a:end=MessageError",
            "a:end=none", "a:event=OC", "a:event=RC", "a:event=M:noobs", "a:iterator=attentive",
            "a:iterator=lazy", "b:end=NotObservable", "b:end=ObservationCancelled", "b:end=T2", "b:end=T3",
            "b:rst-sent", "b:ack-sent", "b:event=R:CON", "b:event=R:NON", "b:callbacks"]
    missing = [k for k in need if not rep.hist.get(k)]
    if missing:
        raise HarnessError("generators did not reach: " + ", ".join(missing))
    if R != c07_pipe.RFC_RESET_TICKS:
        rep.notes.append(f"implementation's OBSERVATION_RESET_TIME is {R} ticks, RFC 7641 says 128 s")


def replay(env, case):
    aiocoap = env.import_repo()
    if case.get("level") == "a":
        bench = c07_pipe.Bench(aiocoap)
        loop = asyncio.new_event_loop()
        try:
            res = loop.run_until_complete(bench.run_history(case["history"]))
        finally:
            loop.close()
            bench.close()
        v, _ = c07_pipe.oracle_history(case["history"], res)
        return v and (v + " | observed: " + res["impl"])
    if case.get("level") == "b":
        res = c07_stack.run_stack(case["script"])
        v, _ = c07_stack.oracle_stack(case["script"], res)
        return v and (v + " | observed: " + res["impl_line"])
    raise HarnessError("unknown replay case")
