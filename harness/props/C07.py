"""C07 — observe client: notifications in freshness order, termination signalled once.

Correspondence (model ≈ code):
  (a) the real `aiocoap.protocol.Request` fed through a real `aiocoap.pipe.Pipe`
      (harness/c07_pipe.py; `time` as seen from aiocoap.protocol is a harness clock) vs the Lean
      runner `Aiocoap.Observe.step`: per event, what was handed to the application (response
      future, callbacks, errbacks, `_stop_interest`) and whether the pipe has ended; application
      calls are events too: observation.cancel() between events and from inside the callback that
      hands over a message, an errback that cancels, response.cancel();
  (b) the real UDP stack (netsim + virtual clock, harness/c07_stack.py): an observing request,
      piggy-backed / separate first response, CON and NON notifications in any order, error
      responses carrying an Observe option, transport errors, shutdown, response.cancel(); vs the
      Lean message-layer model composed with the runner (`Aiocoap.Observe.jointStep`): datagrams
      (ACK / RST), pipe events and deliveries;
  (i) the real `ClientObservation._Iterator` (through `ClientObservation.__aiter__` / `callback` /
      `error`, a consumer task per `__anext__`) driven operation by operation — push, push_err,
      `__anext__` starting, the loop resuming the consumer, the consumer task being cancelled — vs
      the Lean iterator model with future identities (`Aiocoap.Observe.Iter.step`, `openOps`):
      outputs and state after every operation (harness/c07_iter.py);
  (d) block-wise notifications through `Context.request()` (default `BlockwiseRequest`) over a
      token interface of the harness that plays a server with a current representation
      (harness/c07_bw.py): what `BlockwiseRequest._run_observation` is given by the lower
      iteration, what becomes of each Block2 fetch (fetched / failed / network error) and what it
      tells the application's observation, vs the Lean model of that loop
      (`Aiocoap.Observe.Upper.step`); the application's view is judged by the oracle;
  (c) oracle only: the application's view through `Context.request()` with the default
      BlockwiseRequest and with handle_blockwise=False over a token interface of the harness
      (harness/c07_app.py): callbacks and async iteration, consumers that are busy or start late,
      transport failure of the initial request, cancels from inside callback / errback,
      response.cancel().
Round 4 dimensions, at every level that runs the real code concerned: the request's transport tuning as applications
pass it (none, an instance, the CLASSES aiocoap.Reliable / aiocoap.Unreliable, an own subclass as a class, a tuning
of other constants, tunings that set OBSERVATION_RESET_TIME themselves) x reordered / duplicated / renumbered
notifications on a clock [(a) (b) (c) (d)]; further requests of the application outstanding -- to the observation's
peer or another one, registered before or after the observing request -- when the transport reports a failure for
either peer, a confirmable request runs out of retransmissions, or a request is reset [(b) (c) (d)]; the
application cancelling the observation itself before the first response, while the body of the first response is
fetched, the moment `await request.response` returns, or later, with the server notifying on -- and late
notifications after every kind of end: the token manager must not know the token any more [(c) (d): the return
value of TokenManager.process_response, which is what makes a message layer acknowledge or reject; (b): RST on
the wire].
Oracle: RFC 7641 §3.4 / §4.2 and the termination clauses written from the RFC / the property over
the observed deliveries (c07_pipe.oracle_history / oracle_iterator, c07_stack.oracle_stack,
c07_iter.oracle_iter, c07_app.oracle_app, c07_bw.oracle).  A notification is a 2.xx response
carrying an Observe option; "a response without Observe option (as every non-2.xx one is)" is
every other response.  Wherever an error is handed to the application it must be an exception
INSTANCE (derived from aiocoap's error.Error where aiocoap creates it).
"""
import asyncio
import itertools

import c07_app
import c07_bw
import c07_iter
import c07_pipe
import c07_stack
import msglayer
from common import compare, load_corpus, HarnessError

RULE = ("(a) exhaustive: every sequence (with repetitions) of 5-6 notifications after every first "
        "response over value sets straddling 0 / 2^23 / 2^24-1 / 2^24; every pair (v1, v1+d) for d "
        "around 0, +-2^23 with gaps 0, 128 s -1/0/+1 tick; every 3-step history of (stale|dup|fresh) x "
        "gap in {0,1,R-1,R,R+1,2R+1}; every position x kind of terminating event (2.xx/4.xx/5.xx "
        "without Observe, last or not, last notification, 4.xx/5.xx WITH Observe fresher/older/equal, six "
        "exception kinds) followed by more notifications, each with attentive / lazy / busy / late "
        "async-iterator consumers; every code-class boundary (2.00, 2.01, 2.05, 2.31, 3.00, 4.00, 4.04, 5.00, "
        "5.31) x (no Observe | fresher | older | duplicate | 0) x (marked last or not) at every position; "
        "application cancels at every position, in particular observation.cancel() before the first event "
        "followed by every kind of first event, from inside the callback at every kind of message, from "
        "inside the errback at every way an observation ends, and response.cancel() before the first "
        "event with every consumer; then random histories from the seed. "
        "(i) every sequence of up to 5 (thorough: 7) iterator operations over {push, push_err(cancelled), "
        "push_err(network error), __anext__, resume, cancel consumer}, every such sequence of up to 4 "
        "after __aiter__ on an observation with every kind of past, then random longer ones. "
        "(b) scripted observations over the real UDP stack, with and without a busy consumer, "
        "observation.cancel() before the first response, error responses with Observe option, response.cancel() "
        "with a consumer, errbacks that cancel. (d) block-wise notifications: every misbehaviour of a block reply "
        "(ETag change, short block, wrong number, error reply with/without Block2, dropped Block2 option, network "
        "error) at block 1 and 2 x what follows (more notifications, final response, transport failure, nothing); "
        "notifications overtaking a fetch, state changes whose notification is lost, older notifications arriving "
        "late; then random server scripts. (c) application-level scenarios through Context.request() (default "
        "BlockwiseRequest and handle_blockwise=False). A case is non-trivial when at least one notification was "
        "handed over and one was suppressed or the observation ended (level d: and a fetch failed or the loop ended). "
        "Round 4, enumerated in full: (a) ten transport tunings (none / instance / classes Reliable, Unreliable / own "
        "subclass as class / other constants tuned / OBSERVATION_RESET_TIME set, as instance and as class) x value pairs "
        "around 0, +-1, +-2^23 x gaps {0, 1, R'-1, R', R'+1} around the reset time R' that applies (and around 128 s where "
        "it differs) x terminators x consumers; (b) the same tunings passed through the UDP stack x CON/NON; an "
        "established observation + 1-2 further requests (same / other peer; observation oldest or newest entry; CON "
        "acknowledged or NON) x {network error for either peer, retransmissions exhausted, Reset of the other request, "
        "network error before the first response}; (c) twelve placements of other requests x ten arrival scripts x "
        "both APIs x four consumers, application cancels at three positions x gaps, late arrivals after every end; "
        "(d) application cancels at six positions x two first-body shapes x three tails, other requests x five failures, "
        "tunings.")
TRUSTED = ["harness clock standing in for `time` inside aiocoap.protocol; wrapper on the "
           "instance's _stop_interest (harness/c07_pipe.py)",
           "read-only peeks at _Iterator._future / _deferred_error and Task._fut_waiter for the state part of "
           "the level (i) comparison (harness/c07_iter.py); fake token interface of levels (c)/(d) (harness/c07_app.py, c07_bw.py)",
           "level (d): for the time of one run, a wrapper on the class attribute BlockwiseRequest._complete_by_requesting_block2 "
           "(records which item the loop fetches and the outcome, calls the original), a wrapper on the Context instance's "
           "request() and an extra errback on the lower request's observation (harness/c07_bw.py)",
           "virtual-clock event loop and fake-socket UDP stack of the harness (vloop.py, netsim.py)",
           "level (b), scripts with `tuning0`: for the time of the shared runner's do_S call the harness's view of "
           "`aiocoap.Message` is a wrapper that hands the tuning on as a class / subclass (harness/c07_stack.py); levels "
           "(c)/(d): harness clock standing in for `time` inside aiocoap.protocol (level c), the return value of "
           "TokenManager.process_response as the observable for 'rejected like an unknown response', the public "
           "attribute ClientObservation.cancelled of the lower request's observation (level d, `?L`)"]
ASSUMPTIONS = ["asyncio semantics the iterator model relies on (await on a done future does not suspend; "
               "Task.cancel() cancels the awaited future if pending, else throws at the wake-up) are "
               "exercised by the level (i) correspondence, not proved",
               "level (d): the Block2 fetch itself (_complete_by_requesting_block2) is C05's; here only its outcome per "
               "notification enters the model; a complete response without Block2 to a follow-up block request (4.04, bare "
               "2.05) is handed over as such and does not end the observation (stated allowance of the oracle)",
               "time.time() does not go backwards by more than the model's Nat ticks can express (harness clock is monotone)",
               "the 128 s of the property are the RFC's; a request whose tuning itself sets OBSERVATION_RESET_TIME is "
               "judged by that value (the application's own choice), a tuning of any other constant is judged by 128 s",
               "when the application cancels the observation itself, the client notices at the next notification (it has no "
               "other occasion; with the default API after its tasks ran): ONE more notification may still be taken by "
               "the token manager, every later one must be rejected (stated allowance, both APIs)",
               "asyncio: a task cancelled before its first step executes none of its code (Upper.Start.cancelledEarly), "
               "exercised by the level (d) correspondence, not proved"]

M23, M24 = 1 << 23, 1 << 24


# ------------------------------------------------------------------------------ generators (a)

def notif(t, v, body, last=0, code=69):
    return ["M", t, code, v, body, last]


def fam_perm(values, n):
    for first in values:
        for seq in itertools.product(values, repeat=n):
            evs = [notif(0, first, 0)] + [notif(i + 1, v, i + 1) for i, v in enumerate(seq)]
            yield {"observe": True, "events": evs, "iter": None}


def fam_pairs(R):
    for v1 in (0, 1, 5, M23 - 1, M23, M23 + 1, M24 - 2, M24 - 1):
        for d in (0, 1, -1, 2, M23 - 1, M23, M23 + 1, -(M23 - 1), -M23, -(M23 + 1), M24 - 1, M24):
            for reduce in (True, False):
                v2 = v1 + d
                if reduce:
                    v2 %= M24
                if v2 < 0:
                    continue
                for gap in (0, R - 1, R, R + 1):
                    yield {"observe": True, "iter": None,
                           "events": [notif(7, v1, 0), notif(7 + gap, v2, 1), notif(8 + gap, v2, 2)]}


def fam_timing(R):
    steps = [(v, g) for v in (9, 10, 11) for g in (0, 1, R - 1, R, R + 1, 2 * R + 1)]
    for seq in itertools.product(steps, repeat=3):
        t = 3
        evs = [notif(t, 10, 0)]
        for i, (v, g) in enumerate(seq):
            t += g
            evs.append(notif(t, v, i + 1))
        yield {"observe": True, "events": evs, "iter": None}


TERMINATORS = ([["M", 0, c, None, 90, last] for c in (69, 132, 160) for last in (1, 0)] +
               [["M", 0, 69, 1000, 91, 1], ["M", 0, 69, 2, 92, 1]] +
               # "(as every non-2.xx one is)": an error response that carries an Observe option anyway --
               # fresher than, older than, equal to what was delivered last; marked last by the feeder or not
               [["M", 0, c, o, 93, last] for c in (132, 160) for o in (1000, 2, 101) for last in (1, 0)] +
               [["X", 0, k] for k in range(6)])


def fam_terminators():
    base = [100, 101, 50, 102, 103]
    for k in range(0, 5):
        for pos in range(0, k + 1):
            for term in TERMINATORS:
                for observe in ((True, False) if pos == 0 else (True,)):
                    evs = []
                    t = 0
                    for i in range(k + 1):
                        t += 5
                        if i == pos:
                            e = list(term)
                            e[1] = t
                            evs.append(e)
                            t += 5
                        if i < k:
                            evs.append(notif(t, base[i], i))
                    evs.append(notif(t + 5, 2000, 77))
                    evs.append(["M", t + 6, 69, None, 78, 1])
                    evs.append(notif(t + 7, 2001, 79))
                    its = (None, {"mode": "attentive", "start": 0}, {"mode": "lazy", "start": 0},
                           {"mode": "lazy", "start": min(2, len(evs))},
                           {"mode": "attentive", "start": 1},
                           {"mode": "busy", "start": 0, "work": 1},
                           {"mode": "busy", "start": 0, "work": 3},
                           {"mode": "busy", "start": min(pos + 1, len(evs)), "work": 2},
                           {"mode": "lazy", "start": min(pos + 2, len(evs))})
                    if term[0] == "X" and term[2] >= 4:
                        its = (None,)   # _Iterator.__del__ prints non-NetworkErrors on stderr
                    for it in its:
                        yield {"observe": observe, "events": evs, "iter": it}


CODES = (64, 65, 69, 95, 96, 128, 132, 160, 191)      # 2.00 .. 2.31 are successful; 3.00 is the first that is not


def fam_codes():
    """every response code class boundary x (no Observe | fresher | older | duplicate | zero) x (marked last or
    not) at every position of an observation, followed by more notifications"""
    base = [100, 101, 50, 102, 103]
    for pos in range(0, 4):
        for code in CODES:
            for o in (None, 1000, 2, base[pos - 1] if pos else 100, 0):
                for last in (0, 1):
                    evs, t = [], 0
                    for i in range(4):
                        t += 5
                        if i == pos:
                            evs.append(["M", t, code, o, 90, last])
                            t += 5
                        evs.append(notif(t, base[i], i))
                    evs.append(notif(t + 5, 2000, 77))
                    for it in (None, {"mode": "attentive", "start": 0}, {"mode": "busy", "start": 0, "work": 2},
                               {"mode": "lazy", "start": min(pos + 1, len(evs))}):
                        yield {"observe": True, "events": evs, "iter": it}


def fam_cancel_in_callback():
    """the application calls observation.cancel() from inside the callback that hands it a message: a fresh
    notification, an older one (no callback, so no cancel), the last notification, the final response (with
    and without Observe option, marked last or not); then more events"""
    vals = [10, 11, 12, 13]
    kinds = [[69, 200, 0], [69, 1, 0], [69, 200, 1], [69, None, 1], [69, None, 0], [132, None, 1],
             [132, 300, 1], [132, 1, 1], [160, 300, 0], [95, 200, 0], [96, 200, 1]]
    tails = ([], [notif(0, 400, 60)], [notif(0, 400, 60), ["M", 0, 132, None, 61, 1], notif(0, 401, 62)],
             [["X", 0, 2]], [["M", 0, 69, None, 61, 1]], [["RC", 0], notif(0, 400, 60)])
    for pos in range(1, 5):
        for code, o, last in kinds:
            for tail in tails:
                evs, t = [], 0
                for i in range(pos):
                    t += 3
                    evs.append(notif(t, vals[i], i))
                t += 3
                evs.append(["M", t, code, o, 50, last, 1])
                for e in tail:
                    t += 3
                    e = list(e)
                    e[1] = t
                    evs.append(e)
                if last or not (o is not None and 64 <= code < 96):
                    evs = [e for e in evs if e[0] != "X"]      # the pipe has ended: an exception is outside C07
                yield {"observe": True, "events": evs, "iter": None}
    # two callbacks' worth of cancels: a second cancelling message never gets a callback
    yield {"observe": True, "iter": None,
           "events": [notif(0, 1, 0), ["M", 1, 69, 2, 1, 0, 1], ["M", 2, 69, 3, 2, 0, 1], notif(3, 4, 3)]}


def fam_response_cancel():
    """request.response.cancel() (what asyncio.wait_for does on time-out) before the first event, with every
    kind of consumer, followed by every kind of first event; and after the first response (no effect)"""
    its = (None, {"mode": "attentive", "start": 0}, {"mode": "lazy", "start": 0}, {"mode": "lazy", "start": 2},
           {"mode": "busy", "start": 0, "work": 2}, {"mode": "attentive", "start": 1})
    tails = ([], [notif(5, 7, 40)], [notif(5, 7, 40), notif(6, 8, 41), ["M", 7, 132, None, 42, 1]],
             [["M", 5, 132, None, 40, 1]], [["M", 5, 69, None, 40, 0]])
    for observe in (True, False):
        for tail in tails:
            for it in (its if observe else (None,)):
                yield {"observe": observe, "iter": it, "events": [["RC", 1]] + tail}
                yield {"observe": observe, "iter": it, "events": [["RC", 1], ["RC", 2]] + tail}
    for it in its:
        yield {"observe": True, "iter": it,
               "events": [notif(1, 5, 0), ["RC", 2], notif(3, 6, 1), notif(4, 7, 2), ["M", 5, 132, None, 3, 1]]}


def fam_errback_cancels():
    """the application's errback calls observation.cancel() on the observation it is being told the end of, at
    every way an observation can end: failure of the initial request (six exception kinds), not observable
    (no Observe / non-2.xx with Observe / marked last), later a transport failure, a final response (marked last or
    not), a last notification, response.cancel() before the first response; then more events"""
    ends_first = ([["X", 5, k] for k in range(6)] + [["M", 5, 69, None, 40, 1], ["M", 5, 69, None, 40, 0],
                  ["M", 5, 132, 7, 40, 1], ["M", 5, 132, 7, 40, 0], ["M", 5, 69, 7, 40, 1], ["RC", 5]])
    ends_later = ([["X", 20, k] for k in range(6)] + [["M", 20, 132, None, 41, 1], ["M", 20, 69, None, 41, 0],
                  ["M", 20, 160, 9, 41, 1], ["M", 20, 69, 9, 41, 1], ["M", 20, 69, 1, 41, 1]])
    its = (None, {"mode": "attentive", "start": 0}, {"mode": "lazy", "start": 0}, {"mode": "busy", "start": 0, "work": 2})
    for e in ends_first:
        for it in its:
            if e[0] == "X" and e[2] >= 4 and it is not None:
                continue
            yield {"observe": True, "eb_cancels": True, "iter": it, "events": [e, notif(30, 8, 42)]}
    for e in ends_later:
        for it in its:
            if e[0] == "X" and e[2] >= 4 and it is not None:
                continue
            yield {"observe": True, "eb_cancels": True, "iter": it,
                   "events": [notif(5, 7, 40), notif(10, 8, 43), e, notif(30, 10, 42)]}
    # ... and the application calls observation.cancel() once more afterwards: nothing happens
    for e in (["X", 5, 2], ["M", 5, 132, None, 40, 1]):
        yield {"observe": True, "eb_cancels": True, "iter": None, "events": [e, ["OC", 9], notif(30, 8, 42)]}
        yield {"observe": True, "eb_cancels": False, "iter": None,
               "events": [notif(1, 3, 39), e, ["OC", 9], ["OC", 10], notif(30, 8, 42)]}


def fam_app():
    vals = [10, 11, 5, 12, 13]
    for pos in range(0, 6):
        for kind in ("OC", "RC"):
            for tail in (notif(0, 14, 60), ["M", 0, 132, None, 61, 1], ["X", 0, 2]):
                evs = []
                t = 0
                for i in range(6):
                    t += 3
                    if i == pos:
                        evs.append([kind, t])
                        t += 3
                    if i < 5:
                        evs.append(notif(t, vals[i], i))
                e = list(tail)
                e[1] = t + 3
                evs.append(e)
                evs.append(notif(t + 6, 15, 62))
                yield {"observe": True, "events": evs, "iter": None}
    yield {"observe": True, "iter": None,
           "events": [notif(0, 1, 0), ["OC", 1], ["OC", 2], notif(3, 2, 1)]}
    yield {"observe": False, "iter": None, "events": [["RC", 1], notif(3, None, 1, last=1)]}


def fam_cancel_first():
    """observation.cancel() (and response.cancel()) before the first event, then every kind of first
    event, then more"""
    firsts = ([["M", 5, c, o, 40, last] for c in (69, 132) for o in (None, 7) for last in (0, 1)] +
              [["X", 5, k] for k in range(6)])
    firsts += [["M", 5, 132, 7, 40, 0], ["M", 5, 132, 7, 40, 1]]
    for first in firsts:
        for pre in ([["OC", 1]], [["OC", 1], ["RC", 2]], [["RC", 1], ["OC", 2]], [["OC", 1], ["OC", 2]]):
            for tail in ([], [notif(9, 8, 41)], [notif(9, 8, 41), ["M", 12, 132, None, 42, 1]],
                         [notif(9, 8, 41), notif(10, 9, 43), ["RC", 11], notif(12, 10, 44)]):
                if first[0] == "X" or first[5] or first[3] is None or not 64 <= first[2] < 96:
                    # the pipe has ended: an exception after that is outside C07
                    tail = [e for e in tail if e[0] != "X"]
                yield {"observe": True, "iter": None, "events": pre + [first] + tail}


def fam_tuning(R):
    """the request's transport tuning as a dimension: none, an instance, the classes aiocoap.Reliable / Unreliable
    (as aiocoap-client passes them), an application's subclass passed as a class, a tuning of other constants, and
    tunings that set OBSERVATION_RESET_TIME themselves (instance and class) -- crossed with notifications that are
    not serial-number-newer (reordered, duplicated, half a circle away, renumbered) at gaps around the reset time
    that applies (and around 128 s where the tuning says otherwise), terminating responses and consumers"""
    for kind in c07_pipe.TUNINGS:
        Rk = c07_pipe.tuned_reset_ticks(kind, R)
        gaps = [0, 1, Rk - 1, Rk, Rk + 1] + ([R - 1, R, R + 1] if Rk != R else [])
        for v1 in (5, M24 - 1):
            for d in (0, 1, -1, M23 - 1, M23, M23 + 1):
                v2 = (v1 + d) % M24
                for gap in gaps:
                    yield {"observe": True, "iter": None, "tuning": kind,
                           "events": [notif(7, v1, 0), notif(7 + gap, v2, 1), notif(8 + gap, v2, 2),
                                      notif(9 + gap, v1, 3)]}
        # reordered / duplicated / renumbered after the reset time / exactly at it, then the final response
        for it in (None, {"mode": "attentive", "start": 0}, {"mode": "busy", "start": 0, "work": 2},
                   {"mode": "lazy", "start": 3}):
            for term in (["M", 0, 132, None, 90, 1], ["M", 0, 69, None, 90, 0], ["X", 0, 2], None):
                t = 3
                evs = [notif(t, 10, 0)]
                for i, (v, g) in enumerate([(12, 2), (11, 2), (12, 2), (13, 2), (5, Rk + 1), (6, 1), (3, Rk), (7, 5)]):
                    t += g
                    evs.append(notif(t, v, i + 1))
                if term is not None:
                    e = list(term)
                    e[1] = t + 3
                    evs.append(e)
                    evs.append(notif(t + 6, 14, 60))
                yield {"observe": True, "iter": it, "tuning": kind, "events": evs}
        steps = [(v, g) for v in (9, 10, 11) for g in gaps]
        for seq in itertools.product(steps, repeat=2):
            t = 3
            evs = [notif(t, 10, 0)]
            for i, (v, g) in enumerate(seq):
                t += g
                evs.append(notif(t, v, i + 1))
            yield {"observe": True, "events": evs, "iter": None, "tuning": kind}
        # not observable / transport failure of the request itself under every tuning
        for first in (["M", 3, 69, None, 1, 1], ["M", 3, 132, 5, 1, 0], ["X", 3, 2]):
            yield {"observe": True, "iter": None, "tuning": kind, "events": [first, notif(9, 11, 2)]}


DELTAS = [1, 1, 1, 2, 3, 0, -1, -2, M23 - 1, M23, M23 + 1, -(M23 - 1), -M23, -(M23 + 1), M24 - 1]


def random_history(rng, R):
    n = rng.randrange(1, 13)
    t = rng.randrange(0, 50)
    cur = rng.choice([0, 1, 7, M23 - 2, M23, M24 - 3, M24 - 1, rng.randrange(M24)])
    evs = []
    observe = rng.random() < 0.95
    for i in range(n):
        r = rng.random()
        if i > 0:
            t += rng.choice([0, 1, 1, 5, 1000, R - 1, R, R + 1, rng.randrange(3 * R)])
        if r < 0.80 or (i == 0 and r < 0.9):
            d = rng.choice(DELTAS) if rng.random() < 0.85 else rng.randrange(-M24, M24)
            v = cur + d
            if rng.random() < 0.93:
                v %= M24
            v = max(v, 0)
            code = 69 if rng.random() < 0.93 else rng.choice([64, 65, 95, 96, 132, 160])
            evs.append(notif(t, v, i, last=1 if rng.random() < 0.04 else 0, code=code))
            if rng.random() < 0.04:
                evs[-1].append(1)        # the application cancels from inside the callback
            cur = v
        elif r < 0.90:
            evs.append(["M", t, rng.choice([69, 132, 160, 128]), None, i, 1 if rng.random() < 0.7 else 0])
            if rng.random() < 0.1:
                evs[-1].append(1)
        elif r < 0.95:
            evs.append(["X", t, rng.randrange(6)])
        elif r < 0.98:
            evs.append(["OC", t])
        else:
            evs.append(["RC", t])
    # no exception after the pipe has ended: Pipe._add_event's handling of that is outside C07
    out, over = [], False
    for i, e in enumerate(evs):
        if over and e[0] == "X":
            continue
        out.append(e)
        if e[0] == "X" or (e[0] == "M" and (e[5] or e[3] is None or not 64 <= e[2] < 96)) or \
                (e[0] == "RC" and not any(x[0] in ("M", "X") for x in out[:-1])):
            over = True
        if e[0] == "OC" or (e[0] == "M" and len(e) > 6):
            over = True      # conservative: the next pipe event ends it
    it = None
    r = rng.random()
    if r < 0.3:
        it = {"mode": "attentive", "start": 0}
    elif r < 0.5:
        it = {"mode": "lazy", "start": rng.randrange(0, len(out) + 1)}
    elif r < 0.6:
        it = {"mode": "attentive", "start": rng.randrange(0, len(out) + 1)}
    elif r < 0.8:
        it = {"mode": "busy", "start": rng.randrange(0, len(out) + 1), "work": rng.randrange(1, 5)}
    if any(e[0] == "X" and e[2] >= 4 for e in out):
        it = None       # _Iterator.__del__ reports exceptions that are not NetworkErrors on stderr
    h = {"observe": observe, "events": out, "iter": it}
    if rng.random() < 0.15:
        h["eb_cancels"] = True
    if rng.random() < 0.3:
        h["tuning"] = rng.choice(c07_pipe.TUNINGS[1:])
        Rk = c07_pipe.tuned_reset_ticks(h["tuning"], R)
        if Rk != R:
            # the gaps of this history were drawn around R: move them to around the reset time that applies
            shift, prev = 0, None
            for e in out:
                if prev is not None and e[1] - prev >= R - 1:
                    shift += R - Rk if rng.random() < 0.7 else 0
                prev = e[1]
                e[1] -= shift
    return h


def level_a_cases(env, R):
    fams = []
    fams.append(("corpus", [c["history"] for _, c in load_corpus("C07") if "history" in c]))
    fams.append(("pairs", list(fam_pairs(R))))
    fams.append(("timing", list(fam_timing(R))))
    fams.append(("terminators", list(fam_terminators())))
    fams.append(("app", list(fam_app())))
    fams.append(("cancel-first", list(fam_cancel_first())))
    fams.append(("codes", list(fam_codes())))
    fams.append(("cancel-in-callback", list(fam_cancel_in_callback())))
    fams.append(("response-cancel", list(fam_response_cancel())))
    fams.append(("errback-cancels", list(fam_errback_cancels())))
    fams.append(("tuning", list(fam_tuning(R))))
    wrap = [M24 - 2, M24 - 1, 0, 1]
    half = [5, 5 + M23 - 1, 5 + M23, 5 + M23 + 1]
    over = [0, M24 - 1, M24, M24 + 1]
    mid = [0, 1, M23 - 1, M23, M23 + 1]
    top = [M23 - 1, M23, M23 + 1, M24 - 1]
    n4 = 6
    fams.append(("perm:wrap", list(fam_perm(wrap, n4))))
    fams.append(("perm:half", list(fam_perm(half, n4))))
    fams.append(("perm:small", list(fam_perm([1, 2, 3], 6))))
    fams.append(("perm:oversize", list(fam_perm(over, env.scale(4, 6)))))
    fams.append(("perm:mid", list(fam_perm(mid, env.scale(4, 5)))))
    fams.append(("perm:top", list(fam_perm(top, env.scale(4, 6)))))
    fams.append(("random", [random_history(env.rng, R) for _ in range(env.scale(4000, 150000))]))
    return fams


# ------------------------------------------------------------------------------ generators (b)

def stack_script(rng, R, forced=None, consumer=None):
    """one observation over the UDP stack: request, first response, notifications (CON/NON, any
    order, duplicates, forged), possibly a terminating event, then more notifications"""
    TOK = c07_stack.TOKEN
    rel = rng.random() < 0.7
    evs = [["S", 0, 0, 0, False, True, None, rel, 1, None, 0, 4]]
    t = 3
    cur = rng.choice([0, 1, 7, M23 - 2, M23, M24 - 3, M24 - 1, rng.randrange(M24)])
    first = forced or rng.choice(["piggy"] * 5 + ["sep"] * 5 + ["noobs", "rst", "err", "shutdown", "cancel"] +
                                 ["oc+piggy", "oc+sep", "oc+noobs", "oc+rst", "oc+err", "oc+shutdown"])
    oc_first = first.startswith("oc+")
    if oc_first:
        first = first[3:]
        evs.append(["OC", rng.choice([1, 2]), 0])
    if not rel and first in ("piggy", "rst"):
        first = "sep"
    mid = 300

    def R_(mt, code, m, obs, body, remote=0, tok=TOK):
        return ["R", t, remote, False, mt, code, m, tok, obs, body]

    if first == "piggy":
        evs.append(R_("ACK", 69, c07_stack.REQ_MID, cur, 1))
    elif first in ("sep", "noobs"):
        if rel:
            evs.append(R_("ACK", 0, c07_stack.REQ_MID, None, 0, tok="-"))
            t += rng.choice([1, 50, 3000])
        obs = cur if first == "sep" else None
        evs.append(R_(rng.choice(["CON", "NON"]), 69 if first == "sep" else rng.choice([69, 132]), mid, obs, 1))
        mid += 1
    elif first == "rst":
        evs.append(R_("RST", 0, c07_stack.REQ_MID, None, 0, tok="-"))
    elif first == "err":
        evs.append(["E", t, 0])
    elif first == "shutdown":
        evs.append(["X", t])
    elif first == "cancel":
        evs.append(["C", t, 0])
    n = rng.randrange(1, 9)
    term_at = rng.randrange(0, n + 1) if rng.random() < 0.7 else None
    sent_mids = []
    established = first in ("piggy", "sep")
    for i in range(n + 3):
        t += rng.choice([1, 2, 7, 1000, R - 1, R, R + 1, rng.randrange(1, 2 * R)])
        if term_at is not None and i == term_at:
            k = rng.choice(["4.04", "4.04", "2.05", "err", "shutdown", "oc", "cancel"])
            if k == "oc" and (oc_first or first in ("noobs", "rst", "err", "shutdown")):
                k = "4.04"      # observation.cancel() twice / on a finished observation raises in the caller
            if k in ("4.04", "2.05"):
                evs.append(R_(rng.choice(["CON", "NON"]), 132 if k == "4.04" else 69, mid, None, 50 + i))
                mid += 1
            elif k == "err":
                evs.append(["E", t, 0])
            elif k == "shutdown":
                evs.append(["X", t])
            elif k == "oc":
                evs.append(["OC", t, 0])
            else:
                evs.append(["C", t, 0])
            continue
        d = rng.choice(DELTAS) if rng.random() < 0.85 else rng.randrange(-M24, M24)
        v = (cur + d) % M24
        cur = v
        r = rng.random()
        if r < 0.1 and sent_mids:
            m = rng.choice(sent_mids)          # a retransmitted / duplicated datagram id
        else:
            m = mid
            mid += 1
        sent_mids.append(m)
        mt = rng.choice(["CON", "NON"])
        if r > 0.94:
            evs.append(R_(mt, 69, m, v, 10 + i, remote=1))          # right token, wrong endpoint
        elif r > 0.9:
            evs.append(R_(mt, 69, m, v, 10 + i, tok="22"))          # unknown token
        elif r > 0.84:
            # malformed: an error response that carries an Observe option anyway -- the final response
            # ("as every non-2.xx one is"); what follows are late notifications on a retired token
            evs.append(R_(mt, rng.choice([132, 160]), m, v, 10 + i))
        else:
            evs.append(R_(mt, 69, m, v, 10 + i))
    sc = {"events": evs, "rules": [], "draws": [], "mid": c07_stack.REQ_MID, "token": 32}
    if consumer is None:
        consumer = rng.random() < 0.4
    if consumer and not oc_first and not any(e[0] == "OC" for e in evs):
        work = rng.choice([0, 1, 3, 50, 5000, R // 2])
        sc["consumer"] = {"work": work}
        t += (n + 4) * work
    evs.append(["A", t + 10])
    return sc


def stack_cancel_first_scripts():
    """observation.cancel() before the first event x every kind of first event, over the wire"""
    TOK = c07_stack.TOKEN
    out = []
    for rel in (True, False):
        firsts = {"piggy-obs": [["R", 3, 0, False, "ACK", 69, c07_stack.REQ_MID, TOK, 5, 1]],
                  "piggy-noobs": [["R", 3, 0, False, "ACK", 69, c07_stack.REQ_MID, TOK, None, 1]],
                  "piggy-404": [["R", 3, 0, False, "ACK", 132, c07_stack.REQ_MID, TOK, None, 1]],
                  "rst": [["R", 3, 0, False, "RST", 0, c07_stack.REQ_MID, "-", None, 0]],
                  "sep-con-obs": [["R", 3, 0, False, "CON", 69, 300, TOK, 5, 1]],
                  "sep-non-noobs": [["R", 3, 0, False, "NON", 69, 300, TOK, None, 1]],
                  "err": [["E", 3, 0]],
                  "shutdown": [["X", 3]]}
        for name, fev in firsts.items():
            if not rel and name.startswith(("piggy", "rst")):
                continue
            for oc_t in (1, 2):
                for extra in ([], [["C", 2 if oc_t == 1 else 1, 0]]):
                    evs = [["S", 0, 0, 0, False, True, None, rel, 1, None, 0, 4], ["OC", oc_t, 0]] + extra + fev + [
                        ["R", 7, 0, False, "CON", 69, 301, TOK, 6, 2],
                        ["R", 9, 0, False, "NON", 132, 302, TOK, None, 3],
                        ["R", 11, 0, False, "CON", 69, 303, TOK, 7, 4],
                        ["A", 30]]
                    evs.sort(key=lambda e: e[1])
                    out.append({"events": evs, "rules": [], "draws": [], "mid": c07_stack.REQ_MID, "token": 32})
    return out


def stack_audit_scripts():
    """non-2.xx responses carrying an Observe option (first response / later, fresher or older than what was
    delivered, CON / NON / piggy-backed) followed by late notifications; request.response.cancel() before the
    first response with an `async for` consumer"""
    TOK = c07_stack.TOKEN
    S = ["S", 0, 0, 0, False, True, None, True, 1, None, 0, 4]
    out = []
    for code in (132, 160):
        for mt in ("CON", "NON"):
            for o in (9, 3, 5):
                for work in (None, 0, 3):
                    evs = [S, ["R", 3, 0, False, "ACK", 69, c07_stack.REQ_MID, TOK, 5, 1],
                           ["R", 7, 0, False, mt, 69, 300, TOK, 6, 2],
                           ["R", 9, 0, False, mt, code, 301, TOK, o, 3],
                           ["R", 11, 0, False, "CON", 69, 302, TOK, 10, 4],
                           ["R", 13, 0, False, "NON", 69, 303, TOK, 11, 5],
                           ["A", 40]]
                    sc = {"events": evs, "rules": [], "draws": [], "mid": c07_stack.REQ_MID, "token": 32}
                    if work is not None:
                        sc["consumer"] = {"work": work}
                    out.append(sc)
        for first in (["R", 3, 0, False, "ACK", code, c07_stack.REQ_MID, TOK, 5, 1],
                      ["R", 3, 0, False, "CON", code, 300, TOK, 5, 1],
                      ["R", 3, 0, False, "NON", code, 300, TOK, 5, 1]):
            evs = [S, first, ["R", 7, 0, False, "CON", 69, 301, TOK, 6, 2],
                   ["R", 9, 0, False, "NON", 69, 302, TOK, 7, 3], ["A", 30]]
            out.append({"events": evs, "rules": [], "draws": [], "mid": c07_stack.REQ_MID, "token": 32,
                        "consumer": {"work": 0}})
    # the errback cancels the observation it is being told the end of: Reset of the request, network error, shutdown,
    # final response, not observable -- with other requests outstanding at the shutdown (the sweep must go on)
    first = ["R", 3, 0, False, "ACK", 69, c07_stack.REQ_MID, TOK, 5, 1]
    S1 = ["S", 1, 1, 1, False, False, None, True, 1, None, 0, 4]
    for evs in ([S, ["R", 3, 0, False, "RST", 0, c07_stack.REQ_MID, "-", None, 0]],
                [S, ["E", 3, 0]], [S, S1, ["X", 3]], [S, first, S1, ["X", 9]], [S, first, ["E", 9, 0]],
                [S, first, ["R", 9, 0, False, "CON", 132, 300, TOK, None, 2]],
                [S, first, ["R", 9, 0, False, "NON", 132, 300, TOK, 9, 2]],
                [S, ["R", 3, 0, False, "ACK", 69, c07_stack.REQ_MID, TOK, None, 1]],
                [S, ["R", 3, 0, False, "ACK", 132, c07_stack.REQ_MID, TOK, 5, 1]],
                [S, ["C", 2, 0]]):
        out.append({"events": evs + [["R", 20, 0, False, "CON", 69, 310, TOK, 11, 5], ["A", 60]], "rules": [],
                    "draws": [], "mid": c07_stack.REQ_MID, "token": 32, "eb_cancels": True})
    for rel in (True, False):
        for ct in (1, 2, 3000):
            for work in (0, 3):
                for fev in ([["R", ct + 5, 0, False, "CON", 69, 300, TOK, 5, 1]],
                            [["R", ct + 5, 0, False, "NON", 69, 300, TOK, 5, 1],
                             ["R", ct + 9, 0, False, "CON", 69, 301, TOK, 6, 2]],
                            [["E", ct + 5, 0]], [["X", ct + 5]], []):
                    evs = [["S", 0, 0, 0, False, True, None, rel, 1, None, 0, 4], ["C", ct, 0]] + fev + \
                          [["A", ct + 40]]
                    out.append({"events": evs, "rules": [], "draws": [], "mid": c07_stack.REQ_MID, "token": 32,
                                "consumer": {"work": work}})
    return out


def stack_boundary_scripts(R):
    """the thresholds over the wire: half-circle +-1, 128 s +-1 tick, CON and NON"""
    TOK = c07_stack.TOKEN
    out = []
    for mt in ("CON", "NON"):
        for v1 in (5, M24 - 1):
            for d in (M23 - 1, M23, M23 + 1, 0, 1, M24 - 1):
                for gap in (1, R - 1, R, R + 1):
                    v2 = (v1 + d) % M24
                    evs = [["S", 0, 0, 0, False, True, None, True, 1, None, 0, 4],
                           ["R", 3, 0, False, "ACK", 69, c07_stack.REQ_MID, TOK, v1, 1],
                           ["R", 3 + gap, 0, False, mt, 69, 300, TOK, v2, 2],
                           ["R", 4 + gap, 0, False, mt, 69, 301, TOK, v1, 3],
                           ["R", 5 + gap, 0, False, mt, 132, 302, TOK, None, 4],
                           ["R", 6 + gap, 0, False, mt, 69, 303, TOK, (v2 + 1) % M24, 5],
                           ["A", 20 + gap]]
                    sc = {"events": evs, "rules": [], "draws": [], "mid": c07_stack.REQ_MID, "token": 32}
                    if (len(out) // 2) % 2:
                        # the final response (t = 5 + gap) arrives while the consumer is busy with
                        # the notification before it
                        sc["consumer"] = {"work": 3}
                    out.append(sc)
    return out


def stack_concurrent_scripts():
    """an established observation plus one or two further requests of the application, to the observation's peer or
    to another one, registered later and still outstanding -- or registered BEFORE the observing request, which then
    is the newest entry -- when the transport reports an error for the observation's peer / for the other peer, when
    a confirmable request to either runs out of retransmissions, or when one of them is answered with a Reset; then a
    confirmable notification on the observation's token (rejected after the end, delivered otherwise)"""
    out = []
    SEC = 1 << 20

    def other(t, r, rem, rel, mr=4):
        return ["S", t, r, rem, False, False, None, rel, 1, None, 0, mr]

    for obs_first in (True, False):
        tok = c07_stack.TOKEN if obs_first else "22"
        omid = c07_stack.REQ_MID if obs_first else c07_stack.REQ_MID + 1
        m1 = c07_stack.REQ_MID + 1 if obs_first else c07_stack.REQ_MID
        for rem1 in (0, 1):
            for rel1 in (True, False):
                for second in (None, 0, 1):
                    for fail in ("E0", "E1", "TO", "RST1", "E0-before-first"):
                        if fail in ("TO", "RST1") and not rel1:
                            continue
                        if fail == "E0-before-first" and second is not None:
                            continue
                        # (odd offsets: no input at the tick of a retransmission timer)
                        S0 = ["S", 0 if obs_first else 2 * SEC + 3, 0, 0, False, True, None, True, 1, None, 0, 4]
                        t1 = 9 * SEC + 5 if obs_first else 0
                        # time-out: 2 s + 4 s after 9 s / 2 s + 4 s + 8 s after 0 s
                        evs = [S0, other(t1, 1, rem1, rel1, (1 if obs_first else 2) if fail == "TO" else 4)]
                        if rel1 and fail != "TO":
                            evs.append(["R", t1 + SEC // 2, rem1, False, "ACK", 0, m1, "-", None, 0])   # empty ACK: stays outstanding
                        if fail != "E0-before-first":
                            evs.append(["R", 3 * SEC, 0, False, "ACK", 69, omid, tok, 5, 1])
                            evs.append(["R", 7 * SEC, 0, False, "NON", 69, 300, tok, 6, 2])
                        if second is not None:
                            evs.append(other(11 * SEC + 7, 2, second, False))
                        tf = 15 * SEC
                        if fail in ("E0", "E0-before-first"):
                            evs.append(["E", tf, 0])
                        elif fail == "E1":
                            evs.append(["E", tf, 1])
                        elif fail == "RST1":
                            evs.append(["R", tf, rem1, False, "RST", 0, m1, "-", None, 0])
                        # (time-out: request 1, confirmable with MAX_RETRANSMIT 1 / 2, is never acknowledged)
                        evs.append(["A", 19 * SEC])
                        evs.append(["R", 20 * SEC, 0, False, "CON", 69, 301, tok, 7, 3])
                        evs.append(["R", 22 * SEC, 0, False, "NON", 69, 302, tok, 8, 4])
                        evs.append(["A", 40 * SEC])
                        evs.sort(key=lambda e: e[1])
                        for cons in (None, {"work": 0}):
                            sc = {"events": evs, "rules": [], "draws": [], "mid": c07_stack.REQ_MID, "token": 32,
                                  "obs_token": tok, "obs_mid": omid, "family": "concurrent:" + fail}
                            if cons is not None:
                                if (len(out) // 3) % 4:
                                    continue
                                sc["consumer"] = cons
                            out.append(sc)
    return out


STACK_TUNINGS = ["class", "library-class", ["reset", 60], ["reset", 200], ["class-reset", 60]]


def stack_tuning_scripts(R):
    """the observing request's transport tuning passed the way applications do (as a class -- the harness's, or
    aiocoap.Reliable / aiocoap.Unreliable --, with OBSERVATION_RESET_TIME set) x CON / NON notifications that are
    reordered, duplicated, renumbered after the reset time that applies / exactly at it; then the final response"""
    TOK = c07_stack.TOKEN
    out = []
    for kind in STACK_TUNINGS:
        Rk = c07_pipe.tuned_reset_ticks(kind, R)
        for rel in (True, False):
            for mt in ("CON", "NON"):
                for cons in (None, {"work": 3}):
                    t = 3
                    evs = [["S", 0, 0, 0, False, True, None, rel, 1, None, 0, 4],
                           ["R", t, 0, False, "ACK" if rel else "NON", 69, c07_stack.REQ_MID if rel else 299, TOK, 10, 1]]
                    mid = 300
                    for i, (v, g) in enumerate([(12, 5), (11, 5), (12, 5), (13, 5), (5, Rk + 1), (6, 5), (3, Rk), (7, 9)]):
                        t += g
                        evs.append(["R", t, 0, False, mt, 69, mid, TOK, v, 2 + i])
                        mid += 1
                    evs.append(["R", t + 5, 0, False, mt, 132, mid, TOK, None, 50])
                    evs.append(["R", t + 9, 0, False, "CON", 69, mid + 1, TOK, 14, 51])
                    evs.append(["A", t + 40])
                    sc = {"events": evs, "rules": [], "draws": [], "mid": c07_stack.REQ_MID, "token": 32,
                          "tuning0": kind, "family": "tuning"}
                    if cons:
                        sc["consumer"] = cons
                    out.append(sc)
    return out


def strip_pipe_events(line):
    """the pipe events of request 0 are what the runner consumes (C02 compares them); the
    harness's own listener on the pipe misses the event during which the pipe ends"""
    # (msglayer.canon_model_line appends `~<tables>` to every group since the message-layer check
    # compares the managers' tables; the joint driver line of C07 carries no tables)
    return "|".join(";".join(x for x in g.split("~")[0].split(";") if not x.startswith(("r:0:", "f:0:")))
                    for g in line.split("|"))


def run_level_b(env, rep, R):
    scripts = [c["script"] for _, c in load_corpus("C07") if "script" in c]
    bnd = stack_boundary_scripts(R)
    if not env.thorough:
        bnd = bnd[::2]
    scripts += bnd
    scripts += stack_cancel_first_scripts()
    scripts += stack_audit_scripts()
    scripts += stack_concurrent_scripts()
    scripts += stack_tuning_scripts(R)
    for first in ("piggy", "sep", "noobs", "rst", "err", "shutdown", "cancel",
                  "oc+piggy", "oc+sep", "oc+noobs", "oc+rst", "oc+err", "oc+shutdown"):
        scripts += [stack_script(env.rng, R, forced=first) for _ in range(env.scale(6, 100))]
    for first in ("piggy", "sep"):
        scripts += [stack_script(env.rng, R, forced=first, consumer=True) for _ in range(env.scale(25, 400))]
    scripts += [stack_script(env.rng, R) for _ in range(env.scale(350, 6000))]
    lines, impl, cases = [], [], []
    for sc in scripts:
        res = c07_stack.run_stack(sc)
        case = {"level": "b", "script": sc}
        n_cb = res["impl_line"].count(":cb:")
        n_eb = res["impl_line"].count(":eb:")
        rep.case(case, nontrivial=(n_cb >= 1 and (n_eb >= 1 or "RST:0" in res["impl_line"])),
                 sample_every=200)
        rep.count("b:scripts")
        if sc.get("consumer"):
            rep.count("b:consumer=" + ("busy" if sc["consumer"]["work"] else "attentive"))
        if sc.get("eb_cancels"):
            for e in ("NotObservable", "ObservationCancelled", "T0", "T2", "T3"):
                if ":eb:" + e in res["impl_line"]:
                    rep.count("b:errback-cancels:" + e)
        evk = [e[0] for e in sc["events"]]
        if "C" in evk and all(e[0] not in ("R", "E", "X") for e in sc["events"][:evk.index("C")]):
            rep.count("b:response-cancelled-before-first" + (":consumer" if sc.get("consumer") else ""))
        if any(e[0] == "R" and e[8] is not None and 96 <= e[5] < 192 and e[7] == c07_stack.TOKEN and e[2] == 0
               for e in sc["events"]):
            rep.count("b:non-2.xx-with-observe")
        if "OC" in evk and all(e[0] not in ("R", "E", "X") for e in sc["events"][:evk.index("OC")]):
            rep.count("b:cancel-before-first")
        rep.count("b:callbacks", n_cb)
        rep.count("b:rst-sent", res["impl_line"].count("RST:0:"))
        rep.count("b:ack-sent", res["impl_line"].count("ACK:0:"))
        for tok in res["concrete"]:
            k = tok.split("@")[0]
            rep.count("b:event=" + k + (":" + tok.split(":")[3] if k == "R" else ""))
        for tok in (res.get("iter") or []):
            rep.count("b:consumer-saw=" + tok.split(":")[0])
        for e in ("NotObservable", "ObservationCancelled", "T0", "T1", "T2", "T3"):
            if ":eb:" + e in res["impl_line"]:
                rep.count("b:end=" + e)
        v, key = c07_stack.oracle_stack(sc, res)
        if v:
            rep.oracle_fail(case, v, key="stack:" + key)
        if res["same_tick_inputs"]:
            rep.count("b:discarded:same-tick-inputs")
            continue
        if sc.get("family"):
            rep.count("b:family=" + sc["family"])
            if sc["family"].startswith("concurrent") and sc.get("obs_token") != c07_stack.TOKEN:
                rep.count("b:observation-is-newest-entry")
        if sc.get("tuning0"):
            k = sc["tuning0"]
            rep.count("b:tuning=" + (k if isinstance(k, str) else "%s:%d" % tuple(k)))
        lines.append(f"C07 J {c07_pipe.tuned_reset_ticks(sc.get('tuning0'), R)} 1 " + " ".join(res["args"]))
        impl.append(strip_pipe_events(res["impl_line"]))
        cases.append(case)
    outs = env.lean(lines)
    for case, line, m, i in zip(cases, lines, outs, impl):
        if m == "bad-op":
            raise HarnessError(f"driver rejected line: {line[:300]}")
        if m == "out-of-model":
            rep.out_of_model += 1
            continue
        cm, tie, starved = msglayer.canon_model_line(m)
        if tie:
            rep.count("b:discarded:timer-tie")
            continue
        if starved:
            raise HarnessError("model ran out of time-out draws: " + line[:300])
        rep.traces += 1
        # the joint driver prints no table snapshots; msglayer's canonicaliser marks their (empty) place with "~"
        cm = strip_pipe_events("|".join(g.split("~")[0] for g in cm.split("|")))
        if cm != i:
            rep.disagree({"case": case, "line": line[:2000]}, cm[:3000], i[:3000],
                         what="observation over the UDP stack vs message layer + runner")


# ------------------------------------------------------------------------------------ running

def classify(rep, fam, h, res):
    n_cb = sum(1 for (_, dels, _) in res["raw"] for d in dels if d[0] == "cb")
    n_notif = sum(1 for e in h["events"][1:] if e[0] == "M" and e[3] is not None)
    ebs = [c07_pipe.Bench.exc_name(d[1]) for (_, dels, _) in res["raw"] for d in dels if d[0] == "eb"]
    rep.count("a:family=" + fam)
    if h.get("tuning") is not None:
        k = h["tuning"]
        rep.count("a:tuning=" + (k if isinstance(k, str) else "%s:%d" % tuple(k)))
    if h.get("eb_cancels") and ebs:
        rep.count("a:errback-cancels:" + ebs[0])
    rep.count("a:events=%d" % min(len(h["events"]), 13))
    rep.count("a:end=" + (ebs[0] if ebs else "none"))
    if h.get("iter"):
        rep.count("a:iterator=" + h["iter"]["mode"] + (":late" if h["iter"]["start"] else ""))
    for i, e in enumerate(h["events"]):
        rep.count("a:event=" + e[0] + (":noobs" if e[0] == "M" and e[3] is None else ""))
        if e[0] == "M" and e[3] is not None and not 64 <= e[2] < 96:
            rep.count("a:event=M:non-2.xx-with-observe" + (":first" if i == 0 else "") + (":last" if e[5] else ""))
        if e[0] == "M" and len(e) > 6 and e[6]:
            rep.count("a:event=M:cancels-in-callback")
        if e[0] == "RC" and not any(x[0] in ("M", "X") for x in h["events"][:i]):
            rep.count("a:event=RC:before-first" + (":iterating" if h.get("iter") else ""))
    if any(e[0] == "M" and e[3] is not None and e[3] >= M24 for e in h["events"]):
        rep.count("a:malformed=oversize-observe")
    return n_cb >= 1 and (n_cb < n_notif or bool(ebs))


async def run_level_a(env, rep, bench, R, fams):
    for fam, hs in fams:
        lines, impl, cases = [], [], []
        for h in hs:
            res = await bench.run_history(h)
            nontriv = classify(rep, fam, h, res)
            rep.case({"level": "a", "history": h}, nontrivial=nontriv,
                     sample_every=20000 if fam != "random" else 1500)
            v, key = c07_pipe.oracle_history(h, res)
            if v:
                rep.oracle_fail({"level": "a", "history": h}, v + " | observed: " + res["impl"],
                                key="pipe:" + key)
            lines.append(c07_pipe.driver_line(R, h))
            impl.append(res["impl"])
            cases.append({"level": "a", "history": h})
        compare(env, rep, cases, lines, impl, what="Request._run over a real Pipe (%s)" % fam)
        if fam.startswith("perm") or fam in ("pairs", "timing", "terminators", "app", "cancel-first", "codes",
                                             "cancel-in-callback", "response-cancel", "errback-cancels", "tuning"):
            rep.exhaustive_parts.append(f"{fam}: {len(hs)} histories")


# ------------------------------------------------------------------------------ level (i)

ITER_ALPHA = ["P", "EC", "ET2", "N", "W", "X"]
ITER_PASTS = [[], ["cb:1"], ["cb:1", "cb:2"], ["cb:1", "eb:C"], ["cb:1", "cb:2", "eb:C"], ["eb:N"],
              ["eb:T2"], ["cb:1", "cb:2", "eb:T1"], ["cb:1", "eb:T0"]]


def number_pushes(seq, start=1):
    ops, k = [], start
    for o in seq:
        if o == "P":
            ops.append("P%d" % k)
            k += 1
        else:
            ops.append(o)
    return ops


def level_i_cases(env):
    fams = [("corpus", [c["iterator"] for _, c in load_corpus("C07") if "iterator" in c])]
    L = env.scale(5, 7)
    ex = [{"pre": [], "ops": number_pushes(seq)} for n in range(0, L + 1)
          for seq in itertools.product(ITER_ALPHA, repeat=n)]
    fams.append(("exhaustive<=%d" % L, ex))
    La = env.scale(3, 4)
    fams.append(("aiter<=%d" % La, [{"pre": past, "ops": number_pushes(seq, 10)} for past in ITER_PASTS
                                    for n in range(0, La + 1)
                                    for seq in itertools.product(["P", "EC", "N", "W", "X"], repeat=n)]))
    rnd = []
    alpha = ITER_ALPHA + ["EN", "ET0", "ET1", "ET3", "P", "N", "W", "N", "W"]
    for _ in range(env.scale(3000, 120000)):
        n = env.rng.randrange(6, 16)
        seq, err = [], False
        wf = env.rng.random() < 0.7     # mostly what ClientObservation can produce
        for _ in range(n):
            o = env.rng.choice(alpha)
            if wf and err and o[0] in "PE":
                o = env.rng.choice(["N", "W", "X"])
            if o[0] == "E":
                err = True
            seq.append(o)
        past = env.rng.choice(ITER_PASTS) if env.rng.random() < 0.2 else []
        if wf and any(d.startswith("eb:") for d in past):
            seq = [o if o[0] not in "PE" else "N" for o in seq]
        rnd.append({"pre": past, "ops": number_pushes(seq, 10)})
    fams.append(("random", rnd))
    return fams


async def run_level_i(env, rep, aiocoap):
    bench = c07_iter.IterBench(aiocoap)
    for fam, cs in level_i_cases(env):
        lines, impl, cases = [], [], []
        for c in cs:
            line, drained, _ = await bench.run_case(c)
            case = {"level": "i", "iterator": c}
            outs = line.count("/") - line.count("./")
            rep.case(case, nontrivial=("i" in line and ("stop" in line or "raise" in line or
                                                         any(d != "cancelled" for d in drained))),
                     sample_every=40000)
            rep.count("i:family=" + fam.split("<")[0])
            rep.count("i:ops=%d" % min(len(c["ops"]), 16))
            for o in c["ops"]:
                rep.count("i:op=" + (o[0] if o[0] in "PE" else o))
            if c["pre"]:
                rep.count("i:aiter-after=" + ("end" if any(d.startswith("eb") for d in c["pre"]) else "items"))
            if not c07_iter.well_formed(c):
                rep.count("i:malformed=feed-after-error")
            if line == "out-of-model":
                rep.count("i:out-of-model")
            else:
                for tok in ("stop", "raise", "cancelled"):
                    if tok in line:
                        rep.count("i:out=" + tok)
                if "o" in [g[-1] for g in line.split() if "/" in g]:
                    rep.count("i:suspended-on-older-future")
                if any(g.split("/")[1][-2] != "-" for g in line.split() if "/" in g):
                    rep.count("i:error-kept-aside")
            v, key = c07_iter.oracle_iter(c, line, drained)
            if v:
                rep.oracle_fail(case, v + " | observed: " + line + " then " + ",".join(drained), key="iter:" + key)
            lines.append(c07_iter.driver_line(c))
            impl.append(line)
            cases.append(case)
        # the driver and the bench must agree on what is outside the model, too
        outs = compare(env, rep, cases, lines, impl, what="ClientObservation._Iterator (%s)" % fam)
        for case, m, i in zip(cases, outs, impl):
            if (m == "out-of-model") != (i == "out-of-model"):
                rep.disagree(case, m, i, what="iterator: out-of-model on one side only")
        if not fam.startswith(("random", "corpus")):
            rep.exhaustive_parts.append(f"iterator {fam}: {len(cs)} operation sequences")


# ------------------------------------------------------------------------------ level (c)

APP_SCRIPTS = [
    [["M", 69, 10, 1], ["M", 69, 11, 2], ["M", 69, 12, 3], ["M", 132, None, 4]],
    [["M", 69, 10, 1], ["M", 69, 11, 2], ["M", 69, 9, 3], ["X", 2]],
    [["M", 69, 10, 1], ["M", 132, None, 2]],
    [["M", 69, 10, 1], ["M", 69, None, 2]],
    [["M", 69, 10, 1], ["M", 69, 11, 2], ["M", 69, 11, 3], ["M", 69, 8, 4], ["M", 160, None, 5]],
    [["X", 2]], [["X", 0]], [["X", 1]],
    [["M", 69, None, 1]],
    [["M", 132, None, 1]],
    [["M", 69, 10, 1], ["M", 69, 11, 2], ["M", 69, 12, 3]],
    [["M", 69, (1 << 24) - 1, 1], ["M", 69, 0, 2], ["M", 69, (1 << 24) - 2, 3], ["M", 69, 1, 4]],
    [["M", 69, 10, 1], ["X", 1]],
    [["M", 69, 10, 1], ["X", 0]],
    # "(as every non-2.xx one is)": error responses that carry an Observe option anyway
    [["M", 69, 10, 1], ["M", 69, 11, 2], ["M", 132, 12, 3], ["M", 69, 13, 4]],
    [["M", 69, 10, 1], ["M", 69, 11, 2], ["M", 132, 5, 3], ["M", 69, 13, 4]],
    [["M", 69, 10, 1], ["M", 160, 11, 2], ["M", 69, 12, 3]],
    [["M", 132, 10, 1], ["M", 69, 11, 2]],
    [["M", 160, 0, 1]],
    [["M", 69, 10, 1], ["M", 95, 11, 2], ["M", 64, 12, 3], ["M", 96, 13, 4], ["M", 69, 14, 5]],
]
APP_GAPS = [(0, 0, 0, 0, 0), (4, 4, 4, 4, 4), (4, 0, 0, 0, 0), (2, 1, 0, 1, 0), (0, 3, 0, 0, 1),
            (4, 4, 4, 0, 0), (4, 4, 0, 4, 0), (1, 1, 1, 1, 1)]
APP_CONSUMERS = [("callbacks", 0, 0), ("iter", 0, 0), ("iter", 0, 2), ("iter", 0, 5), ("iter", 3, 0),
                 ("iter", 6, 1), ("iter", 12, 0),
                 # a polling consumer: every wait is bounded by asyncio.wait_for, timed-out waits are repeated
                 ("poll", 0, 0), ("poll", 0, 2), ("poll", 3, 0)]


APP_OTHERS = [[[1, 0]], [[1, 1]], [[1, 0], [2, 0]], [[1, 1], [2, 1]], [[2, 0], [2, 1]], [[-1, 0]], [[-1, 1]],
              [[-1, 0], [1, 1]], [[-1, 1], [1, 0]], [[0, 0]], [[0, 1]], [[-1, 0], [-1, 1], [1, 0], [1, 1]]]


def app_concurrent_cases():
    """further requests of the application outstanding -- to the observation's peer or to another one, registered
    before the observing request, while it awaits its first response, or later (so that the observation is the
    oldest, a middle or the newest entry of the token manager) -- when the transport reports a failure for the
    observation's peer (time-out of retransmissions, network error), for the OTHER peer, or a Reset of the request"""
    scripts = [
        [["M", 69, 10, 1], ["M", 69, 11, 2], ["X", 2]],
        [["M", 69, 10, 1], ["M", 69, 11, 2], ["X", 1], ["M", 69, 12, 3]],
        [["M", 69, 10, 1], ["M", 69, 11, 2], ["X", 2, 1], ["M", 69, 12, 3], ["M", 132, None, 4]],
        [["M", 69, 10, 1], ["M", 69, 11, 2], ["X", 1, 1], ["X", 2, 0], ["M", 69, 12, 3]],
        [["M", 69, 10, 1], ["M", 69, 11, 2], ["M", 132, None, 3], ["X", 2, 0]],
        [["X", 2]], [["X", 1]], [["X", 0]],
        [["M", 69, 10, 1], ["X", 0], ["M", 69, 11, 2]],
        [["M", 69, None, 1], ["X", 2]],
    ]
    out = []
    for bw in (False, True):
        for cons, op, work in (("callbacks", 0, 0), ("iter", 0, 0), ("iter", 0, 2), ("poll", 0, 0)):
            for others in APP_OTHERS:
                for script in scripts:
                    if len(script) < 3 and any(w > 0 for w, _ in others):
                        continue
                    out.append({"blockwise": bw, "consumer": cons, "open": op, "work": work, "others": others,
                                "arrivals": [[2] + a for a in script]})
    return out


def app_cancel_cases():
    """the application cancels the observation itself -- before the first response, the moment the response is
    complete (`await request.response; request.observation.cancel()`), between notifications -- and the server goes
    on notifying / ends the observation: the token is given up; and late notifications after every kind of end"""
    out = []
    notifs = [["M", 69, 10, 1], ["M", 69, 11, 2], ["M", 69, 12, 3], ["M", 69, 13, 4], ["M", 69, 14, 5]]
    tails = (notifs, notifs[:3] + [["M", 132, None, 4], ["M", 69, 14, 5]], notifs[:2] + [["X", 2], ["M", 69, 14, 5]])
    for bw in (False, True):
        for cons, op, work in (("callbacks", 0, 0), ("iter", 0, 0)):
            for gaps in ((3, 3, 3, 3, 3), (3, 0, 0, 0, 0), (0, 0, 0, 0, 0), (3, 0, 1, 3, 3)):
                for script in tails:
                    if cons != "callbacks":
                        break     # (what an iteration over an observation its application cancelled does is not claimed)
                    arr = [[g] + a for g, a in zip(gaps, script)]
                    for oc in (0, 1, 2):
                        out.append({"blockwise": bw, "consumer": cons, "open": op, "work": work, "oc": oc,
                                    "arrivals": arr})
                    out.append({"blockwise": bw, "consumer": cons, "open": op, "work": work,
                                "cancel_on_response": True, "arrivals": arr})
            for end in (["M", 132, None, 3], ["M", 69, None, 3], ["M", 160, 20, 3], ["X", 1], ["X", 2], ["X", 0]):
                out.append({"blockwise": bw, "consumer": cons, "open": op, "work": work,
                            "arrivals": [[3] + a for a in notifs[:2] + [end] + notifs[2:]]})
            for first in (["M", 69, None, 1], ["M", 132, 5, 1], ["X", 2], ["X", 0]):
                out.append({"blockwise": bw, "consumer": cons, "open": op, "work": work,
                            "arrivals": [[3] + a for a in [first] + notifs[1:4]]})
    return out


def app_tuning_cases(R):
    """the request's transport tuning (c07_pipe.TUNINGS) x reordered / duplicated / renumbered notifications on a
    clock, with gaps around the reset time that applies; both APIs, callbacks and iteration"""
    out = []
    for kind in c07_pipe.TUNINGS:
        Rk = c07_pipe.tuned_reset_ticks(kind, R)
        seqs = [[(10, 0), (12, 5), (11, 5), (12, 5), (13, 5), (5, Rk + 1), (6, 5), (3, Rk), (None, 5)],
                [(10, 0), (9, Rk - 1), (8, 2), (11, 0), (11, Rk), (11, 1), (2, 9)],
                [((1 << 24) - 1, 0), (0, 1), ((1 << 24) - 1, 1), ((1 << 23), Rk + 1), (0, Rk + 1), (0, Rk)]]
        if Rk != R:
            seqs.append([(10, 0), (9, R - 1), (9, R), (9, R + 1), (8, Rk + 1), (9, 1)])
        for seq in seqs:
            arr, at, t = [], [], 0
            for i, (v, g) in enumerate(seq):
                t += g
                at.append(t)
                arr.append([3, "M", 69 if v is not None else 132, v, i + 1])
            for bw in (False, True):
                for cons, op, work in (("callbacks", 0, 0), ("iter", 0, 0), ("iter", 0, 2)):
                    out.append({"blockwise": bw, "consumer": cons, "open": op, "work": work, "tuning": kind,
                                "arrivals": arr, "at": at})
    return out


def level_c_cases(env, R):
    out = [c["app"] for _, c in load_corpus("C07") if "app" in c]
    out += app_concurrent_cases()
    out += app_tuning_cases(R)
    out += app_cancel_cases()
    for bw in (False, True):
        for cons, op, work in APP_CONSUMERS:
            for gaps in APP_GAPS:
                for script in APP_SCRIPTS:
                    out.append({"blockwise": bw, "consumer": cons, "open": op, "work": work,
                                "arrivals": [[g] + a for g, a in zip(gaps, script)]})
    # the application cancels from inside its callback, at every item of every script
    for bw in (False, True):
        for gaps in (APP_GAPS[0], APP_GAPS[1], APP_GAPS[3]):
            for script in APP_SCRIPTS:
                for a in script[1:]:
                    if a[0] == "M":
                        out.append({"blockwise": bw, "consumer": "callbacks", "open": 0, "work": 0, "cancel_at": a[3],
                                    "arrivals": [[g] + x for g, x in zip(gaps, script)]})
    # the application gives the request up (request.response.cancel(), as asyncio.wait_for does) before the first
    # response -- or after it, where the future is complete and nothing changes
    for bw in (False, True):
        for cons, op, work in APP_CONSUMERS:
            for script in ([], APP_SCRIPTS[0], APP_SCRIPTS[2], APP_SCRIPTS[8]):
                out.append({"blockwise": bw, "consumer": cons, "open": op, "work": work, "rc": 0,
                            "arrivals": [[4] + a for a in script]})
            for script in (APP_SCRIPTS[0], APP_SCRIPTS[1], APP_SCRIPTS[10], APP_SCRIPTS[14]):
                for rc in (1, 2):
                    out.append({"blockwise": bw, "consumer": cons, "open": op, "work": work, "rc": rc,
                                "arrivals": [[4] + a for a in script]})
    # the errback cancels the observation it is being told the end of: at a Reset of the request, a time-out, a network
    # error (first event and later), not observable, a final response, a given-up request -- and, the observation still
    # running, at the Context.shutdown() the bench ends with
    for bw in (False, True):
        for script in ([["X", 0]], [["X", 1]], [["X", 2]], [["M", 69, None, 1]], [["M", 132, 5, 1]],
                       [["M", 69, 10, 1], ["M", 69, 11, 2], ["X", 2]], [["M", 69, 10, 1], ["X", 0]],
                       [["M", 69, 10, 1], ["M", 69, 11, 2], ["M", 132, None, 3]],
                       [["M", 69, 10, 1], ["M", 132, 12, 2]],
                       [["M", 69, 10, 1], ["M", 69, 11, 2], ["M", 69, 12, 3]]):
            for gaps in (APP_GAPS[0], APP_GAPS[1]):
                out.append({"blockwise": bw, "consumer": "callbacks", "open": 0, "work": 0, "eb_cancels": True,
                            "arrivals": [[g] + x for g, x in zip(gaps, script)]})
        out.append({"blockwise": bw, "consumer": "callbacks", "open": 0, "work": 0, "eb_cancels": True, "rc": 0,
                    "arrivals": []})
    for _ in range(env.scale(400, 20000)):
        n = env.rng.randrange(1, 7)
        cur = env.rng.choice([0, 5, (1 << 23) - 1, (1 << 24) - 2])
        arr = []
        for i in range(n):
            r = env.rng.random()
            g = env.rng.choice([0, 0, 0, 1, 2, 4])
            if r < 0.7:
                cur = (cur + env.rng.choice([1, 1, 2, 0, -1, 1 << 23, (1 << 23) - 1])) % (1 << 24)
                arr.append([g, "M", 69, cur, i + 1])
            elif r < 0.77:
                cur = (cur + env.rng.choice([1, 1, 2, 0, -1])) % (1 << 24)
                # (2.31 Continue as the answer to the request itself is a Block1 protocol error for BlockwiseRequest: C05)
                arr.append([g, "M", env.rng.choice([132, 160, 96, 64] + ([95] if i else [])), cur, i + 1])
                if arr[-1][2] >= 96:
                    break
            elif r < 0.9:
                arr.append([g, "M", env.rng.choice([69, 132, 160]), None, i + 1])
                break
            else:
                arr.append([g, "X", env.rng.randrange(3)])
                break
        cons, op, work = env.rng.choice(APP_CONSUMERS)
        sc = {"blockwise": env.rng.random() < 0.6, "consumer": cons, "open": op, "work": work, "arrivals": arr}
        if cons == "callbacks" and env.rng.random() < 0.3:
            sc["cancel_at"] = env.rng.randrange(1, n + 1)
        if cons == "callbacks" and env.rng.random() < 0.3:
            sc["eb_cancels"] = True
        if env.rng.random() < 0.08:
            sc["rc"] = env.rng.choice([0, 0, 1])
            if sc["rc"] == 0:
                sc["arrivals"] = [a for a in arr if a[1] == "M"]
        elif env.rng.random() < 0.3:
            sc["others"] = [[env.rng.randrange(-1, len(arr)), env.rng.randrange(2)]
                            for _ in range(env.rng.randrange(1, 4))]
            if env.rng.random() < 0.5 and len(arr) > 1:
                k = env.rng.randrange(1, len(arr))
                sc["arrivals"] = arr[:k] + [[env.rng.choice([0, 2]), "X", env.rng.choice([1, 2]), 1]] + arr[k:]
        if env.rng.random() < 0.3:
            sc["tuning"] = env.rng.choice(c07_pipe.TUNINGS[1:])
            Rk = c07_pipe.tuned_reset_ticks(sc["tuning"], R)
            t, sc["at"] = 0, []
            for _ in sc["arrivals"]:
                t += env.rng.choice([0, 1, 1, 5, Rk - 1, Rk, Rk + 1, R + 1])
                sc["at"].append(t)
        out.append(sc)
    return out


async def run_level_c(env, rep, aiocoap, R):
    bench = c07_app.AppBench(aiocoap)
    for sc in level_c_cases(env, R):
        res = await bench.run(sc)
        case = {"level": "c", "app": sc}
        items = [x for x in res["seen"] if x[0] == "item"]
        rep.case(case, nontrivial=bool(items) and len(res["seen"]) > len(items), sample_every=3000)
        rep.count("c:scenarios")
        rep.count("c:api=" + ("blockwise" if sc["blockwise"] else "plain") + ":" + sc["consumer"] +
                  (":late" if sc.get("open") else "") + (":busy" if sc.get("work") else ""))
        if sc["arrivals"] and sc["arrivals"][0][1] == "X":
            rep.count("c:first-event-transport-error:" + ("blockwise" if sc["blockwise"] else "plain"))
        if any(a[0] == 0 for a in sc["arrivals"][1:]):
            rep.count("c:back-to-back")
        if sc.get("rc") is not None:
            rep.count("c:response-cancelled:" + ("before-first" if sc["rc"] == 0 else "later") + ":" +
                      ("blockwise" if sc["blockwise"] else "plain") + ":" + sc["consumer"])
        if sc.get("eb_cancels"):
            for x in res["seen"] + (res.get("after_shutdown") or []):
                if x[0] == "eb":
                    rep.count("c:errback-cancels:" + x[1])
        if sc.get("cancel_at") is not None:
            rep.count("c:cancel-in-callback" + (":hit" if ("item", sc["cancel_at"]) in res["seen"] else ""))
        if any(a[1] == "M" and a[3] is not None and not 64 <= a[2] < 96 for a in sc["arrivals"]):
            rep.count("c:non-2.xx-with-observe")
        if sc.get("oc") is not None or sc.get("cancel_on_response"):
            rep.count("c:application-cancels:" + ("on-response" if sc.get("cancel_on_response") else
                                                  "before-first" if sc["oc"] == 0 else "later") +
                      (":blockwise" if sc["blockwise"] else ":plain"))
        if any(ok is False for _, ok in res["matched"]):
            rep.count("c:late-arrival-rejected")
        if sc.get("tuning") is not None:
            k = sc["tuning"]
            rep.count("c:tuning=" + (k if isinstance(k, str) else "%s:%d" % tuple(k)))
        if sc.get("others"):
            for a in sc["arrivals"]:
                if a[1] == "X" and a[2] != 0:
                    rep.count("c:transport-failure-with-other-requests:" +
                              ("other-peer" if len(a) > 3 and a[3] else "observed-peer"))
            if any(w == -1 for w, _ in sc["others"]):
                rep.count("c:observation-is-newest-entry")
            for rem, st in res["others"]:
                rep.count("c:other-request=" + st.split(":")[0])
        for x in res["seen"]:
            if x[0] != "item":
                rep.count("c:end=" + x[0] + (":" + x[1] if len(x) > 1 else ""))
        v, key = c07_app.oracle_app(sc, res)
        if v:
            rep.oracle_fail(case, v, key=key)


# ------------------------------------------------------------------------------ level (d)

async def run_level_d(env, rep, aiocoap):
    """block-wise notifications through the default API (harness/c07_bw.py): the application's view is judged by
    the oracle; what `BlockwiseRequest._run_observation` did with every item of the lower iteration is compared
    with the Lean model of the loop (`C07 U`)"""
    scs = [c["bw"] for _, c in load_corpus("C07") if "bw" in c]
    scs += c07_bw.boundary_scenarios()
    scs += [c07_bw.random_scenario(env.rng) for _ in range(env.scale(700, 30000))]
    lines, impl, cases = [], [], []
    for sc in scs:
        res = await c07_bw.run_scenario(aiocoap, sc)
        case = {"level": "d", "bw": sc}
        items = [x for x in res["seen"] if x[0] == "item"]
        rep.case(case, nontrivial=bool(items) and any(t[0].endswith((":skip", ":net")) or t[0] in ("stop", "raise")
                                                       for t in res["trace"]), sample_every=2000)
        rep.count("d:scenarios")
        rep.count("d:consumer=" + sc["consumer"] + (":busy" if sc.get("work") else ""))
        for t, _ in res["trace"]:
            rep.count("d:loop-event=" + (t.split(":", 1)[1] if ":" in t else t))
        for e in res["served"]:
            if e[0] == "B":
                rep.count("d:block-reply=" + e[3])
            elif e[0] == "F":
                rep.count("d:final=" + ("non-2.xx-with-observe" if e[2] is not None else "no-observe"))
        st = sc["steps"]
        if any(a[0] == "N" and b[0] == "N" for a, b in zip(st, st[1:])):
            rep.count("d:notification-overtakes-fetch")
        if any(x[0] == "S" for x in st):
            rep.count("d:state-change-during-fetch")
        if st and st[0] == ["RC"]:
            rep.count("d:response-cancelled-before-first")
        elif res["gave_up"]:
            rep.count("d:response-cancelled-during-first-body")
        if sc.get("cancel_at") is not None and ("item", 69, sc["cancel_at"]) in res["seen"]:
            rep.count("d:cancel-in-callback:hit")
        if ("oc",) in res["seen"]:
            rep.count("d:application-cancels:" + ("on-response" if sc.get("cancel_on_response") else
                                                  "before-first" if st and st[0] == ["OC"] else
                                                  "during-first-body" if not any(e[0] == "B" for e in
                                                  res["served"][:res["served"].index(("OC",))]) and sc["reps"][0][0] > 1
                                                  else "later"))
        if any(ok is False for _, ok in res["matched"]):
            rep.count("d:late-arrival-rejected")
        if sc.get("tuning") is not None:
            k = sc["tuning"]
            rep.count("d:tuning=" + (k if isinstance(k, str) else "%s:%d" % tuple(k)))
        if res["others"]:
            for e in res["served"]:
                if e[0] == "X" or (e[0] == "B" and e[3] == "neterr"):
                    rep.count("d:transport-failure-with-other-requests:" +
                              ("other-peer" if e[0] == "X" and len(e) > 2 and e[2] else "observed-peer"))
            if any(x[0] == "O" and x[1] == -1 for x in st):
                rep.count("d:observation-is-newest-entry")
        v, key = c07_bw.oracle(sc, res)
        if v:
            rep.oracle_fail(case, v, key=key)
        tl = None if sc.get("oracle_only") else c07_bw.trace_lines(res)
        if tl is not None:
            lines.append(tl[0])
            impl.append(tl[1])
            cases.append(case)
    compare(env, rep, cases, lines, impl, what="BlockwiseRequest._run_observation vs the loop model")


def run(env, rep):
    aiocoap = env.import_repo()
    bench = c07_pipe.Bench(aiocoap)
    try:
        R = bench.reset_ticks()
        fams = level_a_cases(env, R)
        loop = asyncio.new_event_loop()
        import time as _time
        marks = [_time.time()]

        def mark(name):
            marks.append(_time.time())
            rep.notes.append("level %s: %.1f s" % (name, marks[-1] - marks[-2]))

        try:
            loop.run_until_complete(run_level_a(env, rep, bench, R, fams))
            mark("a")
            loop.run_until_complete(run_level_i(env, rep, aiocoap))
            mark("i")
            loop.run_until_complete(run_level_c(env, rep, aiocoap, R))
            mark("c")
            loop.run_until_complete(run_level_d(env, rep, aiocoap))
            mark("d")
        finally:
            loop.close()
    finally:
        bench.close()
    run_level_b(env, rep, R)
    # every branch of the model must have been exercised (else the run proves nothing: exit 2)
    need = ["a:end=NotObservable", "a:end=ObservationCancelled", "a:end=NetworkError", "a:end=MessageError",
            "a:end=none", "a:event=OC", "a:event=RC", "a:event=M:noobs", "a:iterator=attentive",
            "a:iterator=lazy", "a:iterator=busy", "a:iterator=lazy:late", "a:family=cancel-first",
            "i:op=P", "i:op=E", "i:op=N", "i:op=W", "i:op=X", "i:out=stop", "i:out=raise",
            "i:out=cancelled", "i:suspended-on-older-future", "i:error-kept-aside", "i:aiter-after=end",
            "i:aiter-after=items", "i:malformed=feed-after-error",
            "c:first-event-transport-error:blockwise", "c:first-event-transport-error:plain",
            "c:back-to-back", "c:end=stop", "c:end=raise:NetworkError", "c:end=eb:ObservationCancelled",
            "a:family=codes", "a:family=cancel-in-callback", "a:family=response-cancel",
            "a:event=M:non-2.xx-with-observe", "a:event=M:non-2.xx-with-observe:first",
            "a:event=M:non-2.xx-with-observe:last", "a:event=M:cancels-in-callback",
            "a:event=RC:before-first", "a:event=RC:before-first:iterating",
            "c:non-2.xx-with-observe", "c:cancel-in-callback:hit",
            "c:response-cancelled:before-first:blockwise:iter", "c:response-cancelled:before-first:plain:iter",
            "c:response-cancelled:before-first:blockwise:callbacks", "c:response-cancelled:later:plain:iter",
            "d:loop-event=ok", "d:loop-event=skip", "d:loop-event=net", "d:loop-event=stop", "d:loop-event=raise",
            "d:block-reply=etag", "d:block-reply=short", "d:block-reply=wrongnum", "d:block-reply=err",
            "d:block-reply=errb2", "d:block-reply=noblock2", "d:block-reply=neterr",
            "d:notification-overtakes-fetch", "d:state-change-during-fetch", "d:final=non-2.xx-with-observe",
            "d:response-cancelled-before-first", "d:response-cancelled-during-first-body", "d:cancel-in-callback:hit", "d:consumer=iter:busy",
            "a:family=errback-cancels", "a:errback-cancels:NotObservable", "a:errback-cancels:ObservationCancelled",
            "a:errback-cancels:NetworkError", "a:errback-cancels:MessageError", "a:errback-cancels:LibraryShutdown",
            "c:errback-cancels:MessageError", "c:errback-cancels:NetworkError", "c:errback-cancels:NotObservable",
            "c:errback-cancels:ObservationCancelled", "c:errback-cancels:LibraryShutdown",
            "b:errback-cancels:T0", "b:errback-cancels:T2", "b:errback-cancels:T3",
            "b:errback-cancels:NotObservable", "b:errback-cancels:ObservationCancelled",
            "b:response-cancelled-before-first:consumer", "b:non-2.xx-with-observe",
            "b:cancel-before-first", "b:consumer=busy", "b:end=NotObservable", "b:end=ObservationCancelled", "b:end=T2", "b:end=T3",
            "b:rst-sent", "b:ack-sent", "b:event=R:CON", "b:event=R:NON", "b:callbacks",
            # round 4: transport tuning as passed by applications; other requests outstanding at a transport failure;
            # the application cancelling the observation itself; late arrivals on the token
            "a:family=tuning", "a:tuning=Reliable", "a:tuning=Unreliable", "a:tuning=subclass", "a:tuning=reset:60",
            "a:tuning=class-reset:60", "a:tuning=latency",
            "b:family=tuning", "b:tuning=library-class", "b:tuning=class", "b:tuning=reset:60", "b:tuning=class-reset:60",
            "b:family=concurrent:E0", "b:family=concurrent:E1", "b:family=concurrent:TO", "b:family=concurrent:RST1",
            "b:observation-is-newest-entry", "b:end=T1",
            "c:tuning=Reliable", "c:tuning=Unreliable", "c:tuning=reset:60", "c:tuning=class-reset:60",
            "c:transport-failure-with-other-requests:observed-peer", "c:transport-failure-with-other-requests:other-peer",
            "c:observation-is-newest-entry", "c:other-request=pending", "c:other-request=raise",
            "c:application-cancels:on-response:blockwise", "c:application-cancels:on-response:plain",
            "c:application-cancels:before-first:blockwise", "c:application-cancels:later:blockwise",
            "c:late-arrival-rejected",
            "d:tuning=Reliable", "d:tuning=Unreliable", "d:transport-failure-with-other-requests:observed-peer",
            "d:transport-failure-with-other-requests:other-peer", "d:observation-is-newest-entry",
            "d:application-cancels:on-response", "d:application-cancels:before-first",
            "d:application-cancels:during-first-body", "d:application-cancels:later", "d:late-arrival-rejected"]
    missing = [k for k in need if not rep.hist.get(k)]
    if missing and not (rep.oracle_failures or rep.disagreements):
        # (several of these are counted on what the implementation did: when it misbehaves the
        # violation is what has to be reported, not the hole it leaves in the coverage)
        raise HarnessError("generators did not reach: " + ", ".join(missing))
    if R != c07_pipe.RFC_RESET_TICKS:
        rep.notes.append(f"implementation's OBSERVATION_RESET_TIME is {R} ticks, RFC 7641 says 128 s")


def replay(env, case):
    aiocoap = env.import_repo()
    if case.get("level") == "a":
        bench = c07_pipe.Bench(aiocoap)
        loop = asyncio.new_event_loop()
        try:
            res = loop.run_until_complete(bench.run_history(case["history"]))
        finally:
            loop.close()
            bench.close()
        v, _ = c07_pipe.oracle_history(case["history"], res)
        return v and (v + " | observed: " + res["impl"])
    if case.get("level") == "i":
        loop = asyncio.new_event_loop()
        try:
            line, drained, _ = loop.run_until_complete(c07_iter.IterBench(aiocoap).run_case(case["iterator"]))
        finally:
            loop.close()
        v, _ = c07_iter.oracle_iter(case["iterator"], line, drained)
        return v and (v + " | observed: " + line + " then " + ",".join(drained))
    if case.get("level") == "c":
        loop = asyncio.new_event_loop()
        try:
            res = loop.run_until_complete(c07_app.AppBench(aiocoap).run(case["app"]))
        finally:
            loop.close()
        v, _ = c07_app.oracle_app(case["app"], res)
        return v
    if case.get("level") == "d":
        loop = asyncio.new_event_loop()
        try:
            res = loop.run_until_complete(c07_bw.run_scenario(aiocoap, case["bw"]))
        finally:
            loop.close()
        v, _ = c07_bw.oracle(case["bw"], res)
        return v
    if case.get("level") == "b":
        res = c07_stack.run_stack(case["script"])
        v, _ = c07_stack.oracle_stack(case["script"], res)
        return v and (v + " | observed: " + res["impl_line"])
    raise HarnessError("unknown replay case")
