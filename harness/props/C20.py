"""C20 — resource directory: lookups reflect exactly the live registrations.

Correspondence (model ≈ code): the real `StandaloneResourceDirectory` site, entered at `render`
level with hand-built incoming requests from a fake remote, on a virtual clock
(`c20_vloop.VLoop`, 8 ticks per second), against the Lean model `Apps/Rd.lean` given the same
history on one driver line.  Compared per operation: response code, Location-Path, canonicalised
(parsed, sorted) lookup / registration payloads; after the history the two indexes
`_by_key` / `_by_path` (key, path, lt, base, base_is_explicit).

Oracle: a reference dict-based resource directory written from RFC 9176 / the property text.  It
is driven by the *response codes the implementation gave* (a write counts iff it was answered
2.xx) and checked against unfiltered endpoint and resource lookups taken after every
operation, so it needs no knowledge of which parameters the implementation accepts -- with one
exception: a small class of writes every RFC 9176 directory must accept (`certainly_valid`) has to
be answered 2.01 / 2.04, so that a directory refusing too much is not blessed.  Lookup answers are
read by `read_links`, written from the RFC 6690 grammar with strict parmnames: an answer it cannot
read is an oracle failure (`snapshot:lookups-broken`).
"""
import logging
import re
import warnings
from urllib.parse import urljoin

from common import compare, load_corpus

RULE = ("Histories of register / re-register / POST update / PUT / DELETE / GET / endpoint and "
        "resource lookup / time advance over endpoint names n1..n3 and sectors none/s1/s2, "
        "with valid and invalid parameters (lt numeric, negative, non-numeric, duplicated; base "
        "explicit, duplicated, unresolvable (unpaired bracket); ep/d missing, duplicated or given "
        "on update; unknown keys; filter-only keys; options WITHOUT a value (?flag, ?lt, ?base, "
        "?ep, ?d, ?count, ?page, ?rt ...) on registrations, POST, PUT and lookups; values with "
        "quotes and backslashes; bodies with wrong or missing Content-Format, unparsable, with "
        "unresolvable link targets, or present on POST; anonymous remote). Order: corpus, a "
        "boundary table enumerated in full (every lt/grace deadline at -1/0/+1 tick after "
        "register, re-register, POST, PUT and failed writes; every refusal kind on a new key, an "
        "existing key, POST and PUT; every valueless option x every kind of write x every "
        "deadline that write could have produced, followed by a plain update and its deadline; "
        "path reuse; default lt 90000; the framing characters \" ; , < > space backslash and non-ASCII "
        "(= in values) in registration parameter names, bases, link targets and anchors on register, "
        "re-register, POST and PUT; a list of certainly valid RFC 9176 writes), then random histories from env.rng whose time steps aim "
        "at pending deadlines -1/0/+1 tick (valueless options, quoted values and bad bases are "
        "part of the ordinary stream); up to 15 % of the random histories come from a malformed "
        "stream (exotic lt spellings, odd bases, pagination, wildcards, proxy) that the model "
        "refuses (out-of-model) but the oracle still judges. A history is non-trivial when it "
        "has a successful write, an error answer or an expiry, and a lookup listing at least one "
        "registration; distinct by the full op list.")
TRUSTED = ["harness/c20_vloop.py virtual clock (asyncio timers fired by moving time())",
           "the harness-side link-format reader used to canonicalise payloads"]
ASSUMPTIONS = ["proxy mode, simple registration, page/count with a value, wildcard filters, explicit "
               "anchor attributes, bases other than scheme://authority (authority a name or a "
               "bracketed IPv6 literal; with an unpaired bracket or a '>' anywhere: in the model, refused) "
               "and lt spellings other than [+-]?[0-9]+ below 2^40 are out-of-model (judged by the oracle only)",
               "the model sees query option names of any printable-ASCII shape (non-parmnames are refused on "
               "writes) but link targets only as absolute paths [A-Za-z0-9/_-] and link attribute names only as "
               "[A-Za-z0-9._-]+; non-ASCII names, other targets and anchors are judged by the oracle only; "
               "names of link ATTRIBUTES with other characters (k\\y, non-ASCII: passed through to the resource "
               "lookup by the directory) are not generated",
               "which characters a link target may hold is not judged: the oracle's reader takes a target up to "
               "the first '>' as every reader of the format does",
               "iteration order of the directory is not part of the property: lookup results are "
               "compared as sorted lists"]

TPS = 8                      # ticks per second of the virtual clock
RD = ("resourcedirectory", "")
EPL = ("endpoint-lookup", "")
RESL = ("resource-lookup", "")
# payloads the directory must refuse with 4.00 although Content-Format says link-format: not UTF-8 / not
# link-format (g, g1, g2), or link-format whose targets can not be resolved against any base (g3, g4, g5)
GARBAGE = [b"garbage", b"\xff\xfe", b'</a>;x="unterminated', b"<//[>", b'</a>;anchor="//["', b"</ok>,<coap://[::1/x>"]

EPS = ["n1", "n2", "n3"]
DS = [None, None, "s1", "s2"]
REMOTES = ["coap://[2001:db8::1]", "coap://[2001:db8::2]:61616"]
BASES = ["coap://h1", "coap://[2001:db8::7]:5683", "coaps://node.example"]
LT_OK = ["0", "1", "2", "5", "60", "-14", "-15", "-16", "-20", "+7", "007", "90000"]
LT_BAD = ["abc", "", "1.5", "-", "0x10", "1e3", "5-", "+"]
BASES_BAD = ["coap://[", "coap://[2001:db8::7", "coap://h1]", "coaps://]:5683"]      # urlsplit: "Invalid IPv6 URL"
# values that need escaping inside a link-format quoted-string
QUOTY = ["a\\", 'a\\"b', 'q"uo\\te', '"', "\\\\", 'x;y,z="w"', "C:\\dir\\"]
VALUELESS = ["foo", "lt", "base", "ep", "d", "count", "page", "rt", "et", "href"]
HREFS = ["/a", "/b", "/s/t", "/"]
RTS = ["temp", "light-lux core.s", "x"]
IFS = ["sensor", "core.s core.a"]


# ---------------------------------------------------------------------------------------------
# canonical forms

def hx(s):
    b = s.encode("utf-8")
    return b.hex() if b else "-"


def q_token(query):
    if not query:
        return "~"
    return "&".join(hx(i[0]) + "=" + hx(i[1]) if len(i) == 2 else hx(i[0]) for i in query)


def body_token(body):
    cf, pl = body[0], body[1]
    if isinstance(pl, str):
        return cf + pl[0]
    return cf + "k" + ";".join(",".join([hx(h)] + [hx(k) if v is None else hx(k) + "=" + hx(v) for k, v in attrs])
                               for h, attrs in pl) if pl else cf + "e"


def op_token(op):
    k = op[0]
    rem = lambda r: "!" if r is None else hx(r)
    if k == "R":
        return f"R:{rem(op[1])}:{q_token(op[2])}:{body_token(op[3])}"
    if k in "UP":
        return f"{k}:{op[1]}:{rem(op[2])}:{q_token(op[3])}:{body_token(op[4])}"
    if k in "XGT":
        return f"{k}:{op[1]}"
    return f"{k}:{q_token(op[1])}"


# RFC 5987 attr-char: what RFC 6690 allows in the NAME of a link parameter (parmname = 1*attr-char; a trailing "*"
# marks an ext-value parameter)
ATTRCHAR = set("ABCDEFGHIJKLMNOPQRSTUVWXYZabcdefghijklmnopqrstuvwxyz0123456789!#$&+-.^_`|~")
# RFC 6690 ptokenchar
PTOKENCHAR = set("ABCDEFGHIJKLMNOPQRSTUVWXYZabcdefghijklmnopqrstuvwxyz0123456789!#$%&'()*+-./:<=>?@[]^_`{|}~")


def read_links(text):
    """Own reader for the link-format the directory emits, written from the ABNF of RFC 6690 section 2 (it shares
    nothing with aiocoap's regular expressions, nor with what its writer happens to escape):

        link-value-list = [ link-value *( "," link-value ) ]
        link-value      = "<" URI-Reference ">" *( ";" link-param )
        link-param      = parmname [ "*" ] [ "=" ( ptoken / quoted-string ) ]
        parmname        = 1*attr-char                  -- NOT "anything up to the next = ; ," (the reader of the
                                                          earlier rounds took `;k y="1"` and `;a<b="1"` for parameters)
        quoted-string   = DQUOTE *( qdtext / quoted-pair ) DQUOTE;  quoted-pair = "\\" CHAR, standing for that CHAR

    -> [(href, [(name, value | None)])], or None when the text is not of that form.  The target is read up to the
    first ">" as every reader of the format does (which characters a URI-Reference may hold is not judged)."""
    links = []
    i, n = 0, len(text)
    while i < n:
        if text[i] != "<":
            return None
        j = text.find(">", i)
        if j < 0:
            return None
        href = text[i + 1:j]
        i = j + 1
        attrs = []
        while i < n and text[i] == ";":
            i += 1
            j = i
            while j < n and text[j] in ATTRCHAR:
                j += 1
            if j == i:
                return None                     # a parameter name was expected
            if j < n and text[j] == "*":
                j += 1
            key = text[i:j]
            i = j
            if i < n and text[i] == "=":
                i += 1
                if i < n and text[i] == '"':
                    i += 1
                    val = []
                    while True:
                        if i >= n:
                            return None         # unterminated quoted-string
                        c = text[i]
                        if c == "\\":
                            if i + 1 >= n:
                                return None
                            val.append(text[i + 1])
                            i += 2
                        elif c == '"':
                            i += 1
                            break
                        else:
                            val.append(c)
                            i += 1
                    attrs.append((key, "".join(val)))
                else:
                    j = i
                    while j < n and text[j] in PTOKENCHAR and text[j] not in ";,":
                        j += 1
                    if j == i:
                        return None
                    attrs.append((key, text[i:j]))
                    i = j
            else:
                attrs.append((key, None))
            if i < n and text[i] not in ";,":
                return None
        links.append((href, attrs))
        if i < n:
            if text[i] != ",":
                return None
            i += 1
            if i >= n:
                return None                     # trailing comma
    return links


def show_links(links, sort_attrs, sort_entries):
    ents = []
    for href, attrs in links:
        at = [hx(k) + ("=" + hx(v) if v is not None else "") for k, v in attrs]
        if sort_attrs:
            at.sort()
        ents.append(",".join([hx(href)] + at))
    if sort_entries:
        ents.sort()
    return ";".join(ents)


# ---------------------------------------------------------------------------------------------
# the implementation side

class Remote:
    """What the directory reads of `request.remote`."""
    is_multicast = False
    is_multicast_locally = False
    scheme = "coap"

    def __init__(self, error, uri):
        self._error, self._uri = error, uri

    @property
    def uri(self):
        if self._uri is None:
            raise self._error.AnonymousHost()
        return self._uri

    uri_base = uri


class Impl:
    def __init__(self, aiocoap):
        import aiocoap.cli.rd as rd
        import aiocoap.error as error
        from c20_vloop import VLoop
        import asyncio
        self.aiocoap, self.rd, self.error = aiocoap, rd, error
        self.loop = VLoop()
        asyncio.set_event_loop(self.loop)
        self.site = rd.StandaloneResourceDirectory(context=None)
        self.common = self.site.common_rd
        self.grace = rd.CommonRD.Registration.grace_period
        self.ticks = 0
        self.exceptions = []

    def close(self):
        import asyncio
        self.loop.dispose()
        asyncio.set_event_loop(None)

    def request(self, code, path, query=(), payload=b"", cf=None, remote=None, anonymous=False):
        a = self.aiocoap
        m = a.Message(code=code, uri_path=path, uri_query=tuple(query), payload=payload)
        if cf is not None:
            m.opt.content_format = cf
        m.remote = Remote(self.error, None if anonymous else (remote or REMOTES[0]))
        m.direction = a.message.Direction.INCOMING

        async def go():
            try:
                return await self.site.render(m)
            except self.error.RenderableError as e:
                return e.to_message()
        try:
            return self.loop.call(go())
        except Exception as e:                      # the stack would answer 5.00
            return e

    def advance(self, ticks):
        self.ticks += ticks
        self.loop.advance(ticks / TPS)

    @staticmethod
    def wire_query(query):
        return [i[0] + "=" + i[1] if len(i) == 2 else i[0] for i in query]

    @staticmethod
    def wire_body(body):
        cf = {"n": None, "l": 40, "o": 0}[body[0]]
        pl = body[1]
        if isinstance(pl, str):
            payload = b"" if pl == "e" else GARBAGE[int(pl[1:] or 0) % len(GARBAGE)]
        else:
            esc = lambda v: v.replace("\\", "\\\\").replace('"', '\\"')
            payload = ",".join("<%s>" % h + "".join((';%s' % k) if v is None else (';%s="%s"' % (k, esc(v)))
                                                   for k, v in attrs)
                               for h, attrs in pl).encode()
        return cf, payload

    def do(self, op):
        """Run one op; returns (token, response-or-exception)."""
        a = self.aiocoap
        k = op[0]
        if k == "T":
            self.advance(op[1])
            return "T", None
        if k == "R":
            cf, payload = self.wire_body(op[3])
            r = self.request(a.POST, RD, self.wire_query(op[2]), payload, cf,
                             remote=op[1], anonymous=op[1] is None)
        elif k in "UP":
            cf, payload = self.wire_body(op[4])
            r = self.request(a.POST if k == "U" else a.PUT, ("reg", str(op[1]), ""),
                             self.wire_query(op[3]), payload, cf, remote=op[2], anonymous=op[2] is None)
        elif k == "X":
            r = self.request(a.DELETE, ("reg", str(op[1]), ""))
        elif k == "G":
            r = self.request(a.GET, ("reg", str(op[1]), ""))
        elif k == "E":
            r = self.request(a.GET, EPL, self.wire_query(op[1]))
        elif k == "S":
            r = self.request(a.GET, RESL, self.wire_query(op[1]))
        else:
            raise ValueError(op)
        return self.token(k, r), r

    def token(self, k, r):
        if isinstance(r, Exception):
            # what the stack makes of an exception that is no RenderableError: 5.00 Internal Server Error
            self.exceptions.append(type(r).__name__)
            return "E500"
        code = r.code.class_ * 100 + (int(r.code) & 0x1F)
        if code >= 400:
            return f"E{code}"
        if code == 201:
            lp = r.opt.location_path
            if len(lp) == 3 and lp[0] == "reg" and lp[2] == "" and lp[1].isdigit() and str(int(lp[1])) == lp[1]:
                return f"C{lp[1]}"
            return "C?" + "/".join(lp)
        if code == 204:
            return "H"
        if code == 202:
            return "D"
        if code == 205:
            links = read_links(r.payload.decode("utf-8"))
            if links is None:
                return "unreadable:" + r.payload.hex()
            if k == "G":
                return "G[" + show_links(links, False, False) + "]"
            return "L[" + show_links(links, k == "E", True) + "]"
        return f"code{code}"

    def dump(self):
        """The two indexes, canonical."""
        def pn(path):
            return path[-2] if len(path) >= 2 and path[-1] == "" else "?" + "/".join(path)
        ks = sorted(f"{hx(ep)}/{'~' if d is None else hx(d)}/{pn(reg.path)}/{reg.lt}/"
                    f"{hx(reg.base)}/{1 if reg.base_is_explicit else 0}"
                    for (ep, d), reg in self.common._by_key.items())
        ps = sorted(f"{pn(p)}/{hx(reg.registration_parameters['ep'][0])}/"
                    f"{'~' if reg.registration_parameters.get('d', [None])[0] is None else hx(reg.registration_parameters['d'][0])}"
                    for p, reg in self.common._by_path.items())
        return "K[" + ";".join(ks) + "] P[" + ";".join(ps) + "]"

    def snapshot(self):
        """What a client can see of the whole directory: unfiltered lookups."""
        a = self.aiocoap
        e = self.request(a.GET, EPL)
        s = self.request(a.GET, RESL)
        def content(r):
            if isinstance(r, Exception) or r.code != a.CONTENT:
                return None
            try:
                return read_links(r.payload.decode("utf-8"))
            except UnicodeDecodeError:
                return None
        return content(e), content(s)


# ---------------------------------------------------------------------------------------------
# the oracle: a reference resource directory

def join(base, href):
    """RFC 3986 resolution for the reference; a pair that can not be resolved resolves to a marker no lookup
    can show (an accepted registration with such a pair then fails the snapshot rule)"""
    try:
        return urljoin(base, href)
    except ValueError:
        return "!unresolvable:" + base + "|" + href


def based(base, h, at):
    """A registered link as a resource lookup shows it (RFC 9176 section 6: targets and anchors resolved against the
    registration's base); an explicit anchor travels as the last attribute (the order of link parameters carries no
    meaning; the writer's is taken)"""
    if any(k == "anchor" and v is not None for k, v in at):
        anchor = [v for k, v in at if k == "anchor"][0]
        return (join(base, h), [(k, v) for k, v in at if k != "anchor"] + [("anchor", join(base, anchor))])
    return (join(base, h), at)


# ---- writes every resource directory must accept (RFC 9176 section 5): a small, certainly valid class
RESERVED = ("ep", "d", "lt", "base", "page", "count", "rt", "href", "anchor", "proxy")
V_NAME = re.compile(r"[A-Za-z0-9._-]+\Z")
V_PARAM = re.compile(r"[a-z][a-z0-9._-]*\Z")
V_VALUE = re.compile(r"[A-Za-z0-9 ._:/<>=;,-]*\Z")          # `>` and friends are harmless in a VALUE: it is quoted
_HOST = r"(?:[A-Za-z0-9.-]+|\[[0-9a-f:]+\])(?::[0-9]{1,5})?"
V_BASE = re.compile(r"(?:coap|coaps|coap\+tcp|coap\+ws|http|https)://" + _HOST + r"(?:/[A-Za-z0-9._~/-]*)?\Z")
V_TARGET = re.compile(r"(?:/[A-Za-z0-9._~/-]*|\.\./[A-Za-z0-9._~/-]*|[A-Za-z0-9._~-]+(?:/[A-Za-z0-9._~-]*)*|\?[A-Za-z0-9=&._-]*|"
                      r"(?:coap|coaps|coap\+tcp|coap\+ws|http|https)://" + _HOST + r"(?:/[A-Za-z0-9._~/-]*)?|"
                      r"urn:[A-Za-z0-9:._-]+|mailto:[a-z.@]+)\Z")


def certainly_valid(op, live):
    """True for a write of the class above; `live`: the registration addressed by a POST / PUT is alive"""
    k = op[0]
    remote, query, body = (op[1], op[2], op[3]) if k == "R" else (op[2], op[3], op[4])
    if remote is None or any(len(i) != 2 for i in query):
        return False
    names = [i[0] for i in query]
    if k == "R":
        if names.count("ep") != 1 or names.count("d") > 1:
            return False
    elif not live or "ep" in names or "d" in names:
        return False
    if names.count("lt") > 1 or names.count("base") > 1:
        return False
    for n, v in query:
        if n in ("ep", "d"):
            ok = bool(V_NAME.match(v))
        elif n == "lt":
            ok = v.isascii() and v.isdigit() and v[0] != "0" and 1 <= int(v) <= 4294967295
        elif n == "base":
            ok = bool(V_BASE.match(v))
        else:
            ok = n not in RESERVED and bool(V_PARAM.match(n)) and bool(V_VALUE.match(v))
        if not ok:
            return False
    if k == "U":
        return body == NOBODY
    if body[0] != "l" or (isinstance(body[1], str) and body[1] != "e"):
        return False
    for h, at in ([] if isinstance(body[1], str) else body[1]):
        if not V_TARGET.match(h):
            return False
        for an, av in at:
            if not V_PARAM.match(an) or an in ("href",):
                return False
            if an == "anchor" and (av is None or not V_TARGET.match(av)):
                return False
            if av is not None and not V_VALUE.match(av):
                return False
    return True


class Reference:
    """RFC 9176 registrations as a dict (ep, d) -> entry, driven by the observed response codes."""

    def __init__(self, grace):
        self.grace = grace
        self.now = 0
        self.regs = {}

    @staticmethod
    def single(query, key):
        v = [i[1] if len(i) == 2 else None for i in query if i[0] == key]
        return v[0] if v else None

    @staticmethod
    def params_of(query, skip):
        out = {}
        for i in query:
            if i[0] not in skip:
                out.setdefault(i[0], []).append(i[1] if len(i) == 2 else None)
        return out

    def by_href(self, href):
        for k, e in self.regs.items():
            if e["href"] == href:
                return k
        return None

    def expire(self):
        for k in [k for k, e in self.regs.items()
                  if self.now >= e["t"] + (e["lt"] + self.grace) * TPS]:
            del self.regs[k]

    def apply_params(self, e, query, remote, initial):
        lt = self.single(query, "lt")
        if lt is not None:
            e["lt"] = int(lt)
        base = self.single(query, "base")
        if base is not None:
            e["base"], e["explicit"] = base, True
        elif not e["explicit"]:
            e["base"] = remote
        e["params"].update(self.params_of(query, ("lt", "base") if initial else ("lt", "base", "ep", "d")))
        e["t"] = self.now

    def observe(self, op, token):
        """Account for one op answered with `token`; returns a verdict string or ''."""
        k = op[0]
        if k == "T":
            self.now += op[1]
            self.expire()
            return ""
        ok = token[0] in "CHD"
        if k == "R" and ok:
            if token[0] != "C" or not token[1:].isdigit():
                return f"registration answered {token}"
            href = f"/reg/{token[1:]}/"
            key = (self.single(op[2], "ep"), self.single(op[2], "d"))
            if key[0] is None:
                return "registration without ep was accepted"
            old = self.regs.get(key)
            if old is not None and old["href"] != href:
                return (f"re-registration of {key} moved from {old['href']} to {href}")
            if old is None and self.by_href(href) is not None:
                return f"new registration {key} was given the location {href} of {self.by_href(href)}"
            e = {"href": href, "lt": 90000, "base": None, "explicit": False, "params": {}, "links": []}
            self.apply_params(e, op[2], op[1], True)
            e["links"] = [] if isinstance(op[3][1], str) else [(h, list(map(tuple, at))) for h, at in op[3][1]]
            self.regs[key] = e
            self.expire()
        elif k in "UP":
            key = self.by_href(f"/reg/{op[1]}/")
            if ok:
                if key is None:
                    return f"update of /reg/{op[1]}/ answered {token} but no live registration is there"
                e = self.regs[key]
                self.apply_params(e, op[3], op[2], False)
                if k == "P":
                    e["links"] = [] if isinstance(op[4][1], str) else [(h, list(map(tuple, at))) for h, at in op[4][1]]
                self.expire()
            elif token == "E404" and key is not None:
                return f"live registration {key} at /reg/{op[1]}/ answered 4.04"
        elif k == "X":
            key = self.by_href(f"/reg/{op[1]}/")
            if ok:
                if key is None:
                    return f"DELETE /reg/{op[1]}/ answered {token} but no live registration is there"
                del self.regs[key]
            elif token == "E404" and key is not None:
                return f"live registration {key} at /reg/{op[1]}/ answered 4.04"
        elif k == "G":
            key = self.by_href(f"/reg/{op[1]}/")
            if token.startswith("G["):
                if key is None:
                    return f"GET /reg/{op[1]}/ answered content but no live registration is there"
                want = "G[" + show_links([(h, at) for h, at in self.regs[key]["links"]], False, False) + "]"
                if want != token:
                    return f"registration resource /reg/{op[1]}/ shows {token}, last written {want}"
            elif token == "E404" and key is not None:
                return f"live registration {key} at /reg/{op[1]}/ answered 4.04"
        elif k in "ES":
            want = self.lookup(k, op[1])
            if want is not None and "L[" + want + "]" != token:
                if token.startswith("L["):
                    return f"lookup {op_token(op)} lists {token}, live registrations give L[{want}]"
                return f"lookup {op_token(op)} was answered {token} instead of listing L[{want}]"
            if want is None:
                # criteria the reference does not interpret (valueless, wildcard, unknown keys, pagination):
                # whatever they select, a lookup lists live registrations only, each as last written ...
                if token.startswith("L["):
                    whole = show_links(self.ep_view(), True, True) if k == "E" else show_links(self.res_view(), False, True)
                    pool = whole.split(";") if whole else []
                    for ent in (token[2:-1].split(";") if len(token) > 3 else []):
                        if ent not in pool:
                            return (f"filtered lookup {op_token(op)} lists {ent}, which is no live registration "
                                    f"as last written (L[{whole}])")
                        pool.remove(ent)
                # ... and a lookup that asks for no page must not fail
                elif token.startswith("E5") and not any(i[0] in ("page", "count") for i in op[1]):
                    return f"lookup {op_token(op)} failed ({token})"
        return ""

    # what the unfiltered lookups must show
    def ep_view(self):
        out = []
        for (ep, d), e in self.regs.items():
            attrs = [(k, v) for k, vs in e["params"].items() for v in vs]
            attrs += [("base", e["base"]), ("rt", "core.rd-ep")]
            out.append((e["href"], attrs))
        return out

    def res_view(self, keys=None):
        out = []
        for key, e in self.regs.items():
            if keys is not None and key not in keys:
                continue
            for h, at in e["links"]:
                out.append(based(e["base"], h, at))
        return out

    def lookup(self, kind, query):
        """Filters the reference understands: ep, d (registration parameters), rt (links), href;
        anything else: no opinion."""
        conds = []
        for i in query:
            if len(i) != 2 or i[1].endswith("*") or i[0] not in ("ep", "d", "rt", "href"):
                return None
            conds.append(tuple(i))
        res = []
        for key, e in self.regs.items():
            links = [based(e["base"], h, at) for h, at in e["links"]]

            def reg_ok(k, v):
                if k in ("ep", "d"):
                    return v in e["params"].get(k, [])
                if k == "rt":
                    return any(ak == "rt" and av is not None and v in av.split() for _, at in links for ak, av in at)
                return e["href"] == v or any(h == v for h, _ in links)

            def link_ok(l, k, v):
                if k in ("ep", "d"):
                    return v in e["params"].get(k, [])
                if k == "rt":
                    return any(ak == "rt" and av is not None and v in av.split() for ak, av in l[1])
                return l[0] == v or e["href"] == v
            if kind == "E":
                if all(reg_ok(k, v) for k, v in conds):
                    attrs = [(k, v) for k, vs in e["params"].items() for v in vs]
                    res.append((e["href"], attrs + [("base", e["base"]), ("rt", "core.rd-ep")]))
            else:
                res += [l for l in links if all(link_ok(l, k, v) for k, v in conds)]
        return show_links(res, kind == "E", True)

    def check_snapshot(self, el, sl):
        if el is None or sl is None:
            return ("lookups-broken: the unfiltered " + " and ".join(
                n for n, l in (("endpoint lookup", el), ("resource lookup", sl)) if l is None) +
                " failed or cannot be read as link-format")
        got = show_links(el, True, True)
        want = show_links(self.ep_view(), True, True)
        if got != want:
            gk = sorted(h for h, _ in el)
            wk = sorted(h for h, _ in self.ep_view())
            if gk != wk:
                return (f"endpoint lookup lists {gk} at tick {self.now}, live registrations are {wk}")
            return f"endpoint lookup shows {got}, latest successful writes give {want}"
        hrefs = [h for h, _ in el]
        if len(set(hrefs)) != len(hrefs):
            return f"two registrations share a location: {sorted(hrefs)}"
        keys = [(dict(at).get("ep"), dict(at).get("d")) for _, at in el]
        if len(set(keys)) != len(keys):
            return f"two registrations for one endpoint name and sector: {sorted(map(str, keys))}"
        got = show_links(sl, False, True)
        want = show_links(self.res_view(), False, True)
        if got != want:
            return f"resource lookup shows {got}, latest successful writes give {want}"
        return ""


def judge(impl, ops):
    """Run a history on the implementation; returns (tokens, dump, verdict, key, stats)."""
    ref = Reference(impl.grace)
    tokens = []
    verdict, vkey = "", ""
    stats = {"write_ok": 0, "e4xx": 0, "expired": 0, "listed": 0}
    for idx, op in enumerate(ops):
        is_write = op[0] in "RUP"
        before = (impl.dump(), impl.snapshot()) if is_write else None
        live_before = len(ref.regs)
        tok, _ = impl.do(op)
        tokens.append(tok)
        if is_write and tok[0] in "CH":
            stats["write_ok"] += 1
        if tok.startswith("E4"):
            stats["e4xx"] += 1
        if tok.startswith("L[") and len(tok) > 3:
            stats["listed"] += 1
        if tok == "E500":
            stats["exc"] = stats.get("exc", 0) + 1
        if not verdict and is_write and (tok.startswith("E4") or tok.startswith("E5")):
            # an unsuccessful write -- refused with 4.xx, or failed with an exception (answered 5.00) -- is not
            # "the latest successful write" of anything: the directory must be what it was
            after = (impl.dump(), impl.snapshot())
            if after != before:
                what = (f"{before[0]} -> {after[0]}" if after[0] != before[0] else
                        f"lookups showed {before[1]}, now {after[1]}")
                verdict = f"op {idx} {op_token(op)} was answered {tok} but changed the directory: {what}"
                vkey = ("4xx-changed-state:" if tok.startswith("E4") else "failed-write-changed-state:") + op[0]
        if not verdict and is_write and tok[0] not in "CH" and certainly_valid(
                op, op[0] == "R" or ref.by_href(f"/reg/{op[1]}/") is not None):
            verdict = (f"op {idx} {op_token(op)} is a plain RFC 9176 write (ep, d, lt in range, base scheme://host[:port][/path], "
                       f"link targets and parameter names of ordinary shape) and was answered {tok}")
            vkey = "valid-write-refused:" + op[0]
        v = ref.observe(op, tok)
        if op[0] == "T" and len(ref.regs) < live_before:
            stats["expired"] += 1
        if not verdict and v:
            verdict, vkey = f"op {idx} {op_token(op)}: {v}", "reference:" + op[0] + ":" + v.split(" ")[0]
        if not verdict:
            v = ref.check_snapshot(*impl.snapshot())
            if v:
                verdict, vkey = f"after op {idx} {op_token(op)}: {v}", "snapshot:" + v.split(" ")[0].rstrip(":")
        # errors inside timer tasks (e.g. an overflowing sleep for lt=10**400) are counted by the
        # caller (`task_errors`) but are outside the property
    return tokens, impl.dump(), verdict, vkey, stats


# ---------------------------------------------------------------------------------------------
# generators

L1 = [["/a", [["rt", "temp"]]]]
L2 = [["/s/t", [["rt", "light-lux core.s"], ["if", "sensor"]]], ["/b", [["ct", "40"]]]]
LF = lambda links: ["l", links if links else "e"]
NOBODY = ["n", "e"]


def reg(ep, d=None, lt=None, links=L1, remote=REMOTES[0], extra=()):
    q = [["ep", ep]]
    if d is not None:
        q.append(["d", d])
    if lt is not None:
        q.append(["lt", str(lt)])
    q += [list(x) for x in extra]
    return ["R", remote, q, LF(links)]


def boundary_table(grace):
    g = grace
    cases = []
    looks = [["E", []], ["S", []]]

    def around(prefix, deadline_ticks, elapsed=0):
        """advance to deadline-1, deadline, deadline+1 with lookups at each"""
        d = deadline_ticks - elapsed
        if d - 1 > 0:
            return prefix + [["T", d - 1]] + looks + [["T", 1]] + looks + [["G", 1], ["T", 1]] + looks
        return prefix + looks + [["T", 1]] + looks + [["G", 1]]

    # expiry exactly at (lt + grace) seconds after registration, for every lt kind
    for lt in [0, 1, 5, 60, 2 - g, 1 - g, -g, -g - 1, -g - 5]:
        cases.append(around([reg("n1", lt=lt), reg("n2", "s1", lt=lt + 1, links=L2)] + looks, (lt + g) * TPS))
    cases.append(around([reg("n1")], (90000 + g) * TPS))                       # default lifetime
    # refreshed by POST (with / without a new lt), by PUT, by re-registration; not by failed writes
    for refresh in (["U", 1, REMOTES[0], [], NOBODY], ["U", 1, REMOTES[0], [["lt", "7"]], NOBODY],
                    ["P", 1, REMOTES[0], [], LF(L2)], ["P", 1, REMOTES[0], [["lt", "3"]], LF([])],
                    reg("n1", lt=10), reg("n1", lt=2), reg("n1"),
                    ["U", 1, REMOTES[0], [["lt", "abc"]], NOBODY],
                    ["U", 1, REMOTES[0], [["lt", "7777"]], ["n", "g"]],
                    ["U", 1, REMOTES[0], [["lt", "7777"]], ["l", "e"]],
                    ["P", 1, REMOTES[0], [["lt", "7777"]], NOBODY],
                    ["P", 1, REMOTES[0], [["lt", "7777"]], ["l", "g"]],
                    reg("n1", lt="abc"), ["R", REMOTES[0], [["ep", "n1"], ["lt", "1"], ["lt", "2"]], LF(L1)],
                    ["U", 1, REMOTES[0], [["base", REMOTES[0]], ["lt", "7777"]], NOBODY],
                    ["U", 1, REMOTES[0], [["base"], ["lt", "7777"]], NOBODY],
                    ["U", 2, REMOTES[0], [["lt", "7777"]], NOBODY]):
        for lt0 in (10, 20):
            pre = [reg("n1", lt=lt0), ["T", 5 * TPS], refresh] + looks
            # every deadline the write could have produced: the old timer, or a new one from t = 5 s
            dls = {(lt0 + g) * TPS} | {(5 + lt + g) * TPS for lt in (lt0, 10, 7, 3, 2, 7777)}
            for dl in sorted(dls):
                if dl - 1 > 5 * TPS:
                    cases.append(around(pre, dl, elapsed=5 * TPS))
    # two refreshes in a row: lengthen, let the ORIGINAL deadline pass (or not), then shorten (or lengthen again);
    # lookups around the deadline of the last write and around every earlier one
    for lt0 in (10, 20):
        for first in (1000, lt0, lt0 + 30):
            for t2 in (lt0 + g - 3, lt0 + g + 5, lt0 + g + 40):          # before / after the original deadline
                for last in (4, 60, None):
                    for how in ("U", "P", "R"):
                        if t2 <= 5 or 5 + first + g <= t2:
                            continue                                   # already expired: another story
                        w1 = ["U", 1, REMOTES[0], [["lt", str(first)]], NOBODY]
                        q2 = [] if last is None else [["lt", str(last)]]
                        w2 = {"U": ["U", 1, REMOTES[0], q2, NOBODY], "P": ["P", 1, REMOTES[0], q2, LF(L2)],
                              "R": reg("n1", lt=last)}[how]
                        pre = [reg("n1", lt=lt0), ["T", 5 * TPS], w1, ["T", (t2 - 5) * TPS], w2] + looks
                        eff = last if last is not None else (90000 if how == "R" else first)
                        for dl in sorted({(t2 + eff + g) * TPS, (5 + first + g) * TPS}):
                            if dl - 1 > t2 * TPS and dl < 200000 * TPS:
                                cases.append(around(pre, dl, elapsed=t2 * TPS))
    # a registered link with a valueless attribute (legal link-format) must not disturb anybody's filtered lookups
    LV = [["/x", [["rt", None]]], ["/y", [["obs", None], ["rt", "temp"]]]]
    for first in (True, False):
        regs = [reg("n1", lt=60), reg("n2", lt=60, links=LV)] if first else [reg("n2", lt=60, links=LV), reg("n1", lt=60)]
        flt = [["E", [["rt", "temp"]]], ["S", [["rt", "temp"]]], ["E", [["rt", "zzz"]]], ["S", [["rt", "zzz"]]],
               ["E", [["ep", "n1"]]], ["S", [["ep", "n2"]]], ["E", [["rt", "temp"], ["ep", "n1"]]]]
        cases.append(regs + looks + flt + [["X", 2 if first else 1]] + looks + flt)
        cases.append(regs + [["P", 1, REMOTES[0], [], LF(LV)]] + looks + flt)
    # every 4.xx kind on a new key, an existing key, POST and PUT; the directory before and after
    bad_queries = [[["lt", "abc"]], [["lt", ""]], [["lt", "1"], ["lt", "2"]], [["base", BASES[0]], ["base", BASES[1]]],
                   [["rt", "x"]], [["href", "/x"]], [["page", "0"]], [["count", "1"]], [["anchor", "/"]],
                   [["lt", "5"], ["rt", "x"]], [["foo", "bar"], ["lt", "x1"]]]
    # a base no link can be resolved against (lookups resolve the links of ALL registrations: had such a write been
    # accepted, everybody's lookups would fail from then on), alone and with parameters that must not be applied
    bad_queries += [[["base", b]] for b in BASES_BAD] + [[["base", BASES_BAD[0]], ["lt", "5"], ["foo", "new"]],
                                                          [["lt", "5"], ["base", BASES_BAD[1]]]]
    for bq in bad_queries:
        base = [reg("n1", lt=60, extra=[("foo", "old")]), reg("n2", "s1", lt=60, links=L2)]
        cases.append(base + [["R", REMOTES[0], [["ep", "n1"]] + bq, LF(L2)]] + looks +
                     [["R", REMOTES[0], [["ep", "n3"]] + bq, LF(L2)]] + looks +
                     [["U", 1, REMOTES[1], bq, NOBODY]] + looks + [["P", 2, REMOTES[1], bq, LF(L1)]] + looks +
                     [["G", 1], ["G", 2], ["T", (60 + g) * TPS - 1]] + looks + [["T", 1]] + looks)
    idq = [[], [["ep", "n1"], ["ep", "n2"]], [["d", "s1"]], [["ep", "n1"], ["d", "s1"], ["d", "s2"]]]
    for q in idq:
        cases.append([reg("n1", lt=60), ["R", REMOTES[0], q, LF(L2)]] + looks +
                     [["U", 1, REMOTES[0], [["ep", "n1"]], NOBODY], ["U", 1, REMOTES[0], [["d", "s9"]], NOBODY],
                      ["P", 1, REMOTES[0], [["ep", "n1"]], LF(L2)]] + looks)
    for body in (["n", "e"], ["n", "g"], ["o", "g"], ["o", "e"], ["l", "g"], ["l", "g1"], ["l", "g2"], ["l", "e"],
                 ["l", "g3"], ["l", "g4"], ["l", "g5"], ["n", "g3"]):
        cases.append([reg("n1", lt=60), ["R", REMOTES[0], [["ep", "n1"], ["lt", "5"]], body]] + looks +
                     [["R", REMOTES[0], [["ep", "n2"]], body], ["P", 1, REMOTES[0], [["lt", "5"]], body],
                      ["U", 1, REMOTES[0], [["lt", "5"]], body], ["G", 1], ["T", (5 + g) * TPS]] + looks)
    # links may stay while the base under them changes: a base the EXISTING links can not be resolved against,
    # given on POST, on PUT with and without new links, and on re-registration; filtered lookups afterwards
    flt = [["E", [["rt", "temp"]]], ["S", [["rt", "temp"]]], ["E", [["href", "/reg/1/"]]], ["S", [["ep", "n2"]]]]
    for b in BASES_BAD:
        cases.append([reg("n1", lt=60), reg("n2", "s1", lt=60, links=L2, extra=[("base", BASES[0])]),
                      ["U", 1, REMOTES[0], [["base", b]], NOBODY]] + looks + flt +
                     [["U", 2, REMOTES[0], [["base", b], ["lt", "1"]], NOBODY]] + looks + flt +
                     [["P", 1, REMOTES[0], [["base", b]], LF([])]] + looks + flt +
                     [["P", 2, REMOTES[0], [["base", b]], LF(L1)]] + looks + flt +
                     [reg("n1", lt=5, extra=[("base", b)])] + looks + flt +
                     [reg("n3", lt=5, extra=[("base", b)], links=[])] + looks + flt +
                     [["G", 1], ["G", 2], ["T", (60 + g) * TPS - 1]] + looks + [["T", 1]] + looks)
    # link targets urllib resolves against one base but not against another (`////[` is a path under coap://h1, an
    # authority under a base without scheme): the base changes under the links, the links under the base
    for href, b in (("////[", "?"), ("////]]", "."), ("////[/", "/]")):
        cases.append([reg("n1", lt=60), reg("n2", lt=60, links=[[href, [["rt", "temp"]]]], extra=[("base", BASES[0])])] +
                     looks + flt + [["U", 2, REMOTES[0], [["base", b]], NOBODY]] + looks + flt +
                     [["P", 2, REMOTES[0], [["base", b]], LF([[href, []]])]] + looks + flt +
                     [["R", REMOTES[0], [["ep", "n3"], ["base", b]], LF([[href, []]])]] + looks + flt +
                     [["P", 1, REMOTES[0], [["base", b]], LF(L1)], ["P", 1, REMOTES[0], [], LF([[href, []]])]] + looks + flt)
    # options without a value (`?flag`, `?lt`, `?base`, `?ep`, `?d`, `?count`, ...): every such option on every
    # kind of write, looked at around every deadline that write could have produced had it (partly) taken effect
    # (the old timer, or a new one from t = 5 s with the old, the given or the default lifetime); then the same
    # followed by a plain update, around the deadlines THAT could have
    for k in VALUELESS:
        q = [[k], ["foo", "new"]] if k == "lt" else [[k], ["lt", "30"]]
        for how in ("Rnew", "Rold", "U", "P"):
            w = {"Rnew": ["R", REMOTES[0], [["ep", "n3"]] + q, LF(L2)],
                 "Rold": ["R", REMOTES[0], [["ep", "n1"]] + q, LF(L2)],
                 "U": ["U", 1, REMOTES[1], q, NOBODY],
                 "P": ["P", 1, REMOTES[1], q, LF(L2)]}[how]
            pre = [reg("n1", lt=20, extra=[("foo", "old")]), reg("n2", "s1", lt=60, links=L2), ["T", 5 * TPS], w] + \
                looks + [["E", [[k]]], ["S", [[k]]], ["G", 1]]
            for dl in sorted({(20 + g) * TPS, (5 + 30 + g) * TPS, (5 + 20 + g) * TPS}):
                cases.append(around(pre, dl, elapsed=5 * TPS))
            if how == "Rold":
                cases.append(around(pre, (5 + 90000 + g) * TPS, elapsed=5 * TPS))
            pre2 = pre + [["U", 1, REMOTES[0], [], NOBODY]] + looks
            for dl in sorted({(5 + 30 + g) * TPS, (5 + 20 + g) * TPS}):
                cases.append(around(pre2, dl, elapsed=5 * TPS))
    # ... and on lookups, over registrations that have parameters and link attributes without value
    LV2 = [["/x", [["obs", None], ["rt", "temp"]]], ["/y", [["rt", None], ["flag", None]]]]
    regs_v = [["R", REMOTES[0], [["ep", "n1"], ["flag"], ["lt", "60"]], LF(L1)],
              ["R", REMOTES[0], [["ep", "n2"], ["d"], ["et"], ["lt", "60"]], LF(LV2)],
              reg("n3", "s1", lt=60, links=L2, extra=[("flag", "1")])]
    crit = [[[k]] for k in VALUELESS + ["flag", "obs", "if", "anchor"]] + \
        [[["flag"], ["ep", "n1"]], [["flag"], ["flag", "1"]], [["flag"], ["flag"]], [["count"], ["page"]],
         [["count"], ["count"]], [["page"], ["page"]], [["page"], ["ep", "n2"]], [["d"], ["ep", "n2"]],
         [["obs"], ["rt", "temp"]], [["flag", "1"]], [["flag", ""]], [["et"], ["d"]], [["ep"], ["ep", "n1"]]]
    for part in (crit[:9], crit[9:18], crit[18:]):
        cases.append(regs_v + looks + [[kind, qq] for qq in part for kind in "ES"] +
                     [["U", 1, REMOTES[0], [["flag", "2"]], NOBODY], ["X", 2]] + looks +
                     [[kind, qq] for qq in part for kind in "ES"])
    # `?ep=n1&d` is n1 without sector: it replaces (and is replaced by) the registration `?ep=n1`, at one location
    cases.append([reg("n1", lt=60), ["R", REMOTES[0], [["ep", "n1"], ["d"]], LF(L2)]] + looks +
                 [reg("n1", "s1", lt=60), reg("n1", lt=5)] + looks + [["T", (5 + g) * TPS]] + looks)
    # values that need escaping in the link-format the lookups answer with: as registration parameters (register,
    # POST, PUT) and as link attributes (register, PUT); every lookup must stay readable and show them as written
    for v in QUOTY:
        cases.append([reg("n1", lt=60, extra=[("note", v)], links=[["/a", [["title", v], ["rt", "temp"]]]]), reg("n2", lt=60)] +
                     looks + [["G", 1], ["E", [["note", v]]], ["S", [["title", v]]],
                              ["U", 2, REMOTES[0], [["note", v]], NOBODY]] + looks +
                     [["P", 2, REMOTES[0], [["memo", v]], LF([["/b", [["title", v]]], ["/c", [["title", "plain"]]]])]] + looks +
                     [["G", 2], ["E", [["note", v]]], ["S", [["title", v]]], ["E", [["rt", "temp"]]], ["X", 1]] + looks)
    # anonymous remote: explicit base required, also on updates of an implicit base
    cases.append([["R", None, [["ep", "n1"]], LF(L1)], ["R", None, [["ep", "n1"], ["base", BASES[0]]], LF(L1)]] + looks +
                 [["U", 1, None, [], NOBODY], reg("n2"), ["U", 2, None, [["lt", "5"]], NOBODY],
                  ["U", 2, None, [["base", BASES[1]], ["lt", "6"]], NOBODY], ["U", 2, None, [], NOBODY]] + looks)
    # the base follows the remote until it is given explicitly
    cases.append([reg("n1"), ["U", 1, REMOTES[1], [], NOBODY]] + looks +
                 [["U", 1, REMOTES[0], [["base", REMOTES[0]]], NOBODY], ["U", 1, REMOTES[1], [], NOBODY]] + looks +
                 [["U", 1, REMOTES[1], [["base", BASES[2]]], NOBODY], ["S", [["href", BASES[2] + "/a"]]],
                  ["E", [["href", "/reg/1/"]]], ["S", [["href", "/reg/1/"]]], ["S", [["anchor", BASES[2] + "/"]]]])
    # locations: reuse after delete / expiry, kept on re-registration, never shared
    cases.append([reg("n1", lt=5), reg("n2", lt=60), reg("n3", "s1", lt=60), ["X", 2], ["G", 2], ["X", 2],
                  reg("n1", "s2", lt=60)] + looks + [reg("n2", lt=60), reg("n3", "s1", lt=1, links=L2)] + looks +
                 [["T", (5 + g) * TPS], ["G", 1], reg("n3", lt=60), ["G", 1]] + looks +
                 [["X", 0], ["X", 9], ["U", 9, REMOTES[0], [], NOBODY], ["P", 0, REMOTES[0], [], LF(L1)], ["G", 7]])
    # sectors separate registrations of one name; filters
    cases.append([reg("n1", lt=60), reg("n1", "s1", lt=60, links=L2), reg("n1", "s2", lt=30, extra=[("et", "oic.d"), ("if", "core.s core.a")]),
                  ["E", [["ep", "n1"]]], ["E", [["d", "s1"]]], ["E", [["ep", "n1"], ["d", "s2"]]], ["E", [["ep", "n2"]]],
                  ["E", [["rt", "core.s"]]], ["E", [["rt", "light-lux core.s"]]], ["E", [["et", "oic.d"]]], ["E", [["if", "core.a"]]],
                  ["E", [["href", "/reg/2/"]]], ["E", [["href", REMOTES[0] + "/b"]]], ["E", [["base", REMOTES[0]]]],
                  ["S", [["rt", "temp"]]], ["S", [["rt", "core.s"]]], ["S", [["d", "s1"]]], ["S", [["ep", "n1"], ["rt", "temp"]]],
                  ["S", [["href", REMOTES[0] + "/s/t"]]], ["S", [["href", "/reg/3/"]]], ["S", [["if", "sensor"]]], ["S", [["ct", "40"]]],
                  ["S", [["if", "core.s"]]], ["S", [["anchor", REMOTES[0] + "/"]]], ["E", [["anchor", REMOTES[0] + "/"]]],
                  ["T", (30 + g) * TPS], ["E", [["ep", "n1"]]], ["S", [["ep", "n1"]]]])
    # parameters of the latest successful write win; repeated keys
    cases.append([reg("n1", lt=60, extra=[("foo", "a"), ("foo", "b"), ("et", "x")]), ["E", []],
                  ["U", 1, REMOTES[0], [["foo", "c"]], NOBODY], ["E", []], ["E", [["foo", "a"]]], ["E", [["foo", "c"]]],
                  ["U", 1, REMOTES[0], [["foo", "d"], ["rt", "x"]], NOBODY], ["E", []],
                  reg("n1", lt=60, extra=[("bar", "z")]), ["E", []], ["S", []],
                  ["P", 1, REMOTES[0], [["bar", "y"], ["bar", "y2"]], LF(L2)], ["E", []], ["S", []], ["G", 1]])
    return cases


# characters that frame link-format (RFC 6690): none of them has an escape in a parameter NAME or inside `<...>`
FRAMING = ['"', ";", ",", "<", ">", " ", "\\", "\u00e9"]
BAD_NAMES = ["k" + ch + "y" for ch in FRAMING] + ["", "a,</evil>;ep", "k*", "\u00e9", " k", "k ", "k\\", "<", ">", '"']
# (`=` can not be part of a name: a Uri-Query option is split at its first `=`; it is tried in values)
ODD_BASES = ["coap://h" + ch + "x" for ch in FRAMING + ["="]] + \
    ["coap://h>", "coap://h1>,<coap://victim.example", "coap://h/p>q", ">", "coap://h>/p/"]


def framing_table(grace):
    """Client-supplied text that the lookups write out where link-format has no escape -- names of registration
    parameters (link-param names of the endpoint lookup), the base and the link targets (inside `<...>` of the
    resource lookup), anchors -- on register, re-register, POST update and PUT.  The oracle: the write is refused
    (4.xx, nothing changed), or every lookup afterwards is readable (RFC 6690 grammar, strict parmnames) and lists
    exactly the registered endpoints / resources with their parameters.  Then the writes nobody may refuse."""
    cases = []
    looks = [["E", []], ["S", []]]
    flt = [["E", [["ep", "n1"]]], ["S", [["rt", "temp"]]], ["E", [["rt", "temp"]]], ["S", [["ep", "n2"]]]]
    two = [reg("n1", lt=60, extra=[("foo", "old")]), reg("n2", "s1", lt=60, links=L2)]
    for name in BAD_NAMES:
        for item in ([name, "1"], [name]):
            if item == [""]:
                continue                                    # an empty option is no option at all
            cases.append(two + [["R", REMOTES[0], [["ep", "n3"], item], LF(L1)]] + looks + flt +
                         [["R", REMOTES[0], [["ep", "n1"], ["lt", "30"], item], LF(L2)]] + looks + flt + [["G", 1]])
            cases.append(two + [["U", 1, REMOTES[1], [item, ["lt", "30"]], NOBODY]] + looks + flt +
                         [["P", 2, REMOTES[1], [["lt", "30"], item], LF(L1)]] + looks + flt +
                         [["U", 1, REMOTES[0], [], NOBODY], ["G", 2], ["T", (30 + grace) * TPS - 1]] + looks + [["T", 1]] + looks)
    for b in ODD_BASES:
        cases.append(two + [["U", 1, REMOTES[0], [["base", b]], NOBODY]] + looks + flt +
                     [["U", 2, REMOTES[0], [["base", b], ["lt", "30"]], NOBODY]] + looks + flt +
                     [["P", 1, REMOTES[0], [["base", b]], LF([])]] + looks + flt +
                     [["P", 2, REMOTES[0], [["base", b]], LF(L1)]] + looks + flt + [["G", 1], ["G", 2]])
        cases.append(two + [reg("n1", lt=5, extra=[("base", b)])] + looks + flt +
                     [reg("n3", lt=30, extra=[("base", b)], links=[])] + looks + flt +
                     [["P", 3, REMOTES[0], [], LF(L1)]] + looks + flt +        # links arrive under a base stored before
                     [["P", 2, REMOTES[0], [], LF([["x", [["rt", "temp"]]]])], reg("n2", links=L2, extra=[("base", b)])] + looks + flt)
    for ch in FRAMING + ["="]:
        for odd in ([["/a" + ch + "b", [["rt", "temp"]]]],
                    [["/ok", []], ["a" + ch, [["rt", "temp"]]]],
                    [["/a", [["rt", "temp"], ["anchor", "/x" + ch + "y"]]]],
                    [["/a", [["anchor", ch], ["rt", "temp"]]]]):
            cases.append(two + [reg("n3", lt=60, links=odd)] + looks + flt + [reg("n1", lt=60, links=odd)] + looks + flt +
                         [["P", 2, REMOTES[0], [], LF(odd)]] + looks + flt +
                         [["P", 2, REMOTES[0], [["base", BASES[0] + "/p/"]], LF(odd)]] + looks + flt + [["G", 1], ["G", 2], ["G", 3]])
        # the same characters are harmless in VALUES (quoted): such writes must be accepted
        cases.append(two + [reg("n3", lt=60, extra=[("note", "a" + ch + "b")], links=[["/a", [["title", "a" + ch + "b"]]]])] +
                     looks + flt + [["U", 1, REMOTES[0], [["note", ch]], NOBODY],
                                    ["P", 2, REMOTES[0], [["x-y.z", ch + ch]], LF([["/b", [["title", ch]]]])]] + looks + flt)
    # --- writes every directory must accept (RFC 9176 section 5), each followed by every lookup
    valid = [
        (["base", "coap://h1/p/"], [["sensors/temp", [["rt", "temp"]]]]),               # relative target, base with a path
        (["base", "coap://h1/p/q"], [["../x", [["rt", "temp"]]]]),
        (["base", "coap://h1/p"], [["?k=v", [["rt", "temp"]]]]),
        (["base", "coap://[2001:db8::7]:5683"], [["/a", [["rt", "temp"]]]]),
        (["base", "coap+tcp://h10"], [["/a", [["rt", "temp"]]]]),
        (["base", "http://h11:8080"], [["/a", [["rt", "temp"]]]]),
        (None, [["http://www.example.com/sensors/t123", [["rt", "temp"]]]]),
        (None, [["coaps://h/x", [["rt", "temp"]]], ["coap+tcp://[::1]/y", []], ["coap+ws://h/z", [["rt", "temp"]]]]),
        (None, [["urn:dev:ow:10e2073a01080063", [["rt", "temp"]]], ["mailto:a@b.example", []]]),
        (["base", "coap://h9"], [["/sensors/temp", [["rt", "temp"], ["anchor", "coap://other.example/"]]],
                                 ["http://www.example.com/s", [["anchor", "/sensors/temp"], ["rel", "describedby"]]]]),
        (["x-y.z", "1"], [["/a", [["rt", "temp"], ["x-y.z", "v"], ["obs", None]]]]),     # names with `-` and `.`
        (["note", "a>b <c>; d=e, f"], [["/a", [["title", "a>b <c>; d=e, f"]]]]),         # framing characters in values
        (["lt", "1"], []), (["lt", "4294967295"], L1), (["et", "oic.d"], L2),
    ]
    for extra, links in valid:
        ex = [extra] if extra else []
        cases.append([reg("n1", lt=60), ["R", REMOTES[0], [["ep", "a-1.x_y"], ["d", "s-1.x"]] + ex, LF(links)]] + looks + flt +
                     [["G", 2], ["U", 1, REMOTES[1], ex, NOBODY]] + looks +
                     [["P", 1, REMOTES[0], ex, LF(links)]] + looks + flt + [["G", 1], ["R", REMOTES[1], [["ep", "n1"]] + ex, LF(links)]] +
                     looks + flt)
    return cases


def rand_links(rng):
    out = []
    for _ in range(rng.choice([0, 1, 1, 2, 3])):
        attrs = []
        if rng.random() < 0.7:
            attrs.append(["rt", rng.choice(RTS)])
        if rng.random() < 0.4:
            attrs.append(["if", rng.choice(IFS)])
        if rng.random() < 0.2:
            attrs.append(["ct", rng.choice(["0", "40"])])
        if rng.random() < 0.08:
            attrs.append([rng.choice(["obs", "rt", "flag"]), None])
        if rng.random() < 0.05:
            attrs.append(["title", rng.choice(QUOTY)])
        out.append([rng.choice(HREFS), attrs])
    return out


def rand_body(rng, want_links):
    r = rng.random()
    if want_links:
        if r < 0.85:
            return LF(rand_links(rng))
        return rng.choice([["n", "e"], ["n", "g"], ["o", "g"], ["l", "g"], ["l", "g1"], ["o", "e"]])
    if r < 0.85:
        return NOBODY
    return rng.choice([["l", "e"], ["n", "g"], ["l", [["/a", []]]], ["o", "g"]])


def rand_params(rng, malformed):
    """lt / base / unknown / forbidden keys for a write; returns (items, lt or None, looks_valid)"""
    q, lt, valid = [], None, True
    r = rng.random()
    if r < 0.55:
        v = rng.choice(LT_OK + ["60", "60", "30", "90000", "120"])
        q.append(["lt", v])
        lt = int(v)
    elif r < 0.63:
        q.append(["lt", rng.choice(LT_BAD)])
        valid = False
    elif r < 0.67:
        q += [["lt", rng.choice(LT_OK)], ["lt", rng.choice(LT_OK)]]
        valid = False
    if rng.random() < 0.25:
        q.append(["base", rng.choice(BASES + REMOTES)])
        if rng.random() < 0.1:
            q.append(["base", rng.choice(BASES)])
            valid = False
    elif rng.random() < 0.03:
        q.append(["base", rng.choice(BASES_BAD)])
        valid = False
    if rng.random() < 0.3:
        q.append([rng.choice(["foo", "et", "if"]), rng.choice(["a", "b", "oic.d", "core.s core.a"] + QUOTY[:3])])
        if rng.random() < 0.2:
            q.append(["foo", "z"])
    if rng.random() < 0.08:                                                 # an option without a value
        k = rng.choice(VALUELESS + ["foo", "foo", "flag"])
        q.append([k])
        valid = valid and k in ("foo", "flag", "et")
    if rng.random() < 0.06:
        q.append([rng.choice(["rt", "href", "page", "count", "anchor"]), "x"])
        valid = False
    if malformed:
        m = rng.randrange(7)
        if m == 0:
            q.append([rng.choice(["lt", "base", "foo", "d"])])          # valueless
        elif m == 1:
            q.append(["lt", rng.choice(["1_0", " 5", "5 ", "٣", str(10 ** 30), str(2 ** 40), "-" + str(2 ** 40)])])
            lt = None
        elif m == 2:
            q.append(["base", rng.choice(["xyz", "coap://h1/p/", "http://h/", "", "coap://h1/", "?", ".", "/]", "coap://[zz]"])])
        elif m == 3:
            q.append(["proxy", rng.choice(["on", "yes", "no"])])
        elif m == 4:
            q.append(["k y", "v"]) if rng.random() < 0.5 else q.append(["foo", 'q"uo\\te'])
        # 5, 6: nothing extra (the lookups of the history carry the oddity)
    rng.shuffle(q)
    return q, lt, valid


def rand_history(rng, grace, malformed):
    """A history steered by a rough prediction of which locations are alive (steering only)."""
    ops = []
    now = 0
    alive = {}                      # (ep, d) -> [path, lt, deadline], as the generator expects it
    deadlines = []

    def sweep():
        for k in [k for k, v in alive.items() if v[2] <= now]:
            del alive[k]

    def pick_path():
        live = [v[0] for v in alive.values()]
        if live and rng.random() < 0.8:
            return rng.choice(live)
        return rng.choice([1, 2, 3, 4, 0, 7])

    n = rng.randrange(6, 26)
    for _ in range(n):
        r = rng.random()
        remote = rng.choice(REMOTES + [REMOTES[0]]) if rng.random() < 0.95 else None
        if r < 0.27:
            ep, d = rng.choice(EPS), rng.choice(DS)
            q, lt, valid = rand_params(rng, malformed and rng.random() < 0.3)
            head = [["ep", ep]] if rng.random() < 0.95 else ([] if rng.random() < 0.5 else [["ep", ep], ["ep", "n9"]])
            valid = valid and len(head) == 1
            if d is not None:
                head.append(["d", d])
            q = head + q
            if rng.random() < 0.2:
                rng.shuffle(q)
            body = rand_body(rng, True)
            ops.append(["R", remote, q, body])
            if valid and body[0] == "l" and body[1][0] != "g" and (remote is not None or any(i[0] == "base" for i in q)):
                path = alive[(ep, d)][0] if (ep, d) in alive else min(
                    i for i in range(1, 50) if i not in [v[0] for v in alive.values()])
                lt = 90000 if lt is None else lt
                alive[(ep, d)] = [path, lt, now + (lt + grace) * TPS]
                deadlines.append(alive[(ep, d)][2])
                sweep()
        elif r < 0.47:
            kind = "U" if rng.random() < 0.68 else "P"
            q, lt, valid = rand_params(rng, malformed and rng.random() < 0.3)
            if rng.random() < 0.05:
                q.append(rng.choice([["ep", "n1"], ["d", "s1"]]))
                valid = False
            path = pick_path()
            body = rand_body(rng, kind == "P")
            ops.append([kind, path, remote, q, body])
            ok_body = (body == NOBODY) if kind == "U" else (body[0] == "l" and body[1][0] != "g")
            for k, v in alive.items():
                if v[0] == path and valid and ok_body:
                    v[1] = v[1] if lt is None else lt
                    v[2] = now + (v[1] + grace) * TPS
                    deadlines.append(v[2])
            sweep()
        elif r < 0.53:
            path = pick_path()
            ops.append(["X", path])
            for k in [k for k, v in alive.items() if v[0] == path]:
                del alive[k]
        elif r < 0.59:
            ops.append(["G", pick_path()])
        elif r < 0.79:
            k = rng.random()
            future = [x for x in deadlines if x - 1 > now]
            if k < 0.55 and future:
                dt = rng.choice(future) + rng.choice([-1, -1, 0, 0, 1]) - now
            elif k < 0.8:
                dt = rng.choice([1, 2, TPS, 5 * TPS, 15 * TPS, 16 * TPS, 60 * TPS])
            else:
                dt = rng.randrange(1, 80 * TPS)
            dt = max(dt, 1)
            now += dt
            ops.append(["T", dt])
            sweep()
        else:
            kind = rng.choice("EES")
            q = []
            c = rng.random()
            if c < 0.2:
                q.append(["ep", rng.choice(EPS)])
            elif c < 0.3:
                q.append(["d", rng.choice(["s1", "s2", "s3"])])
            elif c < 0.4:
                q.append(["rt", rng.choice(["temp", "core.s", "x", "light-lux core.s", "light-lux"])])
            elif c < 0.5:
                q.append(["href", rng.choice(["/reg/1/", "/reg/2/", REMOTES[0] + "/a", BASES[0] + "/b", "/a"])])
            elif c < 0.58:
                q.append([rng.choice(["foo", "et", "if", "base", "ct", "anchor", "lt"]),
                          rng.choice(["a", "oic.d", "core.s", "sensor", "40", REMOTES[0] + "/", REMOTES[0]])])
            if rng.random() < 0.2:
                q.append(rng.choice([["ep", rng.choice(EPS)], ["d", "s1"], ["rt", "x"], ["rt", "temp"]]))
            if rng.random() < 0.1:
                q.append([rng.choice(VALUELESS + ["foo", "flag", "obs", "if"])])
                if rng.random() < 0.2:
                    q.append(list(q[-1]))
            if malformed and rng.random() < 0.3:
                q.append(rng.choice([["page", "0"], ["count", "1"], ["page", "0"], ["rt", "core.*"], ["ep", "n*"], ["foo"], ["ep"]]))
                if q[-1] == ["page", "0"]:
                    q.append(["count", "2"])
            ops.append([kind, q])
    ops += [["E", []], ["S", []]]
    return ops


# ---------------------------------------------------------------------------------------------

def run_case(aiocoap, ops):
    impl = Impl(aiocoap)
    try:
        tokens, dump, verdict, vkey, stats = judge(impl, ops)
        stats["task_errors"] = len(impl.loop.errors)
        stats["exceptions"] = sorted(set(impl.exceptions))
        return " ".join(tokens) + " | " + dump, verdict, vkey, stats, impl.grace
    finally:
        impl.close()


def run(env, rep):
    aiocoap = env.import_repo()
    __import__("common").quiet(logging.getLogger("resource-directory"))
    __import__("common").quiet(logging.getLogger("asyncio"))
    warnings.filterwarnings("ignore", message=".* is deprecated, use .*")   # aiocoap.util.DeprecationWarning
    import aiocoap.cli.rd as rd
    grace = rd.CommonRD.Registration.grace_period
    if not isinstance(grace, int):
        from common import HarnessError
        raise HarnessError(f"grace_period {grace!r} is not an integer number of seconds")

    cases = [("corpus", c["ops"]) for _, c in load_corpus("C20") if "ops" in c]
    table = boundary_table(grace) + framing_table(grace)
    cases += [("boundary", ops) for ops in table]
    rep.exhaustive_parts.append(f"boundary table: {len(table)} histories (deadlines -1/0/+1 tick, 4.xx kinds, locations, filters, "
                                f"framing characters in names / bases / targets / anchors, certainly valid writes)")
    n = env.scale(1400, 40000)
    for i in range(n):
        malformed = i % 7 == 6                      # ~14 % of the random histories
        cases.append(("malformed" if malformed else "random", rand_history(env.rng, grace, malformed)))

    lines, impl_outs, recs = [], [], []
    for src, ops in cases:
        out, verdict, vkey, stats, g = run_case(aiocoap, ops)
        case = {"ops": ops}
        lines.append(f"C20 {g} {TPS} " + " ".join(op_token(op) for op in ops))
        impl_outs.append(out)
        recs.append(case)
        nontrivial = (stats["write_ok"] > 0 and (stats["e4xx"] > 0 or stats["expired"] > 0) and stats["listed"] > 0)
        rep.case(case, nontrivial=nontrivial, sample_every=150)
        rep.count("source=" + src)
        rep.count("history-length=%d0s" % (len(ops) // 10))
        for op in ops:
            rep.count("op=" + op[0])
        for tok in out.split(" | ")[0].split(" "):
            rep.count("response=" + (tok[:2] if tok[0] in "LG" else re.sub(r"\d+$", "", tok) if tok[0] == "C" else tok))
        if stats["expired"]:
            rep.count("histories-with-expiry")
        if stats["task_errors"]:
            rep.count("histories-with-task-errors")
        for cls in stats["exceptions"]:
            rep.count("answered-5.00-for=" + cls)
        for op in ops:
            q = op[2] if op[0] == "R" else op[3] if op[0] in "UP" else op[1] if op[0] in "ES" else []
            for i in q:
                if len(i) == 1:
                    rep.count("valueless-option:%s:%s" % (op[0], i[0] if i[0] in VALUELESS else "other"))
                elif '"' in i[1] or "\\" in i[1]:
                    rep.count("value-needing-escape:" + op[0])
        if verdict:
            rep.oracle_fail(case, verdict, key=vkey)
    compare(env, rep, recs, lines, impl_outs, what="resource directory")
    mal = rep.hist.get("source=malformed", 0)
    if mal * 2 > len(cases):
        from common import HarnessError
        raise HarnessError("malformed stream exceeds 50 % of the cases")
    # every kind of answer the model can give must have been exercised (boundary table guarantees it)
    missing = [k for k in ("C", "H", "D", "E400", "E404", "E415", "E500", "T", "G[", "L[")
               if not rep.hist.get("response=" + k)]
    if (missing or not rep.hist.get("histories-with-expiry")) and not (rep.oracle_failures or rep.disagreements):
        # (an implementation that fails the property may well never give some answer: that is reported as such)
        from common import HarnessError
        raise HarnessError(f"generated histories never produced {missing or 'an expiry'}")


def replay(env, case):
    aiocoap = env.import_repo()
    __import__("common").quiet(logging.getLogger("resource-directory"))
    __import__("common").quiet(logging.getLogger("asyncio"))
    warnings.filterwarnings("ignore", message=".* is deprecated, use .*")   # aiocoap.util.DeprecationWarning
    _, verdict, _, _, _ = run_case(aiocoap, case["ops"])
    return verdict
